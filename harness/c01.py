"""C01 — scenes are drawn from exactly the program's conditional distribution.

Spec: spec/Sampler.tla (operational machine + denotational table, invariants checked by TLC
on every program of the batch).  Binding: M1 + completeness — the scripted-RNG DFS driver runs
the real Scenario.generate once per RNG branch; the aggregated exact distribution over
(scene, iterations) and the exhaustion mass must equal the law derived from the spec."""

import json
import os
import sys
import time
from fractions import Fraction

from common import Check, MachineryError, pmap, run_tlc, scratch, seed
import gen_discrete
import rng as srng

CFG = """SPECIFICATION Spec
INVARIANT TypeOK
INVARIANT ChainRule
INVARIANT ActivationWeight
INVARIANT VerdictExact
INVARIANT IterExact
INVARIANT HardAlwaysActive
INVARIANT EmitTerminal
INVARIANT EmitDenot
PROPERTY DrawnOnce
PROPERTY RejectSound
PROPERTY ActivateOnce
CHECK_DEADLOCK FALSE
"""


def frac(p):
    return Fraction(p[0], p[1])


def prod(seq):
    r = Fraction(1)
    for x in seq:
        r *= x
    return r


def spec_law(prog, denot, terms):
    """From TLC's output for one program: (law from the denotation, law from the machine).
    A law maps (outcome tuple or 'exhausted', iterations) -> Fraction."""
    M = prog["maxIter"]
    reqs = prog["reqs"]
    nr = len(reqs)
    law = {}
    for mask in range(1 << nr):
        A = [r for r in range(nr) if mask >> r & 1]
        pA = Fraction(1)
        for r in range(nr):
            p = frac(reqs[r]["p"])
            pA *= p if r in A else 1 - p
        if pA == 0:
            continue
        acc = {}
        for row in denot["table"]:
            if all(row["holds"][r] for r in A):
                key = tuple(row["out"])
                acc[key] = acc.get(key, Fraction(0)) + frac(row["w"])
        rej = 1 - sum(acc.values(), Fraction(0))
        for i in range(1, M + 1):
            for key, a in acc.items():
                m = pA * rej ** (i - 1) * a
                if m:
                    law[(key, i)] = law.get((key, i), Fraction(0)) + m
        ex = pA * rej**M
        if ex:
            law[("exhausted", M)] = law.get(("exhausted", M), Fraction(0)) + ex
    op = {}
    for t in terms:
        key = (tuple(t["out"]), t["iter"]) if t["pc"] == "accepted" else ("exhausted", t["iter"])
        op[key] = op.get(key, Fraction(0)) + prod(frac(w) for w in t["ws"])
    return law, op


def _norm(v):
    if isinstance(v, bool):
        return int(v)
    if isinstance(v, float) and v == int(v):
        return int(v)
    return v


def real_law(item):
    """Run in a worker: compile the program with the real Scenic and enumerate every RNG
    branch of Scenario.generate.  Returns (law as {repr key: [num, den]}, branches, note)."""
    text, prog, info = item
    import scenic
    from scenic.core.distributions import RejectionException

    try:
        scenario = scenic.scenarioFromString(text, mode2D=bool(info.get("mode2D")))
    except Exception as e:  # generator sanity rule: the spec says this program is well formed
        return {"error": f"compile: {type(e).__name__}: {e}"}
    M = prog["maxIter"]
    names = info["outnames"]
    nobj = len({(e[2] if len(e) > 2 else 0) for e in names if e[0] in ("prop", "propidx")})

    def run(_s):
        try:
            scene, its = scenario.generate(maxIterations=M, verbosity=0)
        except RejectionException:
            return ("exhausted", M)
        out = []
        for entry in names:
            kind, nm = entry[0], entry[1]
            if kind == "param":
                out.append(_norm(scene.params[nm]))
            elif kind == "propidx":   # element j of the tuple / list property of the k-th object
                k, jdx = entry[2], entry[3]
                out.append(_norm(getattr(scene.objects[0 if k == nobj - 1 else k + 1], nm)[jdx]))
            else:   # a property of the k-th object created by the program; Scene.objects lists the ego (the
                # last one assigned to `ego`, here the last one created) first, then the others in creation order
                k = entry[2] if len(entry) > 2 else 0
                out.append(_norm(getattr(scene.objects[0 if k == nobj - 1 else k + 1], nm)))
        return (tuple(out), its)

    law = {}
    n = 0
    sample_log = None
    try:
        for outcome, w, log in srng.explore(run, thresholds=[Fraction(t) for t in info["thresholds"]]):
            n += 1
            law[outcome] = law.get(outcome, Fraction(0)) + w
            if sample_log is None:
                sample_log = [(e[0], repr(e[1]), repr(e[5])) for e in log]
    except Exception as e:
        import traceback

        return {"error": f"run: {type(e).__name__}: {e}", "tb": traceback.format_exc()[-1500:]}
    return {
        "law": {repr(k): [v.numerator, v.denominator] for k, v in law.items()},
        "branches": n,
        "log": sample_log,
    }


def main(tier):
    ck = Check("C01", tier, "model_checking")
    ck.cov["rule"] = (
        "programs of the finite-discrete fragment: exhaustive two-draw core (every sharing shape x "
        "requirement form x hard/soft x rebinding) plus seeded random programs; a case is one program; "
        "non-trivial = at least two RNG branches and a law with at least two outcomes; distinct by program text"
    )
    ck.assumptions += [
        "finite-discrete fragment only (integer values; DiscreteRange/Uniform/Discrete/resample/lifted "
        "operators and calls/params/object properties/hard and soft requirements; Uniform over tuples and lists "
        "indexed by constant, negative and random indices, star-unpacked calls, coordinates of random vectors, "
        "globalParameters feeding later draws, tuple- and list-valued properties)",
        "random.random() cells: one representative per interval between the soft-requirement probabilities, "
        "so `<= p` and `< p` are not distinguished (null set)",
        "the printer pair gen_discrete.to_scenic / to_prog is trusted glue",
    ]
    core = gen_discrete.exhaustive_core()
    nrand = 150 if tier == "quick" else 2500
    rand, dropped = gen_discrete.generate(seed() * 7919 + 1, nrand)
    if tier == "quick":
        # the quick tier takes every third core program (rotating with the seed) and all random ones
        core = [c for i, c in enumerate(core) if i % 3 == seed() % 3]
    # programs that assign `ego` twice, with requirements / variables / parameters mentioning ego.foo in between
    ecore = gen_discrete.ego_core()
    if tier == "quick":
        ecore = ecore[seed() % 2 :: 2]
    # containers, attributes, star-unpacking, dependent global parameters, tuple-valued properties
    ccore = gen_discrete.container_core()
    if tier == "quick":
        ccore = ccore[seed() % 6 :: 6]
    if os.environ.get("C01_ONLY") == "containers":
        core, ecore, rand = [], [], []
    items = core + ecore + ccore + rand
    ck.cov["container_core_programs"] = len(ccore)
    for i, (_t, _p, info) in enumerate(items):
        info["mode2D"] = i % 4 == 3  # every fourth program is compiled in 2D compatibility mode
    ck.cov["dropped_by_generator"] = dropped
    ck.cov["programs"] = len(items)

    # ---- TLC: invariants of the machine + denotational table + terminal behaviours
    batches = [items[i : i + 400] for i in range(0, len(items), 400)]
    spec_out = {}
    base = 0
    for b in batches:
        path = os.path.join(scratch(), f"progs{base}.json")
        with open(path, "w") as f:
            json.dump([p for _t, p, _i in b], f)
        res = run_tlc("Sampler", CFG, env={"PROGS": path, "PRINT_HIST": "0"}, coverage=(base == 0), timeout=3000)
        ck.add_tlc("Sampler", res)
        for o in res.outputs:
            d = spec_out.setdefault(base + o["pid"] - 1, {"denot": None, "terms": []})
            if o["t"] == "denot":
                d["denot"] = o
            else:
                d["terms"].append(o)
        if base == 0:
            need = ["Activate", "BeginAttempt", "Draw", "EmptyRange", "Compute", "CheckRequirements"]
            missing = [a for a in need if res.coverage.get(a, (0, 0))[1] == 0]
            if missing:
                raise MachineryError(f"Sampler actions never taken (vacuous model): {missing}")
        base += len(b)

    # ---- real code, every RNG branch
    results = pmap(real_law, items)

    for i, ((text, prog, info), rr) in enumerate(zip(items, results)):
        so = spec_out.get(i)
        if so is None or so["denot"] is None:
            raise MachineryError(f"no TLC output for program {i}")
        law, op = spec_law(prog, so["denot"], so["terms"])
        if law != op:
            raise MachineryError(
                f"Sampler.tla inconsistent on program {i}: operational law != denotational law\n{text}"
            )
        nontrivial = len(law) >= 2 and len(so["terms"]) >= 2
        ck.case(text, nontrivial)
        if "error" in rr:
            if rr["error"].startswith("compile:"):
                ck.cov["dropped_by_generator"] += 1
                continue
            ck.violation(
                f"real code failed on a well-formed program: {rr['error']}",
                {"property": "C01", "program": text, "prog": prog, "error": rr, "expected_law": {repr(k): str(v) for k, v in law.items()}},
            )
            continue
        real = {k: Fraction(v[0], v[1]) for k, v in rr["law"].items()}
        exp = {repr(k): v for k, v in law.items()}
        if real != exp:
            diff = {
                k: {"expected": str(exp.get(k, 0)), "observed": str(real.get(k, 0))}
                for k in sorted(set(real) | set(exp))
                if real.get(k, 0) != exp.get(k, 0)
            }
            ck.violation(
                f"distribution over (scene, iterations) differs from the program's conditional distribution: {list(diff.items())[:3]}",
                {"property": "C01", "program": text, "prog": prog, "outnames": info["outnames"], "differences": diff,
                 "first_branch_draws": rr.get("log"), "order": so["denot"]["order"]},
            )
        else:
            ck.validated(rr["branches"])
        ck.sample({"program": text.replace(gen_discrete.PRELUDE, ""), "maxIter": prog["maxIter"],
                   "law": {k: str(v) for k, v in exp.items()}, "rng_branches": rr.get("branches")}, limit=4)
    ck.cov["exhaustive"] = False
    ck.cov["explanation"] = "TLC exhaustive per program (all RNG outcomes up to maxIter); programs: exhaustive core + seeded random"
    return ck.finish()


if __name__ == "__main__":
    sys.exit(main(sys.argv[1] if len(sys.argv) > 1 else "quick"))
