"""C02 -- every generated scene satisfies all of its requirements.

Spec: spec/Checker.tla (EXTENDS Overlap.tla, the exact lattice oracle): the requirement objects of
a lattice program, their truth on every discrete assignment, the checker's actions (Sort = any
permutation, DropTrailingOptional, Eval, UpdateStats; BasicChecker), invariants AcceptSound,
OnlyOptionalSkipped, RejectSound, OrderIrrelevant, OptionalConsistent, ListMatchesReference,
StatsExact, InOrder.  TLC enumerates program x assignment x active set x order and prints per
(program, assignment, active set) the truth of every requirement, SceneOK and the forced verdict.

Binding: each program is compiled with the real Scenic; Scenario.generate(maxIterations=1) is run
once per RNG branch (scripted random module) under three checkers (the default
WeightedAcceptanceChecker, one with a short buffer, BasicChecker); falsifiedBy of every requirement
instance is wrapped to log Eval(req, result) and the checker's clock is scripted so that the
realised orders vary.  VERDICT: every accepted scene is audited object by object against the
oracle (SceneOK), and no assignment on which everything holds is rejected.  DIAGNOSTIC: the logged
Eval sequence is validated against the spec's truths and the checker's rules."""

import json
import os
import random
import sys
from fractions import Fraction

from common import Check, MachineryError, pmap, run_tlc, scratch, seed
import gen_solids as G
import rng as srng

CFG = """SPECIFICATION CSpec
INVARIANT CTypeOK
INVARIANT AcceptSound
INVARIANT OnlyOptionalSkipped
INVARIANT RejectSound
INVARIANT OrderIrrelevant
INVARIANT OptionalConsistent
INVARIANT ListMatchesReference
INVARIANT StatsExact
INVARIANT InOrder
INVARIANT EmitJudged
CHECK_DEADLOCK TRUE
"""

TRACE_CFG = """SPECIFICATION TSpec
INVARIANT CTypeOK
INVARIANT AcceptSound
INVARIANT OnlyOptionalSkipped
INVARIANT RejectSound
INVARIANT OrderIrrelevant
INVARIANT OptionalConsistent
INVARIANT ListMatchesReference
INVARIANT StatsExact
INVARIANT InOrder
INVARIANT EmitAccepted
CHECK_DEADLOCK FALSE
"""

CI = G.CAT_INDEX
VD = 40  # visibleDistance 10 units (x4)
YAW_ONLY = [1, 2, 3, 4]
# the three static checks of Scenario.validate()
VALIDATE_MESSAGES = ("does not fit in container", "is not visible from ego", "intersects")


# boxes with the same dimensions as a non-convex catalogue shape: the alternatives of a random
# `shape` whose width / length / height are fixed (C02 only; appended so that C04's ids do not move)
for _name, _base, _scale in (("slab", "cube", (2, 2, 1)), ("bar3", "cube", (3, 1, 1)), ("longwall", "cube", (30, 1, 4))):
    if _name not in G.CAT_INDEX:
        G.CAT.append(G._entry(_name, _base, _scale, kind="box"))
        G.CAT_INDEX[_name] = len(G.CAT)

# random.gauss is scripted with these multiples of sigma (none, moderate both ways, large)
GAUSS_Z = (0, 2, -2, 6)


def gauss_values(mu, sigma):
    return [(mu + sigma * z, Fraction(1, len(GAUSS_Z))) for z in GAUSS_Z]


# ----------------------------------------------------------------------------- programs
def _obj(shape, pos, rot=(1,), allow=(0,), occ=0, rv=0, vis=0, nvis=0, cont=0, mut=None):
    """shape: a catalogue name, or a tuple of names with equal dimensions (random `shape`).
    mut: None or dict(style "stmt" | "by" | "with", scale k, psd (sx, sy, sz) in units, osd yaw sigma
    in degrees): Gaussian mutation; sigma * scale * GAUSS_Z must stay on the lattice."""
    names = (shape,) if isinstance(shape, str) else tuple(shape)
    if len({tuple(G.CAT[CI[n] - 1]["dims"]) for n in names}) != 1:
        raise MachineryError("alternatives of a random shape must have equal dimensions")
    noise, ynoise = [[0, 0, 0]], [0]
    if mut:
        k = mut["scale"]
        axes = []
        for sd in mut["psd"]:
            vals = []
            for z in GAUSS_Z:
                v = Fraction(sd) * k * z * G.S
                if v.denominator != 1 or v.numerator % 2:
                    raise MachineryError("mutation noise leaves the lattice")
                if int(v) not in vals:
                    vals.append(int(v))
            axes.append(vals)
        noise = [[x, y, z] for x in axes[0] for y in axes[1] for z in axes[2]]
        for z in GAUSS_Z:
            q = Fraction(mut["osd"]) * k * z / 90
            if q.denominator != 1:
                raise MachineryError("yaw noise leaves the quarter turns")
            if int(q) % 4 not in ynoise:
                ynoise.append(int(q) % 4)
    return {"shapes": [CI[n] for n in names], "pos": [list(p) for p in pos], "rot": list(rot), "allow": list(allow),
            "noise": noise, "ynoise": ynoise, "mut": mut,
            "occ": occ, "rv": rv, "vis": vis, "nvis": nvis, "cont": cont}


def tla_prog(p):
    """The JSON constant of a program (drops what only the Scenic printer needs)."""
    q = {k: v for k, v in p.items() if k != "note"}
    q["objs"] = [{k: v for k, v in o.items() if k != "mut"} for o in p["objs"]]
    return q


def _mesh_cont(shape, pos=(0, 0, 0), rot=1):
    return {"kind": "mesh", "shape": CI[shape], "rot": rot, "pos": list(pos), "poly": 0}


def _poly_cont(pi):
    return {"kind": "poly", "shape": 0, "rot": 0, "pos": [0, 0, 0], "poly": pi}


def _prog(objs, conts=(), ws=0, user=(), note="", vd=VD):
    return {"objs": list(objs), "conts": list(conts), "ws": ws, "user": [dict(u) for u in user], "vd": vd,
            "blanket": 1, "note": note}


def _u(cond, p=(1, 1)):
    return {"c": cond, "p": list(p)}


def _even(x):
    return 2 * int(round(x / 2))


def gen_programs(rng, n):
    """Seeded lattice programs, round-robin over the families (collide, contain, own container,
    triple, visibility, two visibility requirements)."""
    progs = []
    small = ["cube", "bar", "brick", "L", "twin", "barM", "tripod"]

    def near(rng, k, spread=6, z=(0,)):
        out = []
        while len(out) < k:
            p = [_even(rng.randint(-spread, spread)), _even(rng.randint(-spread, spread)), rng.choice(z)]
            if p not in out:
                out.append(p)
        return out

    fam = 0
    while len(progs) < n:
        f = fam % 14
        fam += 1
        if f == 0:  # two objects, collisions, box workspace
            a, b = rng.choice(small), rng.choice(small)
            objs = [_obj(a, near(rng, rng.choice((1, 2)), 4), rot=rng.sample(YAW_ONLY, rng.choice((1, 2))),
                         allow=rng.choice(((0,), (0,), (0, 1)))),
                    _obj(b, near(rng, rng.choice((2, 3, 4)), 6, z=(0, 0, 2)), rot=rng.sample(YAW_ONLY, rng.choice((1, 2))),
                         allow=rng.choice(((0,), (0, 1), (1,))))]
            user = []
            if rng.random() < 0.5:
                user.append(_u(["lt", 1, 1, 2, 1], rng.choice(((1, 1), (1, 2)))))
            progs.append(_prog(objs, [_mesh_cont("room")], 1, user, "collide/box workspace"))
        elif f == 1:  # two objects, polygon workspace (footprint: any height)
            pi = rng.randrange(1, len(G.POLYS) + 1)
            a, b = rng.choice(small), rng.choice(small)
            objs = [_obj(a, near(rng, 2, 8, z=(0, 8)), rot=[rng.choice(YAW_ONLY)]),
                    _obj(b, near(rng, 3, 10, z=(0, 4)), rot=rng.sample(range(1, 25), 1), allow=rng.choice(((0,), (0, 1))))]
            progs.append(_prog(objs, [_poly_cont(pi)], 1, [], "polygon workspace"))
        elif f == 2:  # own regionContainedIn smaller than the workspace
            a, b = rng.choice(small), rng.choice(["cube", "bar", "L"])
            cpos = [_even(rng.randint(-4, 4)), _even(rng.randint(-4, 4)), 0]
            objs = [_obj(a, near(rng, 2, 4), allow=(1,)),
                    _obj(b, [[cpos[0] + _even(rng.randint(-8, 8)), cpos[1] + _even(rng.randint(-8, 8)), 0] for _ in range(4)],
                         rot=rng.sample(YAW_ONLY, 2), allow=(1,), cont=2)]
            objs[1]["pos"] = [list(x) for x in {tuple(p) for p in objs[1]["pos"]}]
            progs.append(_prog(objs, [_mesh_cont("hall"), _mesh_cont(rng.choice(("big", "bigL")), cpos)], 1, [],
                               "own container inside the workspace"))
        elif f == 3:  # three objects: three intersection requirements (BasicChecker keeps the blanket check)
            objs = [_obj(rng.choice(("cube", "bar")), near(rng, 1, 2)),
                    _obj(rng.choice(("cube", "L", "twin")), near(rng, 2, 4), allow=rng.choice(((0,), (0, 1)))),
                    _obj(rng.choice(("cube", "bar", "brick")), near(rng, 3, 4, z=(0, 2)), rot=rng.sample(YAW_ONLY, 2))]
            user = [_u(["or", ["ltc", 3, 1, 2], ["gtc", 2, 2, -2]], (1, 2))] if rng.random() < 0.5 else []
            progs.append(_prog(objs, [_mesh_cont("hall")], 1, user, "three objects"))
        elif f == 4:  # visibility: one demand, wall between / aside, target in front / behind
            kind = rng.choice(("vis", "nvis", "rv"))
            wallpos = [[0, 12, 0]] + ([[40, 12, 0]] if rng.random() < 0.6 else [])
            tpos = [[0, 24, 0], [0, -16, 0]] + ([[_even(rng.randint(-2, 2)), 28, 0]] if rng.random() < 0.5 else [])
            objs = [_obj("cube", [[0, 0, 0]]),
                    _obj("wall", wallpos, occ=rng.choice((1, 1, 0))),
                    _obj("cube", tpos, vis=1 if kind == "vis" else 0, nvis=1 if kind == "nvis" else 0,
                         rv=1 if kind == "rv" else 0)]
            progs.append(_prog(objs, [_mesh_cont("hall")], 1, [], f"visibility ({kind})"))
        elif f == 5:  # two visibility requirements (the second one is where the occluder list matters)
            k2 = rng.choice(("vis", "nvis"))
            k1 = rng.choice(("vis", "nvis"))
            t1pos = [[0, 6, 0]] if k1 == "vis" else [[0, -16, 0]]
            objs = [_obj("cube", [[0, 0, 0]]),
                    _obj("wall", [[0, 12, 0]], occ=1),
                    _obj("cube", t1pos + ([[0, 24, 4]] if rng.random() < 0.3 else []), vis=1 if k1 == "vis" else 0, nvis=1 if k1 == "nvis" else 0),
                    _obj("cube", [[0, 24, 0], [0, -12, 0]], vis=1 if k2 == "vis" else 0, nvis=1 if k2 == "nvis" else 0)]
            progs.append(_prog(objs, [_mesh_cont("hall")], 1, [], f"two visibility requirements ({k1}, {k2})"))
        elif f == 6:  # soft and hard user requirements over two objects, no workspace
            objs = [_obj("cube", near(rng, 2, 4)), _obj(rng.choice(("bar", "L")), near(rng, 3, 4), allow=(0, 1))]
            user = [_u(["lt", 1, 1, 2, 1], (1, 2)), _u(["not", ["ltc", 2, 2, 0]], (1, 1))]
            progs.append(_prog(objs, [], 0, user, "user requirements"))
        elif f == 8:  # FIXED pose and size next to the workspace boundary / to each other, then mutated
            sh = rng.choice(("cube", "bar", "L", "brick"))
            ax = rng.choice((0, 1))
            psd = [0, 0, 0]
            style = rng.choice(("stmt", "by"))
            scale = 1 if style == "stmt" else 2
            psd[ax] = Fraction(1, 2) / scale if rng.random() < 0.7 else Fraction(1, 4) / scale
            pos = [0, 0, 0]
            pos[ax] = rng.choice((6, 8, -8))       # 1.5 / 2 units from the centre of the 6 x 6 room
            pos[1 - ax] = _even(rng.randint(-4, 4))
            wsn, conts = rng.choice((("room", None), ("roomL", None), (None, rng.randrange(1, len(G.POLYS) + 1))))
            cont = [_mesh_cont(wsn)] if wsn else [_poly_cont(conts)]
            objs = [_obj("cube", [[0, 0, 0]], allow=rng.choice(((0,), (1,)))),
                    _obj(sh, [pos], rot=[rng.choice(YAW_ONLY)], allow=(0,),
                         mut=dict(style=style, scale=scale, psd=psd, osd=rng.choice((0, 45))))]
            progs.append(_prog(objs, cont, 1, [], f"fixed pose + mutate ({style})"))
        elif f == 9:  # random SHAPE with fixed dimensions and a fixed (rotated) pose near the boundary
            alts = rng.choice((("L", "slab"), ("twin", "bar3"), ("tripod", "cube2"), ("slab", "L")))
            rot = rng.randrange(1, 25)
            half = [d * G.S / 2 for d in G.CAT[CI[alts[0]] - 1]["dims"]]
            m = G.ROTS[rot - 1][0]
            span = [sum(abs(m[i][j]) * half[j] for j in range(3)) for i in range(3)]
            wsn = rng.choice(("room", "roomL"))
            # flush with a wall, one half unit inside, or one half unit through it
            pos = [_even(12 - span[0] + rng.choice((-2, 0, 2))), _even(rng.choice((-6, 0)) ), 0]
            if rng.random() < 0.5:
                pos = [_even(rng.choice((-6, -4))), _even(-12 + span[1] + rng.choice((-2, 0, 2))), 0]
            mut = dict(style="with", scale=1, psd=[Fraction(1, 2), 0, 0], osd=0) if rng.random() < 0.4 else None
            objs = [_obj("cube", [[-8, 8, 0]], allow=(1,)),
                    _obj(alts, [pos], rot=[rot], allow=(1,), mut=mut)]
            progs.append(_prog(objs, [_mesh_cont(wsn)], 1, [], "random shape, fixed dimensions and pose"
                               + (" + with mutationScale" if mut else "")))
        elif f == 10:  # everything fixed, own regionContainedIn differing from the workspace (+ mutate)
            cpos = [_even(rng.randint(-8, 8)), _even(rng.randint(-8, 8)), 0]
            csh = rng.choice(("big", "bigL"))
            off = [_even(rng.choice((-4, -2, 0, 2))), _even(rng.choice((-4, -2))), 0]   # inside both big and bigL
            mut = rng.choice((None, dict(style="stmt", scale=1, psd=[Fraction(1, 2), 0, 0], osd=0),
                              dict(style="by", scale=2, psd=[0, Fraction(1, 4), 0], osd=0)))
            objs = [_obj("cube", [[20, 20, 0]], allow=(1,)),
                    _obj(rng.choice(("cube", "bar")), [[cpos[0] + off[0], cpos[1] + off[1], 0]], rot=[rng.choice(YAW_ONLY)],
                         allow=(1,), cont=2, mut=mut)]
            progs.append(_prog(objs, [_mesh_cont("hall"), _mesh_cont(csh, cpos)], 1, [],
                               "fixed pose, own regionContainedIn" + (" + mutate" if mut else "")))
        elif f == 11:  # NON-convex obstacle (no allowCollisions) and a small convex object, some of whose
            # positions lie wholly inside the obstacle's material without touching its surface
            obst = rng.choice(("bigL", "roomL"))
            rot = rng.choice(YAW_ONLY + [rng.randrange(5, 25)])
            m = G.ROTS[rot - 1][0]
            opos = [_even(rng.randint(-6, 6)), _even(rng.randint(-6, 6)), 0]
            if obst == "bigL":
                inside = [(-4, -4, 0), (4, -4, 0), (-4, 4, 0), (0, -4, 0)]
                outside = [(4, 4, 0), (20, 0, 0), (6, 2, 0)]
            else:
                inside = [(-6, -6, 0), (6, -6, 0), (-6, 6, 0), (0, -6, 0), (-6, -6, 4), (8, -8, -4)]
                outside = [(6, 6, 0), (22, 0, 0), (4, 2, 0)]
            loc = rng.sample(inside, 3) + rng.sample(outside, 2)
            pos = [[opos[i] + sum(m[i][j] * v[j] for j in range(3)) for i in range(3)] for v in loc]
            objs = [_obj(obst, [opos], rot=[rot]),
                    _obj(rng.choice(("cube", "cube", "bar")), pos, rot=[rng.choice(YAW_ONLY)])]
            progs.append(_prog(objs, [_mesh_cont("hall")], 1, [], "small object inside a non-convex obstacle"))
        elif f == 12:  # LARGE occluder: a long wall whose centre is out of range / out of the view cone
            kind = rng.choice(("rv", "vis"))
            vd = rng.choice((40, 48))
            side = rng.choice((1, -1))
            wallpos = [[side * 56, 12, 0]] + ([[0, 12, 0]] if rng.random() < 0.4 else [])
            tpos = [[0, 24, 0]] + rng.sample([[0, -16, 0], [side * 2, 28, 0], [0, 6, 0]], 1)
            objs = [_obj("cube", [[0, 0, 0]]),
                    _obj("longwall", wallpos, occ=1),
                    _obj("cube", tpos, vis=1 if kind == "vis" else 0, rv=1 if kind == "rv" else 0)]
            progs.append(_prog(objs, [], 0, [], f"long occluding wall, centre out of range ({kind})", vd=vd))
        elif f == 13:  # TALL thin objects stacked with a vertical offset: they overlap (or not) although their centres
            # are farther apart than the sum of their planar radii
            sh = "brick"
            h = int(G.CAT[CI[sh] - 1]["dims"][2] * G.S)
            dz = [_even(h - 2), _even(h + 2), -_even(h - 4)]          # overlapping by 1/2, clear by 1/2, overlapping by 1
            pos = [[0, 0, z] for z in rng.sample(dz, 2)] + [[_even(rng.choice((2, 8))), 0, dz[0]]]
            objs = [_obj(sh, [[0, 0, 0]], rot=[rng.choice(YAW_ONLY)]),
                    _obj(sh, pos, rot=[rng.choice(YAW_ONLY)])]
            progs.append(_prog(objs, [], 0, [], "tall thin objects with a vertical offset"))
        else:  # non-planar poses in an L-shaped room
            a, b = rng.choice(small), rng.choice(small)
            objs = [_obj(a, near(rng, 2, 6), rot=[rng.randrange(5, 25)]),
                    _obj(b, near(rng, 3, 6, z=(0, 2)), rot=[rng.randrange(1, 25)], allow=rng.choice(((0,), (0, 1))))]
            progs.append(_prog(objs, [_mesh_cont("roomL")], 1, [], "L-shaped workspace, 3-D poses"))
    return progs[:n]


# ----------------------------------------------------------------------------- printer: Scenic text
def _vec(p):
    return "(" + ", ".join(repr(v / G.S) for v in p) + ")"


def _opts(texts):
    return texts[0] if len(texts) == 1 else "Uniform(" + ", ".join(texts) + ")"


def _cond_text(t):
    ax = {1: "x", 2: "y", 3: "z"}
    if t[0] == "lt":
        return f"o{t[1]}.position.{ax[t[2]]} < o{t[3]}.position.{ax[t[4]]}"
    if t[0] == "ltc":
        return f"o{t[1]}.position.{ax[t[2]]} < {t[3] / G.S!r}"
    if t[0] == "gtc":
        return f"o{t[1]}.position.{ax[t[2]]} > {t[3] / G.S!r}"
    if t[0] in ("and", "or"):
        return f"(({_cond_text(t[1])}) {t[0]} ({_cond_text(t[2])}))"
    if t[0] == "not":
        return f"(not ({_cond_text(t[1])}))"
    raise ValueError(t)


def to_scenic(prog):
    L = ["from gen_solids import scenic_shape, make_region, make_polygon"]
    for ci, c in enumerate(prog["conts"], 1):
        if c["kind"] == "mesh":
            L.append(f"c{ci} = make_region({c['shape']}, {c['rot']}, {tuple(c['pos'])})")
        else:
            L.append(f"c{ci} = PolygonalRegion(polygon=make_polygon({c['poly']}))")
    if prog["ws"]:
        L.append(f"workspace = Workspace(c{prog['ws']})")
    for oi, o in enumerate(prog["objs"], 1):
        e = G.CAT[o["shapes"][0] - 1]
        eul = [G.ROTS[r - 1][1] for r in o["rot"]]
        if len({(p, r) for _y, p, r in eul}) != 1:
            raise MachineryError("rotation options of one object must share pitch and roll")
        specs = [
            f"at {_opts([_vec(p) for p in o['pos']])}",
            f"with shape {_opts([f'scenic_shape({G.CAT[si - 1]['name']!r})' for si in o['shapes']])}",
            f"with width {e['dims'][0]!r}", f"with length {e['dims'][1]!r}", f"with height {e['dims'][2]!r}",
            f"with yaw {_opts([f'{90 * y} deg' for y, _p, _r in eul])}",
            f"with pitch {90 * eul[0][1]} deg", f"with roll {90 * eul[0][2]} deg",
            f"with allowCollisions {_opts([str(bool(a)) for a in o['allow']])}",
            f"with occluding {bool(o['occ'])}", f"with requireVisible {bool(o['rv'])}",
            "with viewAngles (90 deg, 90 deg)", f"with visibleDistance {prog['vd'] / G.S!r}",
        ]
        if o["vis"]:
            specs.append(f"visible from o{o['vis']}")
        if o["nvis"]:
            specs.append(f"not visible from o{o['nvis']}")
        if o["cont"]:
            specs.append(f"with regionContainedIn c{o['cont']}")
        m = o.get("mut")
        if m:
            specs.append(f"with positionStdDev ({', '.join(repr(float(Fraction(x))) for x in m['psd'])})")
            specs.append(f"with orientationStdDev ({m['osd']} deg, 0, 0)")
            if m["style"] == "with":
                specs.append(f"with mutationScale {m['scale']}")
        L.append(f"o{oi} = new Object " + ", ".join(specs))
        if oi == 1:
            L.append("ego = o1")
        if m and m["style"] == "stmt":
            L.append(f"mutate o{oi}")
        elif m and m["style"] == "by":
            L.append(f"mutate o{oi} by {m['scale']}")
    for u in prog["user"]:
        p = Fraction(u["p"][0], u["p"][1])
        L.append(f"require{'' if p == 1 else '[' + repr(float(p)) + ']'} {_cond_text(u['c'])}")
    return "\n".join(L) + "\n"


# ----------------------------------------------------------------------------- real runs
class ScriptedClock:
    """Stands in for the `time` module inside scenic.core.sample_checking."""

    def __init__(self):
        self.now = 0.0

    def perf_counter(self):
        return self.now


def _req_key(req, scenario):
    from scenic.core import requirements as R

    idx = {id(o): i + 1 for i, o in enumerate(scenario.objects)}
    if isinstance(req, R.BlanketCollisionRequirement):
        return ["B", 0, 0]
    if isinstance(req, R.IntersectionRequirement):
        return ["I", idx[id(req.objA)], idx[id(req.objB)]]
    if isinstance(req, R.ContainmentRequirement):
        return ["C", idx[id(req.obj)], 0]
    if isinstance(req, R.NonVisibilityRequirement):
        return ["N", idx[id(req.source)], idx[id(req.target)]]
    if isinstance(req, R.VisibilityRequirement):
        return ["V", idx[id(req.source)], idx[id(req.target)]]
    if isinstance(req, R.CompiledRequirement):
        return ["U", scenario.userRequirements.index(req) + 1, 0]
    return ["?", 0, 0]


def run_program(item):
    """Worker: compile one program with the real Scenic and run every RNG branch under the three
    checkers.  Returns the list of runs: assignment, active set, verdict, Eval log, realised order."""
    k, prog, text = item
    import numpy
    import scenic
    import scenic.core.sample_checking as scm
    from scenic.core.distributions import RejectionException
    from scenic.core.errors import InvalidScenarioError

    numpy.random.seed(1000 + k)
    try:
        scenario = scenic.scenarioFromString(text, mode2D=False)
    except InvalidScenarioError as e:
        return {"k": k, "invalid": str(e)}
    except Exception as e:
        import traceback

        return {"k": k, "error": f"compile: {type(e).__name__}: {e}", "tb": traceback.format_exc()[-1500:]}
    objs = scenario.objects
    rotmats = {m: i + 1 for i, (m, _a) in enumerate(G.ROTS)}
    thresholds = sorted({Fraction(u["p"][0], u["p"][1]) for u in prog["user"]} - {Fraction(1)})
    clock = ScriptedClock()
    saved_time = scm.time
    scm.time = clock
    crng = random.Random(77 + k)
    runs = []
    state = {}

    def read_scene(sampled):
        """Final geometry of the sampled objects: position (x4), rotation id, allowCollisions, shape id."""
        a = []
        for oi, so in enumerate(sampled):
            pos = [int(round(v * G.S)) for v in so.position]
            if any(abs(v * G.S - q) > 1e-6 for v, q in zip(so.position, pos)):
                pos = [float(v) for v in so.position]  # off the lattice: will not map to any assignment
            m = tuple(map(tuple, numpy.round(so.orientation.r.as_matrix()).astype(int).tolist()))
            sh = [si for si in prog["objs"][oi]["shapes"] if so.shape is G.real_shape(G.CAT[si - 1])]
            a.append([pos, rotmats.get(m, 0), 1 if so.allowCollisions else 0, sh[0] if sh else 0])
        return a

    def install(checker):
        keys = [_req_key(r, scenario) for r in checker.requirements]
        for j, req in enumerate(checker.requirements):
            if getattr(req, "_verif_wrapped", False):
                req.falsifiedBy = req._verif_orig
            orig = req.falsifiedBy

            def wrapped(sample, _o=orig, _j=j):
                clock.now += state["cost"][_j]
                res = _o(sample)
                state["log"].append([keys[_j], bool(res)])
                return res

            req._verif_orig = orig
            req._verif_wrapped = True
            req.falsifiedBy = wrapped
        orig_check = type(checker).checkRequirements

        def check(sample, _c=checker):
            state["asg"] = read_scene([sample[o] for o in objs])
            state["act"] = [j + 1 for j, r in enumerate(scenario.userRequirements) if r.active]
            return orig_check(_c, sample)

        checker.checkRequirements = check
        return keys

    def one(_s):
        state["log"] = []
        state["asg"] = None
        n = len(scenario.checker.requirements)
        state["cost"] = [crng.choice((0.001, 0.01, 0.1, 1.0, 10.0)) for _ in range(n)]
        try:
            scene, _its = scenario.generate(maxIterations=1, verbosity=0)
            v = "accept"
            # the audit of an accepted scene uses the objects of the returned Scene itself
            state["asg"] = read_scene(scene.objects)
        except RejectionException:
            v = "reject"
        return (v, state["asg"], state["act"], state["log"])

    try:
        from scenic.core.sample_checking import BasicChecker, WeightedAcceptanceChecker

        passes = [("weighted", None), ("weighted", WeightedAcceptanceChecker(bufferSize=2)),
                  ("weighted", None), ("basic", BasicChecker(initialCollisionCheck=True))]
        default_checker = scenario.checker
        for pi, (mode, chk) in enumerate(passes):
            if chk is not None:
                scenario.setSampleChecker(chk)
            else:
                scenario.checker = default_checker
            install(scenario.checker)
            for outcome, _w, _log in srng.explore(one, thresholds=thresholds, gauss_values=gauss_values):
                v, a, act, log = outcome
                runs.append({"mode": mode, "pass": pi, "verdict": v, "asg": a, "act": act, "log": [list(x) for x in log]})
    except Exception as e:
        import traceback

        return {"k": k, "error": f"run: {type(e).__name__}: {e}", "tb": traceback.format_exc()[-1500:]}
    finally:
        scm.time = saved_time
    return {"k": k, "runs": runs, "nreq": len(default_checker.requirements)}


# ----------------------------------------------------------------------------- audit
_ROTID = {m: i + 1 for i, (m, _a) in enumerate(G.ROTS)}


def final_table(o):
    """Final geometry (position, rotation id, allowCollisions, shape id) -> option indices
    (1-based, as asg[o] in Checker.tla) for one object: pose after mutation, sampled shape."""
    tab = {}
    for ip, pos in enumerate(o["pos"]):
        for ir, rot in enumerate(o["rot"]):
            for ia, al in enumerate(o["allow"]):
                for inz, nz in enumerate(o["noise"]):
                    for iy, yq in enumerate(o["ynoise"]):
                        for ish, sh in enumerate(o["shapes"]):
                            fpos = tuple(p + d for p, d in zip(pos, nz))
                            frot = _ROTID[G._mm(G._mpow(G._RZ, yq), G.ROTS[rot - 1][0])]
                            tab.setdefault((fpos, frot, al, sh), (ip + 1, ir + 1, ia + 1, inz + 1, iy + 1, ish + 1))
    return tab


def asg_index(prog, real_asg):
    """Map the sampled FINAL scene (read from the sample handed to the checker) back to option
    indices: any assignment with the same final geometry (they all have the same truths)."""
    out = []
    for o, (pos, rot, allow, shape) in zip(prog["objs"], real_asg):
        t = final_table(o).get((tuple(pos), rot, allow, shape))
        if t is None:
            return None
        out.append(t)
    return tuple(out)


def model_key(key, spec_keys):
    """Index (0-based) of a real requirement in the spec's list.  Contain: the spec's key carries
    the container; requireVisible is a Visibility requirement from the ego that is not a specifier's."""
    k, a, b = key
    cands = []
    for j, sk in enumerate(spec_keys):
        if k == "C" and sk[0] == "C" and sk[1] == a:
            cands.append(j)
        elif k == "V" and sk[0] in ("V", "R") and sk[1] == a and sk[2] == b:
            cands.append(j)
        elif k not in ("C", "V") and sk[0] == k and sk[1] == a and sk[2] == b:
            cands.append(j)
    return cands


def index_log(run, so):
    """The Eval log with spec requirement indices (1-based), or None when a key does not map."""
    seen, out = [], []
    for key, res in run["log"]:
        cands = [j for j in model_key(key, so["keys"]) if j not in seen]
        if not cands:
            return None
        seen.append(cands[0])
        out.append([cands[0] + 1, 1 if res else 0])
    return out


def tlc_validate(ck, progs, base, traces):
    """Trace validation by TLC (CheckerTrace.tla): returns the set of accepted trace ids."""
    accepted = set()
    by_chunk = {}
    for tid, t in enumerate(traces):
        by_chunk.setdefault(t["k"] // 40, []).append((tid, t))
    for c, lst in sorted(by_chunk.items()):
        chunk = progs[c * 40 : c * 40 + 40]
        path = os.path.join(scratch(), f"c02_tr{c}.json")
        with open(path, "w") as f:
            json.dump(dict(base, cases=[], universe=[],
                           programs=[tla_prog(p) for p in chunk],
                           traces=[{"pid": t["k"] - c * 40 + 1, "asg": [list(x) for x in t["asg"]], "act": list(t["act"]),
                                    "mode": t["mode"], "log": t["log"], "verdict": t["verdict"]} for _tid, t in lst]), f)
        res = run_tlc("CheckerTrace", TRACE_CFG, env={"OV_DATA": path, "OV_MODE": "none"}, timeout=2400)
        ck.add_tlc("CheckerTrace", res)
        for o in res.outputs:
            accepted.add(lst[o["accepted"] - 1][0])
    return accepted


def validate_trace(run, so):
    """Diagnostic: is the logged Eval sequence a run of Checker's actions on this assignment?
    Returns None when accepted, else a description of the first mismatch."""
    keys, tr, opt = so["keys"], so["tr"], so["opt"]
    active = {j - 1 for j in so["active"]}
    seen = []
    for n, (key, res) in enumerate(run["log"]):
        cands = [j for j in model_key(key, keys) if j not in seen]
        if not cands:
            return f"event {n}: requirement {key} is not (or no longer) in the spec's list"
        j = cands[0]
        if j not in active:
            return f"event {n}: inactive requirement {key} evaluated"
        seen.append(j)
        if tr[j] != "free" and res != (tr[j] == "F"):
            return f"event {n}: Eval({key}) = {res} but the oracle says {'falsified' if tr[j] == 'F' else 'holds'}"
        if res and n != len(run["log"]) - 1:
            return f"event {n}: evaluation continued after a falsified requirement"
    last_false = bool(run["log"]) and run["log"][-1][1]
    if (run["verdict"] == "reject") != last_false:
        return f"verdict {run['verdict']} does not follow from the last evaluation"
    if run["mode"] == "basic":
        want = [j - 1 for j in so["basic"]]
        if seen != want[: len(seen)]:
            return f"BasicChecker order {seen} is not a prefix of {want}"
        if run["verdict"] == "accept" and len(seen) != len(want):
            return "BasicChecker accepted without evaluating all of its requirements"
    else:
        # Sort + DropTrailingOptional: the logged sequence followed by the other active requirements,
        # trailing optional ones removed, must still contain every logged evaluation
        full = seen + sorted(j for j in active if j not in seen)
        while full and opt[full[-1]]:
            full.pop()
        if len(full) < len(seen):
            return f"optional requirement {keys[seen[-1]]} evaluated in trailing position (it is dropped by the sort)"
        if run["verdict"] == "accept":
            skipped = [j for j in active if j not in seen and not opt[j]]
            if skipped:
                return f"accepted with non-optional requirements never evaluated: {[keys[j] for j in skipped]}"
    return None


def main(tier):
    ck = Check("C02", tier, "model_checking")
    sd = seed()
    ck.cov["rule"] = (
        "a case is one run of Scenario.generate(maxIterations=1) on one RNG branch (= one discrete assignment "
        "and one set of enforced soft requirements) of one generated lattice program under one checker; "
        "non-trivial = the oracle forces the verdict (no touching / not clear-cut requirement among the active "
        "ones); distinct by (program, assignment, active set, checker pass, realised evaluation order)"
    )
    ck.assumptions += [
        "lattice programs only: 2-4 box / box-union objects with positions, yaw and allowCollisions drawn from "
        "small discrete distributions, workspace = lattice box region / rectilinear polygon / none, optional "
        "own regionContainedIn, user requirements comparing coordinates; 3-D mode only",
        "visibility demands are decided only in clear-cut configurations (unrotated viewer, view angles "
        "(90, 90) deg: target wholly inside the view pyramid and unoccluded / wholly shadowed by one occluder "
        "box / wholly behind or out of range); everything else is a don't-care",
        "touching solids and objects flush with their container are don't-cares",
        "the requirement order is any permutation in the spec (full for <= 5 active requirements, rotations of "
        "the list and of its reverse beyond); the real orders are steered with a scripted clock",
        "gen_solids / to_scenic (JSON constant <-> Scenic text) is trusted glue",
    ]
    nprog = 39 if tier == "quick" else 390
    if os.environ.get("VERIF_C02_PROGRAMS"):  # debugging knob (mutant runs)
        nprog = int(os.environ["VERIF_C02_PROGRAMS"])
    rng = random.Random(sd * 7907 + 2)
    progs = gen_programs(rng, nprog)
    texts = [to_scenic(p) for p in progs]
    ck.cov["programs"] = len(progs)

    # ---- TLC: invariants over program x assignment x active set x order; truths per assignment
    spec = {}
    base = G.base_data()
    for b0 in range(0, len(progs), 40):
        chunk = progs[b0 : b0 + 40]
        path = os.path.join(scratch(), f"c02_{b0}.json")
        with open(path, "w") as f:
            json.dump(dict(base, cases=[], universe=[], programs=[tla_prog(p) for p in chunk]), f)
        res = run_tlc("Checker", CFG, env={"OV_DATA": path, "OV_MODE": "none"}, coverage=(b0 == 0), timeout=2400)
        ck.add_tlc("Checker", res)
        if b0 == 0:
            need = ["AJudge", "ASort", "ASortBasic", "AEval", "AUpdateStats"]
            missing = [a for a in need if res.coverage.get(a, (0, 0))[1] == 0]
            if missing:
                raise MachineryError(f"Checker actions never taken (vacuous model): {missing}")
        for o in res.outputs:
            key = (b0 + o["pid"] - 1, tuple(tuple(t) for t in o["asg"]), tuple(o["act"]))
            spec[key] = o

    # ---- real code
    results = pmap(run_program, [(k, p, t) for k, (p, t) in enumerate(zip(progs, texts))], procs=6, chunk=1)

    orders_seen = {}
    diag = []
    ndiag = 0
    traces = {}  # distinct traces -> [harness verdict on the trace, multiplicity]
    for k, (prog, text, rr) in enumerate(zip(progs, texts, results)):
        mine = {key: so for key, so in spec.items() if key[0] == k}
        if not mine:
            raise MachineryError(f"no TLC output for program {k}")
        if "error" in rr:
            # Checker.tla ValidateCrashTrigger: static-bounds object with another random property
            so0 = next(iter(mine.values()))
            known = None
            if (so0["vcrash"] and rr["error"].startswith("compile: RandomControlFlowError")
                    and "in validate" in rr.get("tb", "")):
                known = "validate-random-property-crash"
            ck.case(("compile-error", text), True)
            ck.violation(f"real code failed on a well-formed lattice program: {rr['error']}",
                         {"property": "C02", "program": text, "prog": prog, "error": rr}, known_key=known)
            continue
        if "invalid" in rr and not any(m in rr["invalid"] for m in VALIDATE_MESSAGES):
            # some other static restriction of the language: the program is outside the fragment
            ck.cov["dropped_by_generator"] += 1
            continue
        if "invalid" in rr:
            # validate() refused the program at compile time: legitimate only if no assignment is valid
            valid = [key for key, so in mine.items() if so["ok"] == "T"]
            ck.case(("invalid", text), bool(valid))
            if valid:
                ck.violation(
                    f"compile-time validation rejected a program that has valid scenes ({rr['invalid']})",
                    {"property": "C02", "program": text, "prog": prog, "valid_assignment": list(valid[0][1]), "message": rr["invalid"]})
            else:
                ck.cov["dropped_by_generator"] += 1
            continue
        for run in rr["runs"]:
            ai = asg_index(prog, run["asg"]) if run["asg"] else None
            if ai is None:
                raise MachineryError(f"program {k}: sampled values {run['asg']} are not among the program's options\n{text}")
            so = mine.get((k, ai, tuple(run["act"])))
            if so is None:
                raise MachineryError(f"program {k}: no spec output for assignment {ai} act {run['act']}")
            order = tuple(tuple(e[0]) for e in run["log"])
            orders_seen.setdefault((k, run["mode"]), set()).add(order)
            ck.case((k, ai, tuple(run["act"]), run["pass"], order), so["must"] != "free")
            rep = {"property": "C02", "program": text, "prog": prog, "assignment": list(ai), "active_user": run["act"],
                   "checker": run["mode"], "pass": run["pass"], "verdict": run["verdict"], "eval_log": run["log"],
                   "spec": {kk: so[kk] for kk in ("keys", "tr", "asimpl", "trig", "ok", "must", "active")}}
            # known finding: the observation is explained by the as-implemented occluder lists
            act_idx = [j - 1 for j in so["active"]]
            mand = [j for j in act_idx if not so["opt"][j]]
            asimpl_ok = all(so["asimpl"][j] in ("T", "free") for j in mand)
            deviates = [j for j in mand if so["asimpl"][j] != so["tr"][j]]
            known = "occluder-iterator-consumed" if deviates and all(so["trig"][j] for j in deviates) else None
            bad = False
            if run["verdict"] == "accept" and so["ok"] == "F":
                bad = True
                wrong = [so["keys"][j] for j in mand if so["tr"][j] == "F"]
                ck.violation(f"accepted scene violates its requirements {wrong} (checker {run['mode']}, evaluated {list(order)})",
                             rep, known_key=known if asimpl_ok else None)
            elif run["verdict"] == "reject" and so["ok"] == "T":
                bad = True
                lastkey = run["log"][-1][0] if run["log"] else None
                explained = known and lastkey and any(so["trig"][j] and so["asimpl"][j] in ("F", "free")
                                                      for j in model_key(lastkey, so["keys"]))
                ck.violation(f"a scene on which every requirement holds was rejected (falsified: {lastkey}, checker {run['mode']})",
                             rep, known_key=known if explained else None)
            d = validate_trace(run, so)
            il = index_log(run, so)
            if il is not None:
                tkey = (k, ai, tuple(run["act"]), run["mode"], tuple(map(tuple, il)), run["verdict"])
                traces.setdefault(tkey, [d is None, 0])[1] += 1
            if d is None and not bad:
                ck.validated(1)
            elif d is not None:
                ndiag += 1
                if len(diag) < 10:
                    diag.append({"program": k, "assignment": list(ai), "checker": run["mode"], "mismatch": d,
                                 "eval_log": run["log"], "known_deviation": bool(known)})
            ck.sample({"program": text, "assignment": list(ai), "active_user": run["act"], "checker": run["mode"],
                       "eval_log": run["log"], "verdict": run["verdict"], "oracle": {"truths": so["tr"], "sceneOK": so["ok"]}}, limit=4)
    # ---- the same diagnostic, decided by TLC: CheckerTrace.tla replays every distinct logged trace
    tlist = [{"k": t[0], "asg": t[1], "act": t[2], "mode": t[3], "log": [list(x) for x in t[4]], "verdict": t[5]} for t in traces]
    accepted = tlc_validate(ck, progs, base, tlist)
    disagree = [t for n, t in enumerate(traces) if (n in accepted) != traces[t][0]]
    ck.cov["trace_validators_disagree"] = len(disagree)
    if disagree and not ck.violations:
        raise MachineryError(f"CheckerTrace.tla and the harness disagree on {len(disagree)} traces, e.g. {disagree[0]}")
    ck.cov["distinct_traces"] = len(tlist)
    ck.cov["distinct_traces_accepted_by_CheckerTrace"] = len(accepted)
    ck.cov["distinct_orders_realised"] = {f"{k}/{m}": len(v) for (k, m), v in sorted(orders_seen.items())}
    ck.cov["programs_with_several_orders"] = sum(1 for v in orders_seen.values() if len(v) > 1)
    ck.cov["diagnostic_trace_mismatches"] = ndiag
    ck.cov["diagnostic_samples"] = diag
    ck.cov["exhaustive"] = False
    ck.cov["explanation"] = (
        "per program TLC is exhaustive over assignments x active sets x orders (full permutations up to 5 active "
        "requirements); every RNG branch of the real generate is run under 4 checker passes; programs are a seeded sample"
    )
    return ck.finish()


if __name__ == "__main__":
    sys.exit(main(sys.argv[1] if len(sys.argv) > 1 else "quick"))
