"""C03 -- positions drawn in/on a region lie in it and are uniformly distributed.

Spec: spec/RegionSampling.tla (over spec/RegionGeom.tla and spec/lib/Rat.tla).
 (a) discrete regions exactly: the scripted-RNG driver (rng.explore) runs the real
     uniformPointInner of point sets / grids / point-set intersections once per RNG branch; the exact
     law must be uniform on the composed set TLC computes from lattice membership;
 (b) the generic union / intersection / difference samplers: TLC checks on an abstract universe
     (all pairs of subsets of 5 atoms with integer measures) that the machines return, conditional
     on returning, proportionally to measure on the composed set; the SAME actions then validate
     traces logged from the real genericSamplers on lattice regions (random.choices weights,
     operand draws, the multiplicity coin, the returned point); with discrete operands the exact
     law of the real sampler is also compared with the composed set;
 (c) primitive and specialised samplers: seeded samples snapped to the lattice and classified by
     TLC with all three coordinates; the triangulation behind polygon sampling is checked to tile."""

import itertools
import json
import os
import random as _random
import sys
import time
from fractions import Fraction

from common import Check, MachineryError, pmap, run_tlc, scratch, seed
import gen_regions as G
import rng as srng

S = G.S

CFG = """SPECIFICATION Spec
INVARIANT TypeOK
INVARIANT ReturnInSet
INVARIANT RejectSound
INVARIANT ChainRule
INVARIANT Proportional
INVARIANT OperationalBelowDenot
INVARIANT DiscUniform
INVARIANT DiscEmpty
INVARIANT SeqIndependent
INVARIANT TriLawSound
INVARIANT Emit
CHECK_DEADLOCK FALSE
"""


def catalogue():
    cat = G.catalogue()
    cat += [
        G.sph("B1", 0, 0, 1, 2),
        G.surf("U1", (-1, 1, -2, 2, 0, 2)),
        G.grid("G1", [[0, 1, 0, 0], [0, 0, 1, 0], [1, 0, 0, 0]], 1, 1, -1.75, -0.75),
        G.pset("Q4", (0.25, 0.25, 0), (1.25, 1.25, 0), (-0.75, 2.25, 0), (2.25, 0.25, 0), (-1.75, -1.75, 0), (0.25, -2.75, 0)),
        *G.more_multipolygons(),
        # alternatives of a RANDOM second operand with a fixed circumcircle (same centre / radius)
        G.sect("SB", 0, 0, 0, 4, 4, 1),      # S1 turned by 180 degrees
        G.sect("SC", 0, 0, 0, 4, 0, 2),      # S1 widened to 180 degrees
        G.rect("RA", 0, 0, 0, 5, 1, 0),
        G.rect("RB", 0, 0, 0, 5, 1, 1),      # RA turned by 90 degrees
        G.pset("Q5", (0.25, 0.25, 2), (1.25, 1.25, 2), (-0.75, 2.25, 2), (2.25, 0.25, 2), (-1.75, -1.75, 2), (0.25, -2.75, 2)),
    ]
    return cat


def idx(cat):
    return {d["name"]: i for i, d in enumerate(cat)}


# ------------------------------------------------------------------ (a) discrete regions

DISC_SECOND = ["", "V1", "V2", "C1", "C2", "C3", "S1", "S2", "S3", "S4", "R1", "R2", "R3", "P1", "P2", "F1", "L1", "T1",
               "Q2", "B1", "everywhere", "nowhere"]
DISC_SETS = ["Q1", "Q2", "Q3", "Q4", "Q5", "G1"]


def disc_cases(cat, tier):
    ix = idx(cat)
    cases = []
    for ps in DISC_SETS:
        for b in DISC_SECOND:
            for rev in (False, True) if b else (False,):
                cases.append({"op": "inter", "ps": ix[ps], "b": ix[b] if b else -1, "rev": rev})
    # generic union / difference with discrete operands: the exact law, conditional on returning,
    # must be uniform on the composed set (this is where a wrong operand weight or a missing
    # multiplicity correction shows at verdict level)
    for a, b in (("Q1", "Q2"), ("Q2", "Q1"), ("Q4", "Q2"), ("Q2", "G1"), ("Q1", "Q3"), ("Q4", "Q4"), ("G1", "Q4")):
        cases.append({"op": "union", "ps": ix[a], "b": ix[b], "rev": False})
    for a, b in (("Q1", "Q2"), ("Q4", "Q2"), ("Q1", "V1"), ("Q4", "C1"), ("Q5", "P2"), ("Q3", "V2"), ("G1", "R1"), ("Q4", "S1"), ("Q2", "Q2")):
        cases.append({"op": "diff", "ps": ix[a], "b": ix[b], "rev": False})
    return cases


def _snapt(p):
    return tuple(G.snap_point((float(p[0]), float(p[1]), float(p[2]))))


def run_disc(item):
    case, cat = item
    from scenic.core.distributions import RejectionException

    try:
        ps = G.build(cat[case["ps"]])
        if case["b"] < 0:
            reg = ps
        else:
            B = G.build(cat[case["b"]])
            if case["op"] == "union":
                reg = ps.union(B)
            elif case["op"] == "diff":
                reg = ps.difference(B)
            else:
                reg = B.intersect(ps) if case["rev"] else ps.intersect(B)
    except RecursionError as e:
        return {"error": "RecursionError", "stage": "intersect", "msg": str(e)[:100]}
    except Exception as e:
        return {"error": type(e).__name__, "stage": "intersect", "msg": str(e)[:200]}

    def run(_s):
        try:
            return _snapt(reg.uniformPointInner())
        except RejectionException:
            return "rejected"

    law = {}
    n = 0
    try:
        for outcome, w, _log in srng.explore(run, thresholds=[Fraction(1, 2)], max_paths=5000):
            n += 1
            law[outcome] = law.get(outcome, Fraction(0)) + w
    except Exception as e:
        return {"error": type(e).__name__, "stage": "sample", "msg": str(e)[:200], "rtype": type(reg).__name__}
    return {"law": [[list(k) if k != "rejected" else k, v.numerator, v.denominator] for k, v in law.items()], "branches": n,
            "rtype": type(reg).__name__}


# ------------------------------------------------------------------ (a') consecutive samples, random second operand

# (point set, the equiprobable alternatives of the random operand, what is random)
SEQ_CASES = [("Q4", ["S1", "SB"], "heading"), ("Q4", ["S1", "SC"], "angle"), ("G1", ["S1", "SB"], "heading"),
             ("Q4", ["RA", "RB"], "heading"), ("Q2", ["SB", "S1"], "heading"), ("Q4", ["SB", "SC"], "both")]


def run_seq(item):
    (psn, alts, what), cat, nsamp = item
    import math

    from scenic.core.distributions import Options, RejectionException
    import scenic.core.regions as R
    from scenic.core.vectors import Vector

    ix = idx(cat)
    ds = [cat[ix[a]] for a in alts]
    f = lambda v: v / S  # noqa: E731

    def build():
        ps = G.build(cat[ix[psn]])
        n0 = ds[0]["n"]
        if ds[0]["k"] == "sect":
            headings = [d["n"][4] * math.pi / 4 for d in ds]
            angles = [d["n"][5] * math.pi / 2 for d in ds]
            if what == "both":   # heading and angle are one joint choice
                pairs = Options(list(zip(headings, angles)))
                other = R.SectorRegion(Vector(f(n0[0]), f(n0[1]), f(n0[2])), f(n0[3]), pairs[0], pairs[1])
            else:
                h = Options(headings) if what == "heading" else headings[0]
                a = Options(angles) if what == "angle" else angles[0]
                other = R.SectorRegion(Vector(f(n0[0]), f(n0[1]), f(n0[2])), f(n0[3]), h, a)
        else:
            other = R.RectangularRegion(Vector(f(n0[0]), f(n0[1]), f(n0[2])), Options([d["n"][5] * math.pi / 2 for d in ds]), f(n0[3]), f(n0[4]))
        return R.Region.uniformPointIn(ps.intersect(other))

    def run(_s):
        dist = build()   # ONE IntersectionRegion object, sampled nsamp times in a row
        out = []
        for _k in range(nsamp):
            try:
                out.append(_snapt(dist.sample()))
            except RejectionException:
                out.append("rejected")
        return tuple(out)

    law, n = {}, 0
    try:
        for outcome, w, _log in srng.explore(run, thresholds=[Fraction(1, 2)], max_paths=20000):
            n += 1
            law[outcome] = law.get(outcome, Fraction(0)) + w
    except Exception as e:
        import traceback

        return {"error": f"{type(e).__name__}: {e}"[:300], "tb": traceback.format_exc()[-800:]}
    return {"law": [[[list(p) if p != "rejected" else p for p in k], v.numerator, v.denominator] for k, v in law.items()], "branches": n}


# ------------------------------------------------------------------ (b) abstract cases


def abs_cases(tier):
    atoms = [1, 2, 3, 4, 5]
    subsets = [list(c) for r in range(1, 6) for c in itertools.combinations(atoms, r)]
    measures = [[1, 2, 3, 1, 2], [1, 1, 1, 1, 1]] + ([[3, 1, 2, 2, 1], [2, 2, 1, 3, 3]] if tier != "quick" else [])
    cases = []
    for m in measures:
        for A in subsets:
            for B in subsets:
                for op in ("union", "inter", "diff"):
                    cases.append({"op": op, "sets": [A, B], "meas": m, "dims": [2, 2]})
    # operands of different dimension: the intersection is sampled from the thinner one only; the
    # union from the thicker one only (atoms of different dimension are kept apart: a curve has
    # measure zero in an area)
    m = measures[0]
    small = subsets if tier != "quick" else [x for x in subsets if 5 not in x]
    for A in small:
        for B in small:
            for dims in ([1, 2], [2, 1]):
                cases.append({"op": "inter", "sets": [A, B], "meas": m, "dims": dims})
                if not set(A) & set(B):
                    cases.append({"op": "union", "sets": [A, B], "meas": m, "dims": dims})
                cases.append({"op": "diff", "sets": [A, B], "meas": m, "dims": dims})
    return cases


# ------------------------------------------------------------------ (b) traces of the real generic samplers

TRACE_PAIRS = [
    # (op, A, B, how)   how: "direct" = construct the generic region directly, "dispatch" = A.op(B)
    ("union", "P1", "P4", "direct"), ("union", "P2", "P3", "direct"), ("union", "V1", "V2", "direct"),
    ("union", "L2", "T2", "dispatch"), ("union", "Q1", "Q2", "dispatch"), ("union", "P1", "P2", "dispatch"),
    ("union", "V1", "P1", "dispatch"), ("union", "R1", "C1", "direct"), ("union", "R2", "S4", "direct"),
    ("union", "V3", "V1", "direct"), ("union", "U1", "P1", "dispatch"), ("union", "T2", "L2", "dispatch"),
    ("inter", "P1", "P4", "direct"), ("inter", "V1", "V2", "direct"), ("inter", "V1", "P2", "direct"),
    ("inter", "P1", "L1", "direct"), ("inter", "T1", "C2", "dispatch"), ("inter", "R1", "C1", "direct"),
    ("inter", "P2", "P3", "direct"), ("inter", "L2", "T2", "dispatch"), ("inter", "P4", "V3", "direct"),
    ("inter", "U1", "V1", "dispatch"),
    ("diff", "V1", "P2", "dispatch"), ("diff", "P2", "V1", "dispatch"), ("diff", "P1", "P4", "direct"),
    ("diff", "V1", "V2", "direct"), ("diff", "Q1", "V1", "dispatch"), ("diff", "L1", "V1", "dispatch"),
    ("diff", "R1", "C1", "direct"), ("diff", "T2", "L2", "dispatch"), ("diff", "U1", "V1", "dispatch"),
]


def has_shape(op, names):
    """Does the logged trace have the skeleton of the specified sampler?"""
    if op == "union":
        return names[:3] == ["choices", "draw", "coin"] and names[3:] in (["ret"], ["rej"])
    if op == "diff":
        return names in (["draw", "ret"], ["draw", "rej"])
    return len(names) >= 2 and all(n == "draw" for n in names[:-1]) and names[-1] in ("ret", "rej") and len(names) <= 3


def lattice_weight(w, dim):
    v = float(w) * (S ** dim)
    r = round(v)
    if abs(v - r) <= 1e-7 * max(1.0, abs(v)):
        return int(r)
    return None


def run_traces(item):
    (op, an, bn, how), cat, ntr, sd = item
    import random

    import scenic.core.regions as R
    from scenic.core.distributions import RejectionException

    ix = idx(cat)
    A, B = G.build(cat[ix[an]]), G.build(cat[ix[bn]])
    try:
        if how == "direct":
            reg = {"union": R.UnionRegion, "inter": R.IntersectionRegion}[op](A, B) if op != "diff" else R.DifferenceRegion(A, B)
        else:
            reg = getattr(A, {"union": "union", "inter": "intersect", "diff": "difference"}[op])(B)
    except Exception as e:
        return {"error": f"{type(e).__name__}: {e}"[:200], "stage": "build"}
    want = {"union": R.UnionRegion, "inter": R.IntersectionRegion, "diff": R.DifferenceRegion}[op]
    if type(reg) is not want or getattr(reg, "sampler", None):
        return {"skipped": f"dispatch produced {type(reg).__name__}, not the generic sampler"}
    ops = list(reg.regions) if op != "diff" else [reg.regionA, reg.regionB]
    # the operands of the generic region, in its own order, as catalogue indices
    order = []
    for o in ops:
        order.append(ix[an] if o is A else ix[bn] if o is B else -1)
    if -1 in order:
        return {"skipped": "operands were rebuilt by the dispatch"}
    events = []
    state = {"inside": False}
    real_choices, real_random = random.choices, random.random

    def choices(population, weights=None, *, cum_weights=None, k=1):
        res = real_choices(population, weights, cum_weights=cum_weights, k=k)
        if not state["inside"]:
            pop = list(population)
            events.append({"e": "choices", "wf": [float(x) for x in (weights or [])], "dims": [getattr(p, "dimensionality", None) for p in pop],
                           "i": next(j for j, p in enumerate(pop) if p is res[0]) + 1, "cum": cum_weights is not None})
        return res

    def rnd():
        v = real_random()
        if not state["inside"]:
            events.append({"e": "coin", "u": 0 if v < 0.5 else 1, "uf": v})
        return v

    def wrap(o, j):
        orig = o.uniformPointInner

        def upi():
            state["inside"] = True
            try:
                p = orig()
            except BaseException:
                events.append({"e": "operr"})  # the operand's own sampler rejected: not a step of the generic sampler
                raise
            finally:
                state["inside"] = False
            events.append({"e": "draw", "i": j, "p": list(_snapt(p)), "raw": [float(p[0]), float(p[1]), float(p[2])]})
            return p

        o.uniformPointInner = upi

    for j, o in enumerate(ops):
        wrap(o, j + 1)
    G.seed_all(sd)
    random.choices, random.random = choices, rnd
    traces = []
    try:
        for _t in range(ntr):
            del events[:]
            try:
                p = reg.uniformPointInner()
                events.append({"e": "ret", "p": list(_snapt(p)), "raw": [float(p[0]), float(p[1]), float(p[2])]})
            except RejectionException:
                events.append({"e": "rej"})
            except Exception as e:
                events.append({"e": "crash", "msg": f"{type(e).__name__}: {e}"[:200]})
            traces.append([dict(e) for e in events])
    finally:
        random.choices, random.random = real_choices, real_random
    return {"order": order, "traces": traces, "sizes": [float(o.size) if o.size is not None else None for o in ops],
            "dims": [o.dimensionality for o in ops]}


# ------------------------------------------------------------------ (c) primitive / specialised samplers

PRIM = ["V1", "V2", "V3", "P1", "P2", "P3", "P4", "M1", "M2", "M3", "M4", "R1", "R2", "R3", "C1", "C2", "C3", "S1", "S2", "S3", "S4",
        "L1", "L2", "L3", "T1", "T2", "Q1", "Q3", "G1", "B1", "U1"]
# specialised (non-generic) compositions the dispatch resolves itself
COMPS = [("inter", "P2", "P3"), ("union", "P2", "P3"), ("diff", "P2", "P3"), ("inter", "P1", "P4"), ("union", "P1", "P4"),
         ("diff", "P1", "P4"), ("inter", "V3", "P4"), ("inter", "V2", "C2"), ("inter", "V1", "V2"), ("union", "V1", "V2"), ("diff", "V1", "V2"),
         ("inter", "V1", "L1"), ("inter", "P1", "L1"), ("inter", "R1", "C1"), ("diff", "L1", "P1"), ("inter", "V1", "T1"),
         ("inter", "F1", "P1"), ("inter", "F1", "P2"), ("inter", "C2", "R2"), ("diff", "P2", "C2"), ("inter", "S4", "P2"),
         # compositions whose result has several connected components of different areas
         ("diff", "R1", "K1"), ("diff", "R3", "K2"), ("inter", "P2", "K3"), ("inter", "K3", "P2"), ("union", "P1", "K4"),
         ("union", "K4", "P1"), ("union", "M1", "M2"), ("diff", "M3", "K2"), ("inter", "M1", "P4"), ("diff", "P2", "K3"),
         ("inter", "V3", "M1"), ("inter", "F1", "M3")]
RECTILINEAR = ("poly", "rect", "vol", "fp")


def run_prim(item):
    kind, spec, cat, n, sd = item
    from scenic.core.distributions import RejectionException

    ix = idx(cat)
    try:
        if kind == "prim":
            reg = G.build(cat[ix[spec]])
        else:
            op, an, bn = spec
            reg = getattr(G.build(cat[ix[an]]), {"union": "union", "inter": "intersect", "diff": "difference"}[op])(G.build(cat[ix[bn]]))
    except Exception as e:
        return {"error": f"{type(e).__name__}: {e}"[:200]}
    G.seed_all(sd)
    smp, raw, rej = [], [], 0
    err = None
    for _k in range(4 * n):
        if len(smp) >= n:
            break
        try:
            p = reg.uniformPointInner()
        except RejectionException:
            rej += 1
            continue
        except Exception as e:
            err = f"{type(e).__name__}: {e}"[:200]
            break
        smp.append(list(_snapt(p)))
        raw.append([round(float(v), 9) for v in (p[0], p[1], p[2])])
    out = {"smp": smp, "raw": raw, "rejected": rej, "rtype": type(reg).__name__}
    if err:
        out["error"] = err
    import scenic.core.regions as _R

    rectilinear = kind == "prim" or all(cat[ix[nm]]["k"] in RECTILINEAR for nm in spec[1:])
    if type(reg) is _R.PolygonalRegion and rectilinear:
        # the triangulation and the call that selects a triangle (primitive polygons and every
        # composition whose real result is a PolygonalRegion)
        tris, cum = reg._samplingData
        out["tris"] = [[c for xy in list(t.exterior.coords)[:3] for c in xy] for t, _b in tris]
        out["cum"] = [float(c) for c in cum]
        import random

        seen = {}
        realc = random.choices

        def spy(population, weights=None, *, cum_weights=None, k=1):
            seen["cum"] = list(cum_weights) if cum_weights is not None else None
            seen["w"] = list(weights) if weights is not None else None
            seen["n"] = len(list(population))
            return realc(population, weights, cum_weights=cum_weights, k=k)

        random.choices = spy
        try:
            reg.uniformPointInner()
        finally:
            random.choices = realc
        out["choices"] = seen
    return out


# ------------------------------------------------------------------ main


def choices_law(cum, cum_int):
    """Exact law of `random.choices(pop, cum_weights=cum)[0]`: the real CPython algorithm (a
    random.Random whose random() is scripted) is run once per cell of the partition of [0,1) induced
    by the cumulative weights; cell lengths are exact rationals of the lattice integers cum_int."""
    n = len(cum)
    total = Fraction(cum_int[-1])
    cuts = sorted({Fraction(c) / total for c in cum_int if 0 < Fraction(c) / total < 1})
    edges = [Fraction(0)] + cuts + [Fraction(1)]
    law = [Fraction(0)] * n

    class _R(_random.Random):
        u = 0.0

        def random(self):
            return self.u

    r = _R()
    for lo, hi in zip(edges, edges[1:]):
        r.u = float((lo + hi) / 2)
        law[r.choices(range(n), cum_weights=cum)[0]] += hi - lo
    return law


def to_int_tri(t):
    out = []
    for v in t:
        x = v * S
        r = round(x)
        if abs(x - r) > 1e-7:
            return None
        out.append(int(r))
    return out


_DUMP = []


class _Ck(Check):
    def violation(self, key, replay, known_key=None):
        if os.environ.get("VERIF_DUMP"):
            _DUMP.append({"msg": key, "layer": replay.get("layer"), "known": known_key})
        return super().violation(key, replay, known_key=known_key)

    def finish(self):
        if os.environ.get("VERIF_DUMP"):
            with open(os.environ["VERIF_DUMP"], "w") as f:
                json.dump(_DUMP, f, indent=1)
        return super().finish()


def main(tier):
    ck = _Ck("C03", tier, "model_checking")
    ck.cov["rule"] = (
        "cases: (a) point set x second operand x order, exact law over all RNG branches; (b) abstract pair of atom sets x "
        "operation x measure vector (TLC, all behaviours) and one trace of a real generic sampler; (c) one seeded sample of a "
        "primitive or specialised region; non-trivial = composed set non-empty; distinct by case key"
    )
    ck.assumptions += [
        "lattice sub-universe of gen_regions (coordinates on the 1/8 lattice, axis-parallel shapes, discs, sectors of 90/180/270 deg)",
        "uniformity of the continuous primitive samplers (box, polygon triangles, disc, sector, polyline, trimesh samplers) is NOT "
        "decided: for them only membership of every sample (all three coordinates) and the triangulation weights are checked",
        "abstract universe of layer (b): 5 atoms, integer measures, two operands; operands of different dimension share no atoms in unions",
        "discs/sectors: samples in the cells next to an arc or a bounding ray are 'mixed' and not judged; weights of curved operands "
        "(not integers on the lattice) are compared by the harness with relative tolerance 1e-3 instead of exactly by TLC",
    ]
    cat = catalogue()
    ix = idx(cat)
    sd = seed()
    ntr = 60 if tier == "quick" else 300
    nprim = 60 if tier == "quick" else 300

    # the abstract layer of the spec does not depend on the real code: TLC checks it while the
    # real samplers are being run
    acases = abs_cases(tier)
    if os.environ.get("VERIF_C03_FAST"):  # development aid (mutation scripts): thin the abstract layer
        acases = acases[::40]
    apath = os.path.join(scratch(), "c03abs.json")
    with open(apath, "w") as f:
        json.dump({"cat": [], "disc": [], "abs": acases, "traces": [], "prim": [], "tri": [], "seq": []}, f)
    abs_box = {}

    def _abs_run():
        try:
            abs_box["res"] = run_tlc("RegionSampling", CFG, env={"SAMP": apath}, coverage=True, timeout=3000, workers=8)
        except BaseException as e:  # re-raised in the main thread
            abs_box["err"] = e

    import threading

    th = threading.Thread(target=_abs_run)
    th.start()
    dcases = disc_cases(cat, tier)
    pitems = [("prim", n, cat, nprim, sd * 31 + k) for k, n in enumerate(PRIM)] + [("comp", c, cat, nprim, sd * 37 + k) for k, c in enumerate(COMPS)]
    cache = os.environ.get("VERIF_C03_CACHE")  # development aid only
    if cache and os.path.exists(cache):
        import pickle

        dres, tres, pres, sres_ = pickle.load(open(cache, "rb"))
    else:
        dres = pmap(run_disc, [(c, cat) for c in dcases])
        sres_ = pmap(run_seq, [(c, cat, 2) for c in SEQ_CASES], chunk=1)
        tres = pmap(run_traces, [(tp, cat, ntr, sd * 977 + 13 * k) for k, tp in enumerate(TRACE_PAIRS)], chunk=1)
        pres = pmap(run_prim, pitems, chunk=1)
        if cache:
            import pickle

            pickle.dump((dres, tres, pres, sres_), open(cache, "wb"))
    ck.cov["wall_real_code_s"] = round(time.time() - ck.t0, 1)

    # ---- the TLC input
    tl_cat = [G.to_tla(d) for d in cat]
    tl_disc = [{"op": c["op"], "ps": c["ps"] + 1, "b": c["b"] + 1 if c["b"] >= 0 else 0} for c in dcases]
    tl_traces, trace_meta = [], []
    nonlattice = other_shape = 0
    returned = {}
    for (op, an, bn, how), r in zip(TRACE_PAIRS, tres):
        if "traces" not in r:
            continue
        for tno, tr in enumerate(r["traces"]):
            evs = []
            bad = None
            if any(e["e"] == "operr" for e in tr):
                ck.cov["dropped_by_generator"] += 1
                continue
            for e in tr:
                ev = {"e": e["e"], "i": e.get("i", 0), "w": [], "p": e.get("p", [0, 0, 0]), "u": e.get("u", 0)}
                if e["e"] == "choices":
                    dims = e["dims"]
                    ws = [lattice_weight(wf, d) for wf, d in zip(e["wf"], dims)]
                    if any(x is None for x in ws):
                        nonlattice += 1
                        # curved operands: compare the ratio with the real sizes only approximately
                    else:
                        ev["w"] = ws
                if e["e"] == "crash":
                    bad = e["msg"]
                evs.append(ev)
            if bad:
                ck.violation(f"generic sampler of {an} {op} {bn} crashed: {bad}", {"property": "C03", "layer": "b", "op": op, "A": an, "B": bn, "trace": tr})
                continue
            if tr and tr[-1]["e"] == "ret":
                returned.setdefault((op, an, bn), []).append((tr[-1]["p"], tr[-1]["raw"]))
            if not has_shape(op, [e["e"] for e in tr]):
                # a sampler of a different shape (refactored): only the verdict-level checks apply
                other_shape += 1
                continue
            tl_traces.append({"op": op, "regs": [r["order"][0] + 1, r["order"][1] + 1], "ev": evs})
            trace_meta.append((op, an, bn, how, tno, tr))
    tl_prim, prim_meta, tl_tri, tri_meta = [], [], [], []
    for (kind, spec, _c, _n, _s), r in zip(pitems, pres):
        if "smp" not in r:
            prim_meta.append(None)
            continue
        if kind == "prim":
            ridx = ix[spec] + 1
        else:
            tl_cat.append(G.to_tla(G.comp(spec[0], cat[ix[spec[1]]], cat[ix[spec[2]]])))
            ridx = len(tl_cat)
        tl_prim.append({"r": ridx, "smp": r["smp"]})
        prim_meta.append(len(tl_prim) - 1)
        if "tris" in r:
            tris = [to_int_tri(t) for t in r["tris"]]
            cum2 = [lattice_weight(2 * c, 2) for c in r["cum"]]
            if any(t is None for t in tris) or any(c is None for c in cum2):
                ck.violation(f"triangulation of {spec} leaves the lattice", {"property": "C03", "layer": "c", "region": spec, "tris": r["tris"]})
            else:
                tl_tri.append({"r": ridx, "tris": tris, "cum2": cum2})
                tri_meta.append((kind, spec, r))
    # verdict level for layer (b): every point returned by a generic sampler, classified against the composed set
    ret_meta = []
    for (op, an, bn), pts in returned.items():
        tl_cat.append(G.to_tla(G.comp(op, cat[ix[an]], cat[ix[bn]])))
        tl_prim.append({"r": len(tl_cat), "smp": [p for p, _raw in pts]})
        ret_meta.append((len(tl_prim) - 1, op, an, bn, pts))
    tl_seq = [{"ps": ix[psn] + 1, "alts": [ix[a] + 1 for a in alts], "n": 2} for psn, alts, _w in SEQ_CASES]
    data = {"cat": tl_cat, "disc": tl_disc, "abs": [], "traces": tl_traces, "prim": tl_prim, "tri": tl_tri, "seq": tl_seq}
    path = os.path.join(scratch(), "c03.json")
    with open(path, "w") as f:
        json.dump(data, f)
    res = run_tlc("RegionSampling", CFG, env={"SAMP": path}, coverage=True, timeout=3000, workers=8)
    ck.add_tlc("RegionSampling (discrete cases, traces, samples, triangulations)", res)
    th.join()
    if "err" in abs_box:
        raise abs_box["err"]
    ares = abs_box["res"]
    ck.add_tlc("RegionSampling (abstract universe)", ares)
    res.outputs += ares.outputs
    for r_, what in ((ares, "abstract"), (res, "binding")):
        for act in ("PickCase", "UChoose", "UDraw", "UCoin", "IDraw", "ITest", "DDraw", "DTest") + (("Pick", "SAlt", "SPt") if what == "binding" else ()):
            if r_.coverage.get(act, (0, 0))[1] == 0:
                raise MachineryError(f"RegionSampling action never taken in the {what} run (vacuous model): {act} {sorted(r_.coverage.items())}")
    out = {"disc": {}, "trace": set(), "prim": {}, "tri": {}, "abs": 0, "seq": {}}
    for o in res.outputs:
        if o["t"] == "disc":
            out["disc"][o["k"] - 1] = o
        elif o["t"] == "trace":
            out["trace"].add(o["k"] - 1)
        elif o["t"] == "prim":
            out["prim"][o["k"] - 1] = o
        elif o["t"] == "tri":
            out["tri"][o["k"] - 1] = o
        elif o["t"] == "seq":
            out["seq"].setdefault(o["k"] - 1, []).append(o)
        elif o["t"] == "abs":
            out["abs"] += 1
    ck.cov["abstract_cases"] = len(acases)
    for k in range(0, len(acases), 50):
        ck.case(("abs", k), True)

    # ---- (a) exact laws of discrete regions
    for k, (case, r) in enumerate(zip(dcases, dres)):
        e = out["disc"].get(k)
        if e is None:
            raise MachineryError(f"no TLC output for discrete case {k}")
        members = [tuple(m) for m in e["members"]]
        sym = {"inter": "&", "union": "|", "diff": "-"}[case["op"]]
        name = f"{cat[case['ps']]['name']}" + (f" {sym} {cat[case['b']]['name']}" + (" (reversed)" if case["rev"] else "") if case["b"] >= 0 else "")
        ck.case(("disc", name), bool(members))
        trig = set(e["trig"])
        rep = {"property": "C03", "layer": "a", "case": name, "members": members, "observed": r}
        if "error" in r:
            known = None
            if "pointset-intersect-crash" in trig and r["error"] in ("RecursionError", "AttributeError"):
                known = "pointset-intersect-crash"
            ck.violation(f"{name}: {r['stage']} raised {r['error']}: {r['msg']}", rep, known_key=known)
            continue
        law = {}
        for key, num, den in r["law"]:
            law[tuple(key) if key != "rejected" else key] = Fraction(num, den)
        exp = {m: Fraction(1, len(members)) for m in members} if members else {"rejected": Fraction(1)}
        if case["op"] != "inter" and members and law.get("rejected", 0) < 1:
            # generic samplers may reject: the property is about the law conditional on returning
            acc = 1 - law.pop("rejected", Fraction(0))
            law = {k2: v / acc for k2, v in law.items()}
        if law == exp:
            ck.validated(r["branches"])
            ck.sample({"case": name, "law": {str(k2): str(v) for k2, v in exp.items()}, "rng_branches": r["branches"]}, limit=3)
            continue
        nonmem = [p for p in law if p != "rejected" and p not in exp]
        missing = [p for p in exp if p not in law]
        known = None
        if nonmem:
            msg = f"produces non-members {[[c / S for c in p] for p in nonmem[:3]]}"
            if "pointset-footprint-membership" in trig and all(_in_pointset(cat[case["ps"]], p) for p in nonmem):
                known = "pointset-footprint-membership"
        elif missing:
            msg = f"never produces {len(missing)} of {len(exp)} members, e.g. {[c / S for c in missing[0]] if missing[0] != 'rejected' else missing[0]}"
            if "sector-circumcircle" in trig:
                known = "sector-circumcircle"
        else:
            msg = f"not uniform: {[(k2, str(v)) for k2, v in list(law.items())[:4]]}"
        ck.violation(f"{name}: {msg}", dict(rep, expected={str(k2): str(v) for k2, v in exp.items()}), known_key=known)

    # ---- (a') consecutive samples of one IntersectionRegion with a random second operand
    for k, ((psn, alts, what), r) in enumerate(zip(SEQ_CASES, sres_)):
        name = f"{psn} & random({' | '.join(alts)}) sampled twice"
        ck.case(("seq", name), True)
        rep = {"property": "C03", "layer": "a", "case": name, "observed": r}
        if "error" in r:
            ck.violation(f"{name}: {r['error']}", rep)
            continue
        exp = {}
        for o in out["seq"].get(k, []):
            key = tuple(tuple(d[1]) for d in o["draws"])
            exp[key] = exp.get(key, Fraction(0)) + Fraction(o["w"][0], o["w"][1])
        if not exp or sum(exp.values()) != 1:
            raise MachineryError(f"sequence case {name}: the spec's law does not sum to 1")
        law = {tuple(tuple(p) if p != "rejected" else p for p in key): Fraction(n_, d_) for key, n_, d_ in r["law"]}
        if law == exp:
            ck.validated(r["branches"])
        else:
            diff = [(str(k2), str(law.get(k2, 0)), str(exp.get(k2, 0))) for k2 in sorted(set(law) | set(exp), key=str) if law.get(k2, 0) != exp.get(k2, 0)][:4]
            ck.violation(f"{name}: the joint law of two consecutive samples is not the product of the per-sample laws "
                         f"(sample, observed, expected): {diff}", dict(rep, expected={str(k2): str(v) for k2, v in exp.items()}))

    # ---- (b) traces
    ntraces = 0
    for k, (op, an, bn, how, tno, tr) in enumerate(trace_meta):
        ck.case(("trace", op, an, bn, tno // 10), True)
        if k in out["trace"]:
            ntraces += 1
            continue
        ck.violation(f"trace of the real {op} sampler on ({an}, {bn}) is not a behaviour of the specified sampler "
                     f"(weights proportional to measure / draw from the chosen operand / multiplicity coin / result in the composed set)",
                     {"property": "C03", "layer": "b", "op": op, "A": an, "B": bn, "how": how, "trace": tr})
    ck.validated(ntraces)
    ck.cov["traces_of_other_shape_not_matched"] = other_shape
    for pm, op, an, bn, pts in ret_meta:
        cls = out["prim"][pm]["cls"]
        outs = [j for j, cl in enumerate(cls) if cl == "out"]
        ck.case(("returned", op, an, bn), True)
        if outs:
            ck.violation(f"generic {op} sampler on ({an}, {bn}) returned {len(outs)} of {len(cls)} points outside the composed set, e.g. {pts[outs[0]][1]}",
                         {"property": "C03", "layer": "b", "op": op, "A": an, "B": bn, "point": pts[outs[0]][1]})
        else:
            ck.validated(1)
    skipped = [f"{op} {an} {bn}: {r.get('skipped') or r.get('error')}" for (op, an, bn, how), r in zip(TRACE_PAIRS, tres) if "traces" not in r]
    ck.cov["trace_pairs_skipped"] = skipped
    # curved operands: approximate proportionality of the weights, checked here
    for (op, an, bn, how), r in zip(TRACE_PAIRS, tres):
        if "traces" not in r or op != "union":
            continue
        for tr in r["traces"]:
            for e in tr:
                if e["e"] == "choices" and len(e["wf"]) == 2:
                    sizes = r["sizes"]
                    exp = approx_measures([cat[ix[an]], cat[ix[bn]]], r["order"], ix, cat)
                    if exp and abs(e["wf"][0] * exp[1] - e["wf"][1] * exp[0]) > 2e-3 * max(e["wf"][0] * exp[1], e["wf"][1] * exp[0]):
                        ck.violation(f"union weights {e['wf']} of ({an}, {bn}) are not proportional to the measures {exp}",
                                     {"property": "C03", "layer": "b", "A": an, "B": bn, "weights": e["wf"], "measures": exp})
                    break
            break

    # ---- (c) samples of primitive and specialised regions
    nsmp = nmixed = 0
    for (kind, spec, _c, _n, _s), r, pm in zip(pitems, pres, prim_meta):
        name = spec if kind == "prim" else f"{spec[1]}.{spec[0]}({spec[2]})"
        ck.case(("sample", name), True)
        rep = {"property": "C03", "layer": "c", "region": name, "observed": {k2: v for k2, v in r.items() if k2 not in ("smp", "tris", "cum")}}
        if pm is None or "error" in r:
            ck.violation(f"{name}: sampling failed: {r.get('error')}", rep)
            continue
        cls = out["prim"][pm]["cls"]
        nsmp += len(cls)
        nmixed += sum(1 for c in cls if c == "mixed")
        outs = [j for j, c in enumerate(cls) if c == "out"]
        if outs:
            known = None
            raw = r["raw"][outs[0]]
            if kind == "comp" and _drops_height(cat, ix, spec) and raw[2] == 0 and r["rtype"] in ("PolygonalRegion", "PolylineRegion"):
                known = "polygon-op-drops-height"
            ck.violation(f"{name}: {len(outs)} of {len(cls)} samples are not in the region (all three coordinates), e.g. {raw}",
                         dict(rep, sample=raw), known_key=known)
        else:
            ck.validated(1)
        if len(cls) == 0 and r["rejected"] and kind == "prim":
            ck.violation(f"{name}: every draw was rejected", rep)
    for k, (kind, spec, r) in enumerate(tri_meta):
        name = spec if kind == "prim" else f"{spec[1]}.{spec[0]}({spec[2]})"
        ck.case(("tri", name), True)
        e = out["tri"][k]
        ch = r.get("choices", {})
        rep = {"property": "C03", "layer": "c", "region": name, "tris": r["tris"], "cum": r["cum"], "choices_call": ch, "tlc": e}
        okc = ch.get("cum") is not None and [float(x) for x in ch["cum"]] == r["cum"] and ch.get("n") == len(r["tris"])
        if not e["ok"] or not okc:
            failed = [f for f, v in e["facts"].items() if not v]
            ck.violation(f"{name}: the cumulative weights given to random.choices are not the running sum of the areas of triangles "
                         f"tiling the set (failed: {failed or 'choices call differs from _samplingData'}; cum = {r['cum'][:8]})", rep)
            continue
        # exact law of the selection: CPython's random.choices run on the logged cum_weights with one
        # representative of every cell of [0,1) cut at the cumulative weights; the spec demands
        # area/total for every triangle
        law = choices_law(ch["cum"], [lattice_weight(2 * c, 2) for c in ch["cum"]])
        want = [Fraction(a2, t2) for a2, t2 in e["law"]]
        if law != want:
            bad = [(j, str(law[j]), str(want[j])) for j in range(len(want)) if law[j] != want[j]][:4]
            ck.violation(f"{name}: triangles are not selected with probability area/total: (index, observed, expected) {bad}",
                         dict(rep, observed_law=[str(x) for x in law], expected_law=[str(x) for x in want]))
        else:
            ck.validated(1)
    ck.cov["triangulations_checked"] = len(tri_meta)
    ck.cov["samples_classified_by_tlc"] = nsmp
    ck.cov["samples_mixed_not_judged"] = nmixed
    ck.cov["traces_with_nonlattice_weights"] = nonlattice
    ck.cov["traces"] = len(trace_meta)
    ck.cov["discrete_cases"] = len(dcases)
    ck.cov["exhaustive"] = False
    ck.cov["explanation"] = ("(a) every RNG branch of every listed discrete case; (b) TLC: every behaviour of every pair of subsets of 5 atoms; "
                             "binding: seeded traces; (c) seeded samples")
    return ck.finish()


def _in_pointset(d, p):
    return list(p) in d["s"]


def _drops_height(cat, ix, spec):
    op, an, bn = spec
    a, b = cat[ix[an]], cat[ix[bn]]

    def fam(d):
        return d["k"] in ("poly", "rect", "circ", "sect")

    def shape(d):
        return fam(d) or d["k"] in ("fp", "pline")

    def dh(x, y):
        return fam(x) and G.z_of(x) != 0 and shape(y) and (not fam(y) or G.z_of(y) == G.z_of(x))

    return dh(a, b) or (op != "diff" and dh(b, a))


def approx_measures(descs, order, ix, cat):
    import math

    out = []
    for o in order:
        d = cat[o]
        if d["k"] == "circ":
            out.append(math.pi * (d["n"][3] / S) ** 2)
        elif d["k"] == "sect":
            out.append(math.pi * (d["n"][3] / S) ** 2 * d["n"][5] / 4)
        elif d["k"] in ("poly",):
            out.append(sum((r[1] - r[0]) * (r[3] - r[2]) for r in d["s"]) / S**2)
        elif d["k"] == "rect":
            out.append(d["n"][3] * d["n"][4] / S**2)
        else:
            return None
    return out


if __name__ == "__main__":
    sys.exit(main(sys.argv[1] if len(sys.argv) > 1 else "quick"))
