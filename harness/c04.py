"""C04 -- object overlap and containment tests agree with exact solid geometry.

Spec: spec/Overlap.tla -- (i) the exact integer oracle on the lattice sub-universe (unions of
lattice boxes under the 24 cube rotations), (ii) the decision lists of Object.intersects,
MeshVolumeRegion.intersects / containsObject, PolygonalFootprintRegion.containsObject and
Object.minimumDistanceTo as guarded exits over named exact quantities.  TLC checks on an
enumerated universe and on the replayed batch that every exit is sound, that the lists are total
and that the oracle's operators are mutually consistent; in batch mode it prints per configuration
the expected answer and the deciding exit.

Binding (M1 replay): the harness builds the real objects / regions for every batch configuration
and compares Object.intersects (both directions), MeshVolumeRegion.intersects,
Region.containsObject and Object.minimumDistanceTo with the oracle.  Touching configurations are
don't-cares.  The exit the real code took (read with a sys.monitoring return-site probe) is a
diagnostic only."""

import ast
import inspect
import json
import math
import os
import random
import sys
import textwrap

from common import Check, MachineryError, pmap, run_tlc, scratch, seed
import gen_solids as G

CFG = """SPECIFICATION OvSpec
INVARIANT TypeOK
INVARIANT DoneSound
INVARIANT ExitsSound
INVARIANT OracleLemmas
INVARIANT EmitDone
CHECK_DEADLOCK TRUE
"""

ISECT_EXITS = ["F1z", "F1poly", "P1", "P2in", "P2circ", "P2bb", "P3hit", "P3convex", "P4", "P5"]
CONT_EXITS = ["C1", "C2bb", "C2verts", "C3out", "C3ball", "C4far", "C5"]
FOOT_EXITS = ["G1convex", "G2hull", "G3exact"]
DIST_EXITS = ["D2d", "Dfcl"]
EXIT_ACTIONS = {
    "F1z": "F1zExit", "F1poly": "F1polyExit", "P1": "P1Exit", "P2in": "P2inExit", "P2circ": "P2circExit",
    "P2bb": "P2bbExit", "P3hit": "P3hitExit", "P3convex": "P3convexExit", "P4": "P4Exit", "P5": "P5Exit",
    "C1": "C1Exit", "C2bb": "C2bbExit", "C2verts": "C2vertsExit", "C3out": "C3outExit", "C3ball": "C3ballExit",
    "C4far": "C4farExit", "C5": "C5Exit", "G1convex": "G1convexExit", "G2hull": "G2hullExit", "G3exact": "G3Exit",
    "D2d": "D1Exit", "Dfcl": "D2Exit",
}
TOL = 1e-6


# ----------------------------------------------------------------------------- universe for TLC
def universe_blocks(tier, sd):
    """Blocks of index sets enumerated exhaustively by TLC (mode 'universe')."""
    ci = G.CAT_INDEX
    rot_all = list(range(1, 25))
    if tier == "quick":
        core = [ci[n] for n in ("cube", "brick", "L", "tripod", "twin")]
        # the second solid's rotations: the 4 planar ones plus a seed-dependent third of the others
        rb = [1, 2, 3, 4] + [r for r in range(5, 25) if r % 5 == sd % 5]
        win = dict(dx=[-6, -4, -2, 0, 2], dy=[-4, 0, 2], dz=[-4, -2, 0, 2])
        blocks = [
            dict(proc="isect", api="obj", sa=core, sra=[1 + sd % 2], sb=core, srb=rb, **win),
            dict(proc="isect", api="reg", sa=[ci["L"], ci["twin"]], sra=[1], sb=core, srb=rb[:4], **win),
            # tilt through the parent frame only (local pitch = roll = 0): never planar
            dict(proc="isect", api="obj", sa=[ci["bar"], ci["brick"]], sqa=[5 + sd % 3, 9, 14 + sd % 7], sra=[1, 2],
                 sb=[ci["cube"], ci["bar"], ci["brick"]], srb=[1, 2], **win),
            dict(proc="dist", api="obj", sa=[ci["bar"], ci["brick"]], sqa=[6, 11 + sd % 5], sra=[1, 2],
                 sb=[ci["bar"], ci["brick"]], sqb=[1, 7], srb=[1], dx=win["dx"], dy=win["dy"], dz=[0, 2]),
            dict(proc="isect", api="obj", sa=[ci["bigL"], ci["big"]], sra=[1], sb=[ci["cube"], ci["L"], ci["twin"]],
                 srb=[1, 2, 5, 9], dx=[-8, -6, -4, -2, 0, 2, 4], dy=[-8, -4, -2, 0, 2, 6], dz=[-6, -2, 0, 2]),
            dict(proc="dist", api="obj", sa=core[:3], sra=[1, 2], sb=core[:4], srb=rb[:6], **win),
            dict(proc="cont", api="reg", sa=[ci["big"], ci["bigL"], ci["roomL"]], sra=[1, 2, 7],
                 sb=[ci["cube"], ci["L"], ci["twin"]], srb=[1, 5],
                 dx=[-8, -4, -2, 0, 2, 4, 6], dy=[-6, -4, 0, 2, 4], dz=[-4, 0, 2]),
            dict(proc="cont", api="reg", sa=[ci["big"], ci["roomL"]], sra=[1, 7], sb=[ci["bar"], ci["L"]], srb=[1, 2],
                 dx=[-8, -4, 0, 4, 6], dy=[-6, 0, 4], dz=[0, 2], sg=[1]),
            dict(proc="foot", api="reg", sa=[1], sra=[1], sb=[ci["cube"], ci["L"], ci["U"], ci["twin"]],
                 srb=[1, 2, 5, 9], dx=list(range(-14, 15, 2)), dy=list(range(-14, 15, 4)), dz=[0], poly=0),
            dict(proc="foot", api="reg", sa=[1], sra=[1], sb=[ci["bar"], ci["brick"]], sqb=[5 + sd % 4, 12], srb=[1, 2],
                 dx=list(range(-14, 15, 2)), dy=list(range(-14, 15, 4)), dz=[0], poly=0),
        ]
    else:
        small = G.SMALL
        win = dict(dx=list(range(-6, 7, 2)), dy=list(range(-4, 5, 2)), dz=[-4, 0, 2])
        blocks = [
            dict(proc="isect", api="obj", sa=small, sra=[1 + sd % 4], sb=small, srb=rot_all[sd % 2 :: 2], **win),
            dict(proc="isect", api="reg", sa=small, sra=[1], sb=small, srb=rot_all[sd % 3 :: 3],
                 dx=win["dx"][1:-1], dy=win["dy"][1:-1], dz=win["dz"]),
            dict(proc="isect", api="obj", sa=G.LARGE, sra=[1, 5], sb=small, srb=rot_all[sd % 3 :: 3],
                 dx=list(range(-8, 9, 2)), dy=list(range(-8, 9, 4)), dz=[-4, -2, 0, 2, 6]),
            dict(proc="dist", api="obj", sa=small, sra=[1, 2], sb=small, srb=rot_all[sd % 3 :: 3],
                 dx=win["dx"][1:-1], dy=win["dy"][1:-1], dz=win["dz"]),
            dict(proc="cont", api="reg", sa=G.ROOMS, sra=[1, 7], sb=small, srb=rot_all[sd % 4 :: 4],
                 dx=list(range(-8, 9, 2)), dy=list(range(-6, 7, 2)), dz=[-4, 0, 2], sg=[0, 1]),
            dict(proc="foot", api="reg", sa=[1], sra=[1], sb=small, srb=rot_all[sd % 2 :: 2],
                 dx=list(range(-16, 17, 2)), dy=list(range(-16, 17, 4)), dz=[0], poly=0),
            dict(proc="isect", api="obj", sa=G.TILTABLE[:2], sqa=rot_all[4::2], sra=[1, 2, 3, 4], sb=small[:5], srb=[1, 2], **win),
            dict(proc="dist", api="obj", sa=G.TILTABLE[:2], sqa=rot_all[4::2], sra=[1, 2], sb=G.TILTABLE[:2], sqb=[1, 7, 13],
                 srb=[1, 2], dx=win["dx"], dy=win["dy"], dz=[0, 2]),
            dict(proc="foot", api="reg", sa=[1], sra=[1], sb=G.TILTABLE[:2], sqb=rot_all[4:], srb=[1, 2],
                 dx=list(range(-16, 17, 2)), dy=list(range(-16, 17, 4)), dz=[0], poly=0),
        ]
    out = []
    for b in blocks:
        b = dict(b)
        b.setdefault("poly", 0)
        b.setdefault("sqa", [1])
        b.setdefault("sqb", [1])
        b.setdefault("sg", [0])
        b["pa"] = [0, 0, 0] if b["proc"] == "foot" else [4, -2, 2]
        if b["proc"] == "foot":
            for pi in range(1, len(G.POLYS) + 1):
                bb = dict(b)
                bb["poly"] = pi
                out.append(bb)
        else:
            out.append(b)
    return out


def block_size(b):
    n = 1
    for k in ("sa", "sqa", "sra", "sb", "sqb", "srb", "dx", "dy", "dz", "sg"):
        n *= len(b[k])
    return n


# ----------------------------------------------------------------------------- return-site probe
class ExitProbe:
    """Which `return` statement (ordinal in source order) a function left through, read with
    sys.monitoring PY_RETURN events on that one code object (DESIGN.md 2.5).  Diagnostic only."""

    TOOL = 4  # a free tool id (sys.monitoring reserves 0..5; 4 is unnamed)

    def __init__(self):
        self.targets = {}  # code -> (name, {line: ordinal})
        self.last = {}
        self.ok = False

    def add(self, name, fn):
        try:
            f = inspect.unwrap(fn)
            code = f.__code__
            src = textwrap.dedent(inspect.getsource(f))
            tree = ast.parse(src)
            fdef = tree.body[0]
            rets = []

            class V(ast.NodeVisitor):
                def visit_Return(self, node):
                    rets.append(node.lineno)

                def visit_FunctionDef(self, node):
                    if node is fdef:
                        self.generic_visit(node)

                def visit_Lambda(self, node):
                    pass

            V().visit(fdef)
            base = code.co_firstlineno - fdef.lineno
            # decorators shift co_firstlineno to the first decorator line
            base = code.co_firstlineno - (fdef.decorator_list[0].lineno if fdef.decorator_list else fdef.lineno)
            self.targets[code] = (name, {ln + base: i for i, ln in enumerate(sorted(rets))})
        except Exception:
            pass

    def start(self):
        try:
            mon = sys.monitoring
            mon.use_tool_id(self.TOOL, "verif-c04")
            mon.register_callback(self.TOOL, mon.events.PY_RETURN, self._cb)
            for code in self.targets:
                mon.set_local_events(self.TOOL, code, mon.events.PY_RETURN)
            self.ok = True
        except Exception:
            self.ok = False

    def _cb(self, code, offset, retval):
        t = self.targets.get(code)
        if t is None:
            return
        name, lines = t
        line = None
        for start, end, ln in code.co_lines():
            if start <= offset < end:
                line = ln
                break
        self.last[name] = lines.get(line, -1)

    def take(self, name):
        return self.last.pop(name, None)


_probe = None
REAL_ISECT = {0: "P1", 1: "P2in", 2: "P2circ", 3: "P2bb", 4: "P3hit", 5: "P3convex", 6: "P4", 7: "P5"}
REAL_CONT = {0: "C1", 1: "C2bb", 2: "C2verts", 3: "C3out", 4: "C3ball", 5: "C4far", 6: "C5"}
REAL_FOOT = {0: "G1convex", 1: "G2hull", 2: "G3exact"}
REAL_OBJ = {0: "F1z", 1: "F1poly", 2: "Fpolyregion", 3: "default"}
REAL_DIST = {0: "D2d", 1: "Dfcl"}


def _get_probe():
    global _probe
    if _probe is None:
        from scenic.core.object_types import Object
        from scenic.core.regions import MeshVolumeRegion, PolygonalFootprintRegion

        _probe = ExitProbe()
        _probe.add("mvr_isect", MeshVolumeRegion.intersects)
        _probe.add("mvr_cont", MeshVolumeRegion.containsObject)
        _probe.add("foot_cont", PolygonalFootprintRegion.containsObject)
        _probe.add("obj_isect", Object.intersects)
        _probe.add("obj_dist", Object.minimumDistanceTo)
        _probe.start()
    return _probe


# ----------------------------------------------------------------------------- replay on the real code
def replay_case(c):
    """Run in a worker.  Returns the observations for one configuration."""
    import numpy

    numpy.random.seed(12345 + c["id"])
    pr = _get_probe()
    out = {"id": c["id"]}
    try:
        if c["proc"] == "isect":
            if c["api"] == "obj":
                a = G.make_object(c["a"], c["ra"], c["pa"], c["qa"])
                b = G.make_object(c["b"], c["rb"], c["pb"], c["qb"])
                out["obs"] = bool(a.intersects(b))
                oi = pr.take("obj_isect")
                mi = pr.take("mvr_isect")
                out["exit"] = REAL_OBJ.get(oi) if oi in (0, 1) else REAL_ISECT.get(mi)
                out["obs_rev"] = bool(b.intersects(a))
            else:
                ra = G.make_region(c["a"], G.compose(c["qa"], c["ra"]), c["pa"])
                rb = G.make_region(c["b"], G.compose(c["qb"], c["rb"]), c["pb"])
                out["obs"] = bool(ra.intersects(rb))
                out["exit"] = REAL_ISECT.get(pr.take("mvr_isect"))
                # an Object (precomputed shape data) against a bare region (none): still PASS 2B
                a = G.make_object(c["a"], c["ra"], c["pa"], c["qa"])
                out["obs_rev"] = bool(a.intersects(rb))
        elif c["proc"] == "dist":
            a = G.make_object(c["a"], c["ra"], c["pa"], c["qa"])
            b = G.make_object(c["b"], c["rb"], c["pb"], c["qb"])
            out["obs"] = float(a.minimumDistanceTo(b))
            out["exit"] = REAL_DIST.get(pr.take("obj_dist"))
            out["obs_rev"] = float(b.minimumDistanceTo(a))
        elif c["proc"] == "cont":
            reg = G.make_region(c["a"], G.compose(c["qa"], c["ra"]), c["pa"], c["g"])
            o = G.make_object(c["b"], c["rb"], c["pb"], c["qb"], c["g"])
            out["obs"] = bool(reg.containsObject(o))
            out["exit"] = REAL_CONT.get(pr.take("mvr_cont"))
        elif c["proc"] == "foot":
            fp = G.make_footprint(c["poly"])
            o = G.make_object(c["b"], c["rb"], c["pb"], c["qb"])
            out["obs"] = bool(fp.containsObject(o))
            out["exit"] = REAL_FOOT.get(pr.take("foot_cont"))
    except Exception as e:  # the real code failed on a well-formed configuration
        import traceback

        out["error"] = f"{type(e).__name__}: {e}"
        out["tb"] = traceback.format_exc()[-1200:]
    return out


def describe(c):
    e = G.CAT
    d = {
        "proc": c["proc"], "api": c["api"],
        "A": {"shape": e[c["a"] - 1]["name"], "dims": e[c["a"] - 1]["dims"], "position": list(G.real_pos(c["pa"])),
              "yaw_pitch_roll_quarter_turns": list(G.ROTS[c["ra"] - 1][1]),
              "parentOrientation_quarter_turns": list(G.ROTS[c["qa"] - 1][1])},
        "B": {"shape": e[c["b"] - 1]["name"], "dims": e[c["b"] - 1]["dims"], "position": list(G.real_pos(c["pb"])),
              "yaw_pitch_roll_quarter_turns": list(G.ROTS[c["rb"] - 1][1]),
              "parentOrientation_quarter_turns": list(G.ROTS[c["qb"] - 1][1])},
    }
    if c["proc"] == "foot":
        d["A"] = {"footprint": G.POLYS[c["poly"] - 1]}
    if c["g"]:
        d["frame"] = "whole configuration (positions and orientations) turned by yaw atan2(4, 3) about the world z axis"
    return d


# ----------------------------------------------------------------------------- main
def run_spec(ck, cases, blocks, tier):
    base = G.base_data()
    # -- universe: exhaustive over the blocks, no printing
    upath = os.path.join(scratch(), "ov_universe.json")
    with open(upath, "w") as f:
        json.dump(dict(base, cases=[], universe=blocks), f)
    ures = run_tlc("Overlap", CFG, env={"OV_DATA": upath, "OV_MODE": "universe"}, coverage=True, timeout=2400)
    ck.add_tlc("Overlap(universe)", ures)
    # -- batch: the configurations that are replayed on the real code
    outs = {}
    cov = dict(ures.coverage)
    for i in range(0, len(cases), 8000):
        chunk = cases[i : i + 8000]
        bpath = os.path.join(scratch(), f"ov_batch{i}.json")
        with open(bpath, "w") as f:
            json.dump(dict(base, cases=chunk, universe=[]), f)
        bres = run_tlc("Overlap", CFG, env={"OV_DATA": bpath, "OV_MODE": "batch"}, coverage=True, timeout=2400)
        ck.add_tlc("Overlap(batch)", bres)
        for k, (d, t) in bres.coverage.items():
            od, ot = cov.get(k, (0, 0))
            cov[k] = (od + d, ot + t)
        for o in bres.outputs:
            outs.setdefault(o["id"], []).append(o)
    missing = [e for e, a in EXIT_ACTIONS.items() if cov.get(a, (0, 0))[1] == 0]
    if missing:
        raise MachineryError(f"Overlap.tla exits never taken (vacuous model): {missing}")
    ck.cov["exit_actions_taken"] = {e: cov[a][1] for e, a in EXIT_ACTIONS.items()}
    return outs


def select(cases, outs, quota, rng):
    """Stratify the replayed batch: up to `quota` configurations per (proc, deciding exit, expected)."""
    buckets = {}
    for c in cases:
        os_ = outs.get(c["id"])
        if not os_:
            raise MachineryError(f"no TLC output for case {c['id']}")
        tilt = "ptilt" if c["qa"] > 1 or c["qb"] > 1 else ""   # tilted through the parent frame only
        tilt += "gframe" if c["g"] else ""                      # whole configuration in the generic frame
        tilt += c.get("tag", "")                                # large object at a container extremity
        key = (c["proc"], c["api"] + tilt, tuple(sorted({o["exit"] for o in os_})), os_[0]["exp"])
        buckets.setdefault(key, []).append(c)
    chosen = []
    for key in sorted(buckets):
        lst = buckets[key]
        rng.shuffle(lst)
        q = quota // 4 if key[3] == "free" else (3 * quota if key[1].endswith("xtr") else quota)
        chosen += lst[: max(q, 5)]
    chosen.sort(key=lambda c: c["id"])
    return chosen, {"/".join([k[0], k[1], "+".join(k[2]), k[3]]): len(v) for k, v in buckets.items()}


def main(tier):
    ck = Check("C04", tier, "model_checking")
    sd = seed()
    ck.cov["rule"] = (
        "a case is one configuration (procedure, two catalogue solids, their cube rotations, lattice positions) "
        "replayed on the real code; batch drawn with the seed and stratified by the exit that decides in the "
        "model; non-trivial = not a touching configuration (the oracle demands a definite answer); distinct by "
        "the full configuration"
    )
    ck.assumptions += [
        "exact sub-universe only: unions of 1-3 axis-aligned lattice boxes (half-unit lattice) under the 24 cube "
        "rotations; no generic angles, no curved primitives, no composed regions",
        "touching configurations (closures meet, interiors do not; object inside but flush with the container "
        "boundary) are don't-cares",
        "gen_solids (JSON constant <-> trimesh/Scenic objects) is trusted glue; the harness' Euler convention "
        "R = Rz(yaw) Rx(pitch) Ry(roll) is checked against scenic's Orientation before use",
        "the exit taken by the real code is a diagnostic (the interior point the code samples is not the spec's)",
        "third-party FCL / trimesh / shapely are part of the system under test",
    ]
    if not G.check_rotation_glue():
        raise MachineryError("the harness' Euler convention does not match scenic.core.vectors.Orientation")

    rng = random.Random(sd * 1000003 + 4)
    npair, ncont = (5000, 2500) if tier == "quick" else (30000, 15000)
    cases = G.random_pair_cases(rng, npair, 1) + G.random_cont_cases(rng, ncont, npair + 1)
    blocks = universe_blocks(tier, sd)
    if os.environ.get("VERIF_SKIP_UNIVERSE"):  # debugging knob (mutant runs): keep one tiny block
        blocks = [dict(blocks[0], sa=blocks[0]["sa"][:1], sb=blocks[0]["sb"][:1], srb=[1])]
    ck.cov["universe_configurations"] = sum(block_size(b) for b in blocks)
    outs = run_spec(ck, cases, blocks, tier)
    chosen, strata = select(cases, outs, 60 if tier == "quick" else 600, rng)
    ck.cov["strata_in_batch"] = strata
    ck.cov["replayed"] = len(chosen)

    # warm the per-shape caches (meshes, interior points, ray/FCL back ends) before forking
    warm = {}
    for c in chosen:
        warm.setdefault((c["proc"], c["api"], c["a"], c["b"]), c)
    for c in warm.values():
        replay_case(c)
    results = pmap(replay_case, chosen, procs=6)
    probe_seen = {}
    probe_match = probe_total = 0
    free = 0
    for c, r in zip(chosen, results):
        os_ = outs[c["id"]]
        exp = os_[0]["exp"]
        model_exits = sorted({o["exit"] for o in os_})
        nontrivial = exp != "free"
        ck.case((c["proc"], c["api"], c["a"], c["qa"], c["ra"], tuple(c["pa"]), c["b"], c["qb"], c["rb"], tuple(c["pb"]), c["poly"], c["g"]), nontrivial)
        rep = {"property": "C04", "configuration": describe(c), "case": c, "expected": exp,
               "model_exits": model_exits, "observed": r}
        if "error" in r:
            ck.violation(f"real code raised on a well-formed lattice configuration: {r['error']}", rep)
            continue
        if r.get("exit"):
            probe_seen[r["exit"]] = probe_seen.get(r["exit"], 0) + 1
            probe_total += 1
            probe_match += r["exit"] in model_exits
        if c["proc"] == "dist":
            gap = math.sqrt(os_[0]["gap2"]) / G.S
            devub = math.sqrt(os_[0]["devub2"]) / G.S
            rep["expected_distance"] = gap
            if exp == "free":
                free += 1
                continue
            bads = []
            for name in ("obs", "obs_rev"):
                d = r[name]
                if exp == "T":
                    if d > TOL:
                        # Overlap.tla DistNestedAsImplemented: nested non-convex solids, surfaces apart
                        k = "nested-nonconvex-distance" if os_[0]["ntrig"] and d <= devub + TOL else None
                        bads.append((f"positive distance {d!r} reported for overlapping objects", k))
                elif abs(d - gap) > TOL * max(1.0, gap):
                    # Overlap.tla DistAsImplemented: trigger holds and gap <= reported <= upper bound
                    k = "fcl-convex-distance" if os_[0]["trig"] and gap - TOL <= d <= devub + TOL else None
                    bads.append((f"distance {d!r} differs from the true gap {gap!r}", k))
            if not bads:
                ck.validated(1)
            else:
                keys = {k for _m, k in bads}
                known = keys.pop() if len(keys) == 1 else None  # every wrong direction explained by one deviation
                ck.violation(f"minimumDistanceTo: {bads[0][0]} ({describe(c)['A']} / {describe(c)['B']})", rep, known_key=known)
            continue
        if exp == "free":
            free += 1
            continue
        want = exp == "T"
        wrong = [n for n in ("obs", "obs_rev") if n in r and r[n] != want]
        if wrong:
            what = {"isect": "intersects", "cont": "containsObject", "foot": "footprint containsObject"}[c["proc"]]
            ck.violation(
                f"{what} returned {r[wrong[0]]} but exact solid geometry says {want} "
                f"(model exit {model_exits}, real exit {r.get('exit')})", rep)
        else:
            ck.validated(1)
        ck.sample({"configuration": describe(c), "expected": exp, "model_exits": model_exits,
                   "observed": r.get("obs"), "real_exit": r.get("exit")}, limit=6)
    ck.cov["touching_dont_cares_replayed"] = free
    ck.cov["real_exits_seen"] = probe_seen
    ck.cov["real_exit_in_model_exit_set"] = [probe_match, probe_total]
    ck.cov["exhaustive"] = False
    ck.cov["explanation"] = (
        "TLC exhaustive over the universe blocks (every exit sound, lists total) and over the replayed batch; "
        "the batch is a seeded sample of the sub-universe, every selected configuration is run on the real code"
    )
    return ck.finish()


if __name__ == "__main__":
    sys.exit(main(sys.argv[1] if len(sys.argv) > 1 else "quick"))
