"""C05 — expressions over random values evaluate as in plain Python on the samples.

Spec: spec/Expr.tla on spec/lib/PyNum.tla.  TLC enumerates every case of the batch x every
assignment of its random leaves, checks the spec lemmas (Python's division laws, rounding,
slicing, the construction rewrites with their side conditions, the fixpoint of `self.`
dependent defaults) and prints the expected value of EVERY node and the exact supports.

Binding: M1 replay.  gen_expr prints each case as a Scenic program in which every node is a
global parameter (object cases: every property of the object); the scripted RNG runs
Scenario.generate once per RNG branch; the set of observed value vectors must equal the set
of vectors the spec prints, and supportInterval of every node must contain the spec's
[min, max] or be unknown."""

import concurrent.futures
import gc
import json
import os
import sys
import time
from fractions import Fraction

import re

from common import KNOWN, Check, MachineryError, pmap, run_tlc, scratch, seed
import gen_expr as G
import rng as srng

CFG = """SPECIFICATION Spec
INVARIANT TypeOK
INVARIANT RewriteSound
INVARIANT DoneInDenotation
INVARIANT Reproducible
INVARIANT FixpointStable
INVARIANT FinalValueSeen
INVARIANT DeviationLocal
INVARIANT DivModLaw
INVARIANT FloorLaw
INVARIANT ModLaw
INVARIANT AbsNegLaw
INVARIANT SeqLaw
INVARIANT LeafLaw
INVARIANT InSupport
INVARIANT EmitCase
INVARIANT EmitRow
INVARIANT EmitRule
CHECK_DEADLOCK FALSE
"""

KNOWN_KEYS = {
    "floordiv": "floordiv-one-identity",
    "kwlazy": "kwarg-lazy-nameerror",
    "negabs": "support-neg-abs-unknown",
    "concat": "concat-const-left-radd",
    "rangedr": "range-endpoint-discreterange-repr",
    "hypot": "support-hypot-nonmonotonic",
    "starrecv": "star-call-random-receiver",
    "dislazy": "discrete-lazy-literal-option",
    "veclazy": "vector-operator-lazy-self",
}


def uniform_values(a, b):
    """Script random.uniform(a, b) with the three values the spec gives a `range` leaf."""
    if a == b:
        return [(a, Fraction(1))]
    return [(a, Fraction(1, 4)), ((a + b) / 2, Fraction(1, 2)), (b, Fraction(1, 4))]


_frozen = False


def _roomy(f):
    return f()


# CPython 3.12 keeps interpreter frames in 16 KiB "data stack chunks" that are mmap'ed when the
# recursion crosses a chunk boundary and munmap'ed as soon as it returns below it.  Scenic's
# recursive-descent parser crosses such boundaries ~90 times per compiled program, and page faults
# are very expensive on this box (60 compilations: 9000 faults, 7-13 s; inside _roomy: 16 faults,
# 1.3 s).  A frame that claims a large evaluation stack makes CPython allocate ONE big chunk in
# which all deeper frames live.  (Nothing is executed differently; only where frames are stored.)
_roomy.__code__ = _roomy.__code__.replace(co_stacksize=400000)


def real_run(item):
    return _roomy(lambda: _real_run(item))


def _real_run(item):
    """Worker: compile the program with the real Scenic, enumerate every RNG branch of
    Scenario.generate, return the set of observed value vectors and the support intervals."""
    global _frozen
    text, meta = item
    import scenic

    if not _frozen:
        # keep the cyclic GC away from the heap inherited from the parent: every collection would
        # touch (copy-on-write) all of it, and page faults are expensive on this box
        gc.freeze()
        _frozen = True
    from scenic.core.distributions import RejectionException, supportInterval

    out = {"vectors": [], "support": {}, "branches": 0}
    try:
        scenario = scenic.scenarioFromString(text, mode2D=False)
    except Exception as e:
        out["compile_error"] = [type(e).__name__, str(e)[:300]]
        return out
    is_obj = meta["object"]
    names = meta["names"]

    def observe(container):
        vals = []
        for nm in names:
            if is_obj:
                obj = container.objects[0]
                vals.append(obj.position.x if nm == "px" else getattr(obj, nm))
            else:
                vals.append(container.params[nm])
        return vals

    # static bounds
    try:
        statics = observe(scenario)
    except Exception as e:
        out["compile_error"] = ["observe:" + type(e).__name__, str(e)[:300]]
        return out
    for nm, v in zip(names, statics):
        try:
            lo, hi = supportInterval(v)
            out["support"][nm] = [None if lo is None else float(lo), None if hi is None else float(hi)]
        except Exception as e:
            out["support"][nm] = ["exc", type(e).__name__, str(e)[:200]]

    def run(_s):
        try:
            scene, _its = scenario.generate(maxIterations=1, verbosity=0)
        except RejectionException:
            return ("rejected",)
        except Exception as e:
            return ("exc", type(e).__name__, str(e)[:200])
        try:
            return ("ok", tuple(G.canon(v) for v in observe(scene)))
        except Exception as e:
            return ("exc", "observe:" + type(e).__name__, str(e)[:200])

    seen = {}
    try:
        for outcome, _w, _log in srng.explore(run, uniform_values=uniform_values, max_paths=5000):
            out["branches"] += 1
            seen.setdefault(outcome, 0)
            seen[outcome] += 1
    except Exception as e:
        out["explore_error"] = [type(e).__name__, str(e)[:300]]
    out["vectors"] = list(seen.items())
    return out


def descendants(case, n):
    acc, todo = set(), [n]
    while todo:
        x = todo.pop()
        if x and x not in acc:
            acc.add(x)
            todo.extend(case.nodes[x - 1]["a"])
    return acc


def build_cases(tier):
    s = seed()
    core = G.core_cases()
    if tier == "quick":
        nrand, nobj = 320, 50
    else:
        nrand, nobj = 12000, 2500
    rand = G.random_cases(s * 7919 + 5, nrand, depths=(2, 3, 3, 4) if tier == "quick" else (2, 3, 3, 4, 4, 5))
    objs = G.object_core() + G.object_cases(s * 104729 + 11, nobj)
    if tier == "quick":
        # group A (operator x constant x side x leaf): every case with the constants 0 and 1 (the
        # rewrite forms and their look-alikes), every second one (rotating with the seed) for 2, -1, 1/2
        core = [c for j, c in enumerate(core)
                if not c.tag.startswith("A:") or c.tag.split(":")[3] in ("0", "1") or (j + s) % 2 == 0]
    seen, out = set(), []
    for c in core + rand + objs:
        k = c.key()
        if k not in seen:
            seen.add(k)
            out.append(c)
    return out, len(core), len(rand), len(objs)


def qfrac(p):
    return Fraction(p[0], p[1])


def main(tier):
    ck = Check("C05", tier, "model_checking")
    # a `fixed:` line of this property cancels a `known:` line with the same key (the shared file is
    # append-only), so a regression of a repaired defect is a VIOLATION again
    try:
        for line in open(KNOWN):
            m = re.match(r"fixed:\s+property=C05\s+.*?\bkey=(\S+)", line.strip())
            if m:
                ck.findings.known.pop(m.group(1), None)
    except OSError:
        pass
    ck.cov["rule"] = (
        "a case is one expression DAG (or one class chain + object) with every assignment of its random leaves; "
        "exhaustive core (every lifted binary operator x constant in {0,1,2,-1,1/2} x side x leaf type, unary and "
        "conversion functions, rewrite forms below/above other operators, two-leaf combinations, indexing/slicing, "
        "calls with every positional/keyword/starred binding, attribute and method access, leaves with random "
        "parameters) plus seeded random DAGs and seeded class chains with specifier overrides; non-trivial = at "
        "least two distinct complete evaluations; distinct by node list"
    )
    ck.assumptions += [
        "exact sub-universe: ints and dyadic floats (den <= 64, |value| <= 30000); Range leaves scripted with the "
        "three values lo, (lo+hi)/2, hi; results that leave the dyadics (1/3, sqrt 2) are outside and dropped",
        "cases in which plain Python raises, a leaf has an empty support, or an index is not statically an int are "
        "outside the quantifier (decided by Expr.tla's well-formedness predicate) and dropped, never reported",
        "comparison operators are not lifted by Scenic (RandomControlFlowError by design): comparisons enter through "
        "lifted functions; constant_container[random index] has no reflected form in Python and is not generated",
        "dict literals containing random values are undocumented and not generated",
        "lazily evaluated leaves are (k relative to F).yaw with F[pos] = pos.x, |k + x| <= 3 (no angle wrap)",
        "the printer pair gen_expr.scenic_text / Case.json is trusted glue; CPython's own evaluation of every case "
        "(gen_expr.py_rows) must agree with Expr.tla, otherwise the run is a machinery failure",
    ]
    allcases, ncore, nrand, nobj = build_cases(tier)

    # ---- generator sanity (CPython): cases CPython itself rejects are dropped and counted; one in
    #      five of them is still sent to TLC, whose well-formedness predicate must reject it too
    cases, pyres, why_count = [], [], {}
    nrej = 0
    for c in allcases:
        fr = G.fragment_reason(c)
        if fr:
            why_count[fr] = why_count.get(fr, 0) + 1
            ck.cov["dropped_by_generator"] += 1
            continue
        pywhy, pyrows = G.prescreen(c)
        if pywhy != "ok":
            why_count[pywhy] = why_count.get(pywhy, 0) + 1
            ck.cov["dropped_by_generator"] += 1
            nrej += 1
            if pywhy == "too-large" or nrej % 5:
                continue
        cases.append(c)
        pyres.append((pywhy, pyrows))

    # ---- real code, every RNG branch of every case CPython accepts (run before TLC's output is
    #      loaded: the forked workers then share a small parent heap)
    def item_of(c):
        names = G.PROPS[: c.np] if c.np else [f"n{n}" for n in G.bound_nodes(c)] + ["root"]
        return (G.scenic_text(c), {"object": bool(c.np), "names": names})

    run_idx = [i for i, (w, _r) in enumerate(pyres) if w == "ok"]
    run_items = [item_of(cases[i]) for i in run_idx]

    # ---- TLC: every case x every assignment (in a thread, while the real code runs)
    BATCH = 2500 if tier == "quick" else 1200   # machine mode carries the denotation in every state
    machine = "1" if tier == "thorough" else "0"   # thorough: leaf-by-leaf machine + denotation

    def run_all_tlc():
        outs = []
        for base in range(0, len(cases), BATCH):
            b = cases[base : base + BATCH]
            path = os.path.join(scratch(), f"cases{base}.json")
            with open(path, "w") as f:
                json.dump([c.json() for c in b], f)
            # no -coverage: TLC switches off the caching of lazily evaluated LET values under
            # coverage, which makes the recursive evaluator exponential; non-vacuity is read from
            # the output
            env = {"CASES": path, "MACHINE": machine}
            if tier == "quick":  # short run: the C1 compiler alone warms up faster (about -25 % CPU)
                env["JAVA_TOOL_OPTIONS"] = "-XX:TieredStopAtLevel=1"
            outs.append((base, run_tlc("Expr", CFG, env=env, coverage=False, timeout=3000)))
        return outs

    scratch()  # create the scratch directory in the main thread
    with concurrent.futures.ThreadPoolExecutor(1) as ex:
        fut = ex.submit(run_all_tlc)
        gc.collect()
        gc.freeze()
        real = dict(zip(run_idx, pmap(real_run, run_items)))
        gc.unfreeze()
        tlc_out = fut.result()
    item = dict(zip(run_idx, run_items))

    spec_case, spec_rows, rules = {}, {}, []
    for base, res in tlc_out:
        ck.add_tlc("Expr", res)
        for o in res.outputs:
            if o["t"] == "case":
                spec_case[base + o["q"] - 1] = o
            elif o["t"] == "row":
                spec_rows.setdefault(base + o["q"] - 1, []).append(o)
            elif o["t"] == "rule" and base == 0:
                rules.append(o)
    ndraw = sum(r["k"] for rs in spec_rows.values() for r in rs)
    nfinish = sum(len(rs) for rs in spec_rows.values())
    nreject = sum(1 for o in spec_case.values() if o["why"] == "empty-support")
    ck.cov["spec_actions"] = {"Draw_on_printed_paths": ndraw, "Finish_printed": nfinish, "cases_with_Reject": nreject}
    if ndraw == 0 or nfinish == 0:
        raise MachineryError("Expr actions Draw / Finish never taken (vacuous model)")
    if len(spec_case) != len(cases):
        raise MachineryError(f"TLC printed {len(spec_case)} case lines for {len(cases)} cases")
    rule_names = sorted({r["name"] for r in rules})
    if len(rule_names) != 8 or not any(r["name"] == "x//1" and not r["holds"] for r in rules):
        raise MachineryError(f"rewrite rules not enumerated as expected: {rule_names}")
    ck.cov["rewrite_rules_checked"] = rule_names
    ck.cov["rewrite_rule_instances"] = len(rules)

    # ---- cross-validation of the spec against CPython (machinery, not verdict) and selection
    kept = []
    spec_stricter = {}
    for i, c in enumerate(cases):
        sc = spec_case[i]
        pywhy, pyrows = pyres[i]
        if sc["ok"]:
            if pywhy != "ok":
                raise MachineryError(f"Expr.tla accepts a case CPython rejects ({pywhy}):\n{G.scenic_text(c)}")
            exp = {tuple(G.canon_spec(v) for v in r["v"]) for r in spec_rows.get(i, [])}
            got = {tuple(G.canon(v) for v in row) for row in pyrows}
            if exp != got:
                d = sorted(exp ^ got, key=repr)[:2]
                raise MachineryError(
                    f"Expr.tla disagrees with CPython on case {i}:\n{G.scenic_text(c)}\n"
                    + "\n".join("  " + " | ".join(G.show(x) for x in v) for v in d)
                )
            if len(exp) != sc["n"]:
                raise MachineryError(f"case {i}: {len(exp)} rows printed, denotation has {sc['n']}")
            kept.append(i)
        elif pywhy == "ok":
            # the spec is stricter than CPython (static int typing of indices, exactness bounds)
            spec_stricter[sc["why"]] = spec_stricter.get(sc["why"], 0) + 1
            ck.cov["dropped_by_generator"] += 1
    ck.cov["dropped_reasons"] = {"cpython": why_count, "spec_only": spec_stricter}
    ck.cov["cases_generated"] = {"core": ncore, "random": nrand, "object": nobj, "distinct": len(allcases),
                                 "sent_to_tlc": len(cases)}

    nsup_checked = nsup_unknown = 0
    sample_at = set(kept[:: max(1, len(kept) // 6)][1:])  # samples spread over core / random / object cases
    for i in kept:
        (text, meta), rr = item[i], real[i]
        c, sc = cases[i], spec_case[i]
        N = len(c.nodes)
        if c.np:
            ids = list(sc["finals"])
        else:
            ids = G.bound_nodes(c) + [N]
        rows = spec_rows[i]
        exp = {tuple(G.canon_spec(r["v"][n - 1]) for n in ids) for r in rows}
        dev = {tuple(G.canon_spec(r["d"][n - 1]) for n in ids) for r in rows if r["d"]}
        ck.case(c.key(), len(exp) >= 2)
        base = {"property": "C05", "program": text, "nodes": c.nodes, "observed_names": meta["names"], "tag": c.tag}

        def fmt(vec):
            return {nm: G.show(v) for nm, v in zip(meta["names"], vec)}

        # -- construction
        if "compile_error" in rr:
            et, msg = rr["compile_error"]
            key = None
            if et == "NameError" and "'arg'" in msg and sc["kwlazy"]:
                key = KNOWN_KEYS["kwlazy"]
            elif et == "TypeError" and "NoneType" in msg and sc["rangedr"]:
                key = KNOWN_KEYS["rangedr"]
            elif et == "RandomControlFlowError" and sc["starrecv"]:
                key = KNOWN_KEYS["starrecv"]
            elif et == "AssertionError" and sc["dislazy"]:
                key = KNOWN_KEYS["dislazy"]
            elif et == "TypeError" and "argument" in msg and sc["veclazy"]:
                key = KNOWN_KEYS["veclazy"]
            ck.violation(
                f"building a well-formed expression failed: {et}: {msg}",
                dict(base, error=rr["compile_error"], expected_first=fmt(sorted(exp, key=repr)[0])),
                known_key=key,
            )
            continue
        if "explore_error" in rr:
            raise MachineryError(f"RNG exploration failed on case {i}: {rr['explore_error']}\n{text}")

        # -- values
        real_ok = {o[1] for o, _n in rr["vectors"] if o[0] == "ok"}
        real_bad = [o for o, _n in rr["vectors"] if o[0] != "ok"]
        bad = False
        for o in real_bad:
            key = None
            if o[0] == "exc" and o[1] == "AttributeError" and "__radd__" in o[2] and sc["concat"]:
                key = KNOWN_KEYS["concat"]
            elif o[0] == "exc" and o[1] == "TypeError" and "argument" in o[2] and sc["veclazy"]:
                key = KNOWN_KEYS["veclazy"]   # random position: the dropped `self` shows when sampling
            bad = True
            ck.violation(
                f"sampling a well-formed expression failed: {o}",
                dict(base, outcome=list(o), expected_first=fmt(sorted(exp, key=repr)[0])),
                known_key=key,
            )
        extra = real_ok - exp
        for vec in sorted(extra, key=repr)[:3]:
            # nearest expected vector: agrees on the random leaves
            prim = [j for j, n in enumerate(ids) if not c.np and n <= N and c.kind(n) in G.PRIMS]
            near = [e for e in exp if all(e[j] == vec[j] for j in prim)] or sorted(exp, key=repr)
            diff = {nm: {"expected": G.show(e), "observed": G.show(v)}
                    for nm, e, v in zip(meta["names"], near[0], vec) if e != v}
            key = KNOWN_KEYS["floordiv"] if vec in dev else None
            bad = True
            ck.violation(
                f"value differs from plain Python on the samples: {diff}",
                dict(base, observed=fmt(vec), expected=fmt(near[0]), differences=diff,
                     as_implemented_deviation="FloorDivOneIdentity" if key else None),
                known_key=key,
            )
        missing = exp - real_ok
        if missing and not real_bad and not (extra and all(v in dev for v in extra)):
            bad = True
            ck.violation(
                f"{len(missing)} value vector(s) the program can take were produced by no RNG branch",
                dict(base, missing=[fmt(v) for v in sorted(missing, key=repr)[:3]]),
            )
        if not bad:
            ck.validated(rr["branches"])

        # -- support intervals
        for j, (nm, n) in enumerate(zip(meta["names"], ids)):
            sup = sc["sup"][n - 1]
            if not sup:
                continue
            lo_s, hi_s = qfrac(sup[0]), qfrac(sup[1])
            got = rr["support"].get(nm)
            sub = descendants(c, n) if not c.np else set()
            if got and got[0] == "exc":
                key = None
                if got[1] == "TypeError" and any(c.kind(m) in ("neg", "abs") for m in sub):
                    # trigger: a neg/abs node below whose operand's bounds are unknown to the library
                    for m in sub:
                        if c.kind(m) in ("neg", "abs"):
                            opn = c.nodes[m - 1]["a"][0]
                            og = rr["support"].get(f"n{opn}")
                            if og is None or og[0] == "exc" or og[0] is None or og[1] is None:
                                key = KNOWN_KEYS["negabs"]
                ck.violation(
                    f"supportInterval({nm}) raised {got[1]}: {got[2]}",
                    dict(base, node=nm, spec_support=[str(lo_s), str(hi_s)], error=got),
                    known_key=key,
                )
                continue
            lo, hi = got
            if lo is None and hi is None:
                nsup_unknown += 1
                continue
            nsup_checked += 1
            tol = 1e-6
            if (lo is not None and lo > float(lo_s) + tol) or (hi is not None and hi < float(hi_s) - tol):
                key = None
                for m in sub:
                    nd = c.nodes[m - 1]
                    if nd["k"] == "call" and nd["c"][0] == 11:
                        for x in nd["a"]:
                            sx = sc["sup"][x - 1]
                            if sx and qfrac(sx[0]) < 0:
                                key = KNOWN_KEYS["hypot"]
                ck.violation(
                    f"supportInterval({nm}) = ({lo}, {hi}) excludes reachable values [{lo_s}, {hi_s}]",
                    dict(base, node=nm, reported=[lo, hi], spec_support=[str(lo_s), str(hi_s)]),
                    known_key=key,
                )
        if i in sample_at:
            ck.sample(
                {"kind": c.tag, "program": text.replace(G.PRELUDE, ""), "evaluations": len(exp),
                 "rng_branches": rr["branches"], "one_expected": fmt(sorted(exp, key=repr)[0]),
                 "spec_support_of_last": sc["sup"][ids[-1] - 1]},
                limit=6,
            )
    ck.cov["support_intervals_checked"] = nsup_checked
    ck.cov["support_intervals_unknown"] = nsup_unknown
    ck.cov["cases_replayed"] = len(kept)
    ck.cov["exhaustive"] = False
    ck.cov["explanation"] = (
        "TLC exhaustive per case (all leaf assignments); cases: exhaustive depth-2 core + seeded random DAGs to "
        "depth 4 (quick) / 5 (thorough) + seeded class chains"
    )
    return ck.finish()


def replay(path):
    """./check C05 --replay <file>: run the recorded program again on the real code and show the
    observations next to what the replay file recorded (exit 1 if the disagreement is still there)."""
    d = json.load(open(path))
    names = d["observed_names"]
    rr = real_run((d["program"], {"object": names[0] == "px", "names": names}))
    print(d["program"])
    still = False
    if "compile_error" in rr:
        print("construction failed:", rr["compile_error"])
        still = "error" in d
    for o, n in rr["vectors"]:
        if o[0] == "ok":
            obs = {nm: G.show(v) for nm, v in zip(names, o[1])}
            print(f"observed x{n}: {obs}")
            if d.get("observed") == obs:
                still = True
        else:
            print(f"observed x{n}: {o}")
            still = still or "outcome" in d
    if "node" in d:
        print("supportInterval:", d["node"], rr["support"].get(d["node"]), "spec support", d.get("spec_support"))
        got = rr["support"].get(d["node"])
        still = still or (got == d.get("reported")) or (got and got[0] == "exc" and "error" in d)
    for k in ("expected", "differences", "missing", "expected_first", "reported", "spec_support", "error", "outcome"):
        if k in d:
            print(f"recorded {k}: {d[k]}")
    print("disagreement reproduced" if still else "disagreement NOT reproduced")
    return 1 if still else 0


if __name__ == "__main__":
    sys.exit(main(sys.argv[1] if len(sys.argv) > 1 else "quick"))
