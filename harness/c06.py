"""C06 -- specifier resolution follows the documented priorities, whatever the order.

Spec: spec/Specifiers.tla.  The universe (specifier symbols, classes) is transcribed from the
reference (gen_specifiers.py), TLC enumerates every word (sub-bag x permutation) of symbols per
class, checks the lemmas and prints, per case, the declarative outcome (error kinds, or per
property the winning specifier and the modifier, plus the evaluation-order constraints) and
whether the as-implemented machine differs.

Binding: (1) table conformance -- every documented form is instantiated through the real
veneer functions (inside a compiled Scenic program) and its priorities / dependencies /
modifying-ness are compared with the documented symbol; class defaults likewise.  (2) M1
replay -- every case TLC emits is written as `new C <specifiers in that order>` in compiled
Scenic programs; exception kind, final property values (= which source won, evaluated in the
final context = lazy arguments saw final values) and the evaluation order are compared.
"""

import json
import os
import random
import sys
import time

from common import Check, MachineryError, run_tlc, scratch, seed
import gen_specifiers as G

CFG = """SPECIFICATION Spec
INVARIANT TypeOK
INVARIANT EvalSeesFinal
INVARIANT ExactlyOne
INVARIANT DeclOrderIndependent
INVARIANT DupIsTie
INVARIANT DeclTotal
{diffinv}
INVARIANT Emit
PROPERTY WrittenOnce
CHECK_DEADLOCK FALSE
"""

KNOWN_KEY = "tie-below-winner"
HERE = os.path.dirname(os.path.abspath(__file__))


# --------------------------------------------------------------------------- real code, in workers


def _compile(text, mode2D):
    """Compile a replay program with the observation wrappers installed.  Returns the exception
    that aborted it before its last line, or None."""
    import scenic
    import c06_helper as H

    H.install()
    try:
        try:
            scenic.scenarioFromString(text, mode2D=mode2D)
        except H.Done:
            return None
        except Exception as e:
            return e
    finally:
        H.uninstall()
    return RuntimeError("replay program ended without raising Done")


def _program(mode2D, blocks, consts):
    pre = G.fast_prelude(mode2D, consts).split("\n", 1)
    return pre[0] + "\nglobals().update(H.CONSTS)\n" + pre[1] + "".join(blocks) + "raise H.Done()\n"


def run_cases(mode2D, cases, extra=""):
    """Compile programs holding many creations: cases = [(k, creation text, expect)].  An
    exception raised while the ARGUMENTS of a creation are evaluated (before veneer.new is
    entered) aborts the program: it is recorded for that case and the rest is compiled again."""
    if HERE not in sys.path:
        sys.path.insert(0, HERE)
    import c06_helper as H

    H.EXPECT.clear()
    H.RESULTS.clear()
    for k, _t, expect in cases:
        H.EXPECT[k] = expect
    start = 0
    rounds = 0
    while start < len(cases):
        rounds += 1
        consts = {}
        blocks = [G.case_block(k, text, consts) for k, text, _e in cases[start:]]
        text = _program(mode2D, blocks + ([extra] if extra else []), consts)
        H.CONSTS.clear()
        H.CONSTS.update(consts)
        H.begin(None)
        e = _compile(text, mode2D)
        if e is None:
            break
        k = H.current()
        idx = [i for i, c in enumerate(cases) if c[0] == k]
        if k is None or not idx or rounds > 50:
            raise e  # the prelude (or the machinery) failed, not a case
        H.fail(k, e)
        H.RESULTS[k]["before_new"] = True
        start = idx[0] + 1
    out = {}
    for k, _t, _e in cases:
        r = H.RESULTS.get(k)
        if r is not None:
            r.pop("props", None)
        out[k] = r
    return out


_frozen = []


def run_chunk(item):
    mode2D, cases = item
    if not _frozen:
        import gc

        import scenic  # noqa: F401

        gc.freeze()  # the PEG parser allocates heavily: keep the big import heap out of the collector
        _frozen.append(1)
    try:
        return run_cases(mode2D, cases)
    except Exception as e:  # the program as a whole failed: machinery (prelude) problem
        import traceback

        return {"error": f"{type(e).__name__}: {e}", "tb": traceback.format_exc()[-2000:]}


def probe(mode2D):
    """Parent process: compile the prelude, instantiate every documented form once and report the
    real specifier tables and the real class tables."""
    if HERE not in sys.path:
        sys.path.insert(0, HERE)
    import c06_helper as H

    keys = []
    cases = []
    for f in G.FORMS:
        t = f["t2"] if mode2D else f["t3"]
        if t is None:
            continue
        for cname in ("Object", "K"):
            keys.append((f["id"], cname))
            cases.append((len(keys) - 1, f"new {cname} {t(0)}", {}))
    extra = ("H.CLASSES = dict(Point=Point, OrientedPoint=OrientedPoint, Object=Object, K=K)\n"
             "H.CLASSINFO = {n: (H.class_levels(c), list(c._defaults), sorted(c._finalProperties), sorted(c._dynamicProperties)) for n, c in H.CLASSES.items()}\n")
    res = run_cases(mode2D, cases, extra=extra)
    tables = {}
    for k, key in enumerate(keys):
        r = res.get(k)
        if r is None or "table" not in r:
            raise MachineryError(f"form {key} could not be instantiated: {r}")
        tables[key] = r["table"][0]
    return tables, H.CLASSINFO


# --------------------------------------------------------------------------- conformance of tables


def table_conformance(ck):
    """Compare code tables with the documented ones.  Returns (proporders, n compared)."""
    proporders = {}
    compared = 0
    for mode2D in (False, True):
        tables, classinfo = probe(mode2D)
        for (fid, cname), t in tables.items():
            form = next(f for f in G.FORMS if f["id"] == fid)
            doc = G.SYM[form["sym"]]
            if mode2D and form["sym"] == "with_heading":
                doc = G.SYM["facing_o"]  # documented rewrite (docs/porting.rst)
            got = {
                "pri": {p: n for p, n in t["pri"].items() if not p.startswith("_")},
                "deps": t["deps"], "ismod": t["ismod"], "mod": t["mod"] if t["ismod"] else [],
            }
            # a ModifyingSpecifier that may modify nothing would be an ordinary one
            want = {"pri": doc["pri"], "deps": doc["deps"], "ismod": doc["ismod"], "mod": doc["mod"]}
            compared += 1
            ck.case(("table", mode2D, fid, cname), True)
            if got != want:
                diff = {x: {"documented": want[x], "code": got[x]} for x in want if want[x] != got[x]}
                ck.violation(
                    f"specifier form `{fid}` ({'2D' if mode2D else '3D'}, class {cname}) does not specify what the reference lists: {diff}",
                    {"property": "C06", "kind": "table", "form": fid, "section": form["section"], "mode2D": mode2D,
                     "documented": want, "code": got, "code_name": t["name"]},
                    known_key="table:" + fid.replace(" ", "_"),
                )
        # classes
        for cid, (cname, m2) in G.CLASS_TEXT.items():
            if m2 != mode2D:
                continue
            levels, order, finals, dynamics = classinfo[cname]
            proporders[cid] = [p for p in order]
            doc_levels = G.LEVELS[cid]
            code_by_name = {l["name"]: l["defs"] for l in levels}
            if [n for n, _d in doc_levels] != [l["name"] for l in levels]:
                ck.violation(
                    f"class {cid}: levels of the MRO differ from the documented hierarchy",
                    {"property": "C06", "kind": "class-levels", "class": cid, "documented": [n for n, _d in doc_levels],
                     "code": [l["name"] for l in levels]}, known_key="class:" + cid + ":levels")
                continue
            for lname, ddefs in doc_levels:
                cdefs = code_by_name[lname]
                docp = {d["p"]: d for d in ddefs}
                for p, d in docp.items():
                    compared += 1
                    ck.case(("class", cid, lname, p), bool(d["deps"]) or d["final"] or d["additive"])
                    c = cdefs.get(p)
                    want = {x: d[x] for x in ("deps", "additive", "final", "dynamic")}
                    if c and d["additive"] and c["additive"]:
                        # PropertyDefault.resolveFor unions the dependencies of the overridden
                        # additive defaults INTO the primary's own set (aliasing): anything between
                        # the documented dependencies and the union over all levels is the same table
                        union = set()
                        for _ln, dd in doc_levels:
                            for e in dd:
                                if e["p"] == p:
                                    union |= set(e["deps"])
                        if set(d["deps"]) <= set(c["deps"]) <= union:
                            c = dict(c, deps=d["deps"])
                    if c != want:
                        ck.violation(
                            f"class {cid}, level {lname}: default of `{p}` differs from the class documentation: documented {want}, code {c}",
                            {"property": "C06", "kind": "class-default", "class": cid, "level": lname, "prop": p,
                             "documented": want, "code": c}, known_key=f"class:{lname}:{p}")
                for p, c in cdefs.items():
                    if p in docp or p.startswith("_"):
                        continue
                    # not in the documented table: must be a plain constant, else the model misses an edge
                    if c["deps"] or c["additive"] or c["final"]:
                        ck.violation(
                            f"class {cid}, level {lname}: undocumented default `{p}` has dependencies/attributes {c}",
                            {"property": "C06", "kind": "class-default-undocumented", "class": cid, "level": lname,
                             "prop": p, "code": c}, known_key=f"class:{lname}:{p}")
    return proporders, compared


# --------------------------------------------------------------------------- cases


def default_source(cid, p):
    """(source, levelname) of the documented default of p for class cid: most derived level."""
    hits = [(name, d) for name, defs in G.LEVELS[cid] for d in defs if d["p"] == p]
    if not hits:
        return None
    if hits[0][1]["additive"]:
        return ["dadd"]
    return ["d", hits[0][0]]


def build_case(uni, rec, static_edges, salt):
    cinfo = uni["classes"][rec["c"] - 1]
    cid = cinfo["id"]
    word = [uni["specs"][s - 1]["id"] for s in rec["w"]]
    forms = G.choose_forms(cid, word, salt)
    if forms is None:
        return None
    mode2D = G.CLASS_TEXT[cid][1]
    classprops = {d["p"] for l in cinfo["levels"] for d in l["defs"]}
    eword = ["facing_o" if (mode2D and s == "with_heading") else s for s in word]
    specprops = set()
    for s in eword:
        specprops |= set(G.SYM[s]["pri"])
    mask = {}
    case = {"cid": cid, "word": word, "forms": [f["id"] for f in forms], "text": G.creation_text(cid, forms),
            "de": sorted(rec["de"]), "ie": rec["ie"], "diff": rec["diff"], "trig": rec["trig"], "mode2D": mode2D}

    def hyp(wlist):
        h = {}
        won = {p: (s, m) for p, s, m in wlist}
        for p in sorted(classprops | specprops):
            s, m = won.get(p, (0, -1))
            if s == 0:
                src = default_source(cid, p)
                if src is None:
                    continue
            else:
                src = s - 1
                f = forms[s - 1]
                if p in f["mask"] and m == -1:
                    mask[p] = f["mask"][p]
                if mode2D and eword[s - 1] in ("vis", "notvis") and p == "position":
                    mask[p] = "skip"
            h[p] = [src, (m - 1) if m > 0 else None]
        return h

    hyps = {}
    if not rec["de"]:
        hyps["decl"] = hyp(rec["dw"])
        # evaluation-order constraints: names as the helper reports them
        def nm(i, p):
            return (i - 1) if i > 0 else "d:" + p
        edges = [[nm(a, ap), nm(b, bp)] for a, ap, b, bp in rec["ed"]]
        defaulted = {p for p in classprops if p not in {q for q, s, _m in rec["dw"] if s != 0}}
        for a, b in static_edges.get(cid, []):
            if a[2:] in defaulted and b[2:] in defaulted:
                edges.append([a, b])
        case["edges"] = edges
    if rec["diff"] and not rec["ie"]:
        hyps["impl"] = hyp(rec["iw"])
    case["expect"] = {"hyps": hyps, "mask": mask}
    return case


def judge(case, r):
    """(agrees with Decl, agrees with Impl, explanation)."""
    if r is None:
        return None, None, "no result recorded"
    if r["status"] == "helper-error":
        return None, None, r.get("exc", "") + "\n" + r.get("tb", "")
    # ---- Decl
    if case["de"]:
        ok_decl = r["status"] == "exc" and r["kind"] in case["de"]
        why = "" if ok_decl else (
            f"reference: error of kind {case['de']}; code: " + (r.get("exc") if r["status"] == "exc" else "object created"))
    else:
        if r["status"] != "ok":
            ok_decl, why = False, f"reference: well-defined object; code raised {r.get('exc')}"
        else:
            bad = r["verdict"].get("decl", [])
            pos = {n: i for i, n in enumerate(r["order"])}
            bad_edges = [e for e in case["edges"]
                         if tuple(e) and not (e[0] in pos and e[1] in pos and pos[e[0]] < pos[e[1]])]
            ok_decl = not bad and not bad_edges
            why = ""
            if bad:
                why += "values differ from the winner's value in the final context: " + json.dumps(bad[:3])
            if bad_edges:
                why += f" evaluation order {r['order'][:12]} violates {bad_edges[:3]}"
    # ---- Impl (only meaningful when the machine differs from Decl)
    ok_impl = None
    if case["diff"]:
        if case["ie"]:
            ok_impl = r["status"] == "exc" and r["kind"] == case["ie"]
        else:
            ok_impl = r["status"] == "ok" and not r["verdict"].get("impl", [1])
    return ok_decl, ok_impl, why


def select_cases(recs, uni, tier, rnd):
    """Which emitted cases are replayed.  Always: all words of length <= 2 and every case where the
    machine differs from Decl or the trigger holds; thorough: also every case of the classes Object
    and K.  Of the remaining cases a seeded sample, stratified by (class, expected outcome:
    error kinds / some property contested by two specifiers / plain)."""
    if tier == "thorough":
        budget = int(os.environ.get("C06_THOROUGH_BUDGET", "9000"))
        full = tuple(os.environ.get("C06_THOROUGH_FULL", "Object,K").split(","))
    else:
        budget = int(os.environ.get("C06_QUICK_BUDGET", "3000"))
        full = ()
    must, rest = [], []
    for n, rec in enumerate(recs):
        if len(rec["w"]) <= 2 or rec["diff"] or rec["trig"] or uni["classes"][rec["c"] - 1]["id"] in full:
            must.append(n)
        else:
            rest.append(n)
    if len(rest) > budget:
        strata = {}
        for n in rest:
            rec = recs[n]
            contested = len({p for p, s, m in rec["dw"]}) < sum(len(uni["specs"][s - 1]["pri"]) for s in rec["w"])
            key = (rec["c"], "err:" + ",".join(sorted(rec["de"])) if rec["de"] else ("contested" if contested else "plain"))
            strata.setdefault(key, []).append(n)
        keys = sorted(strata, key=str)
        per = max(1, budget // len(keys))
        picked = []
        for key in keys:
            lst = strata[key]
            picked += rnd.sample(lst, min(per, len(lst)))
        rest = sorted(picked)
    return must + rest


# --------------------------------------------------------------------------- generic instance


def generic_universe():
    """Arbitrary priority tables over two contested properties (priorities 1..3), one modifier:
    documents for which shapes the ALGORITHM of the machine is order dependent."""
    specs = []
    for p in ("a", "b"):
        for n in (1, 2, 3):
            specs.append({"id": f"{p}{n}", "name": f"{p}{n}", "pri": [{"p": p, "n": n}], "deps": [], "ismod": False, "mod": [], "novec": False})
    specs.append({"id": "a2x", "name": "a2x", "pri": [{"p": "a", "n": 2}], "deps": [], "ismod": False, "mod": [], "novec": False})
    specs.append({"id": "a3x", "name": "a3x", "pri": [{"p": "a", "n": 3}], "deps": [], "ismod": False, "mod": [], "novec": False})
    # one modifying specifier (the reference knows only `on`): may modify a, also specifies b
    specs.append({"id": "m_a1b2", "name": "m", "pri": [{"p": "a", "n": 1}, {"p": "b", "n": 2}], "deps": [], "ismod": True, "mod": ["a"], "novec": False})
    cls = {"id": "G", "minlen": 0, "maxlen": 3, "alphabet": list(range(1, len(specs) + 1)), "rewrite": [],
           "levels": [{"name": "G", "defs": [{"p": "a", "deps": [], "additive": False, "final": False},
                                              {"p": "b", "deps": [], "additive": False, "final": False},
                                              {"p": "c", "deps": ["a"], "additive": False, "final": False}]}],
           "proporder": ["a", "b", "c"]}
    return {"specs": specs, "classes": [cls]}


def run_generic(ck):
    uni = generic_universe()
    path = os.path.join(scratch(), "c06_generic.json")
    with open(path, "w") as f:
        json.dump(uni, f)
    res = run_tlc("Specifiers", CFG.format(diffinv=""), env={"UNIVERSE": path, "C06_FULL": "0"}, timeout=600)
    ck.add_tlc("Specifiers(generic priority tables)", res)
    cats = {}
    example = {}
    for rec in res.outputs:
        if not rec["diff"]:
            continue
        word = [uni["specs"][s - 1]["id"] for s in rec["w"]]
        cat = "tie-below-winner" if rec["trig"] else "other (modifier at a non-modifiable tie / competing modifiers)"
        cats[cat] = cats.get(cat, 0) + 1
        example.setdefault(cat, {"word": word, "reference": rec["de"] or "ok", "machine": rec["ie"] or "ok"})
    ck.cov["generic_instance"] = {"words": len(res.outputs), "machine_differs_from_reference": cats, "examples": example}
    if not cats.get("tie-below-winner"):
        raise MachineryError("generic instance: the order-dependent shape {A:2, B:2, C:1} was not found")


# --------------------------------------------------------------------------- main


def main(tier):
    ck = Check("C06", tier, "model_checking")
    ck.cov["rule"] = (
        "a case is (class, word of documented specifier symbols): TLC enumerates every word (every sub-bag and every "
        "permutation) up to the class's length bound; each replayed case is one `new C <specifiers>` in a compiled "
        "Scenic program, with concrete forms/arguments rotated over the documented forms of each symbol; non-trivial = "
        "at least two specifiers, or an error outcome, or a specifier overriding a default that another default or "
        "specifier depends on; distinct by creation text.  Table-conformance comparisons are counted as evaluations too."
    )
    ck.assumptions += [
        "symbols/forms/classes are transcribed by hand from docs/reference/specifiers.rst, the class docstrings and "
        "docs/porting.rst (gen_specifiers.py); the printer symbol -> Scenic text is trusted glue",
        "which of several coexisting errors is reported, and the error message text, are don't-cares: the reference's "
        "outcome is a SET of admissible error kinds (conflict = same priority twice / same specifier twice / modified "
        "twice; final; cyclic; missing; onvector)",
        "values are compared by re-evaluating the winning source in the final context (joint sampling, abs tol 1e-6); "
        "the geometric meaning of a specifier's value is C07's subject, not checked here",
        "FlatRegion (a deterministic user-defined Region) stands for regions; `on <Object>` as a specifying "
        "specifier and 2D `visible`/`not visible` draw random points: only z / nothing of that position is compared",
        "properties starting with an underscore (_observingEntity, ...) are implementation details and ignored",
        "lazy (self.x) specifier arguments do not exist in Scenic 3 syntax; self-dependencies are exercised through "
        "class defaults (foo: self.bar + 1, final lim, additive tag, length depending on position)",
    ]
    rnd = random.Random(seed() * 104729 + 6)

    # ---- (1) table conformance, and the order of the real default tables (grain for the machine)
    proporders, ncmp = table_conformance(ck)
    ck.cov["table_comparisons"] = ncmp
    # fork the replay workers NOW (<= 6, as common.pmap does), while this process is still small:
    # forking after TLC's output has been parsed makes every worker copy-on-write fault through
    # the parent's heap (measured: 1.4x slower, sys time dominated)
    import multiprocessing as mp

    pool = mp.get_context("fork").Pool(6)

    # ---- (2) TLC
    uni = G.universe(tier, proporders)
    upath = os.path.join(scratch(), "c06_universe.json")
    with open(upath, "w") as f:
        json.dump(uni, f)
    res = run_tlc("Specifiers", CFG.format(diffinv="INVARIANT DiffExplained"), env={"UNIVERSE": upath, "C06_FULL": "0"},
                  coverage=False, timeout=2400)
    ck.add_tlc("Specifiers(documented table)", res)
    recs = res.outputs
    if not recs:
        raise MachineryError("TLC printed no cases")
    expected_words = 0
    for c in uni["classes"]:
        a = len(c["alphabet"])
        expected_words += sum(a ** n for n in range(c["minlen"], c["maxlen"] + 1))
    if len(recs) != expected_words:
        raise MachineryError(f"TLC printed {len(recs)} cases, expected {expected_words}")
    ndiff = sum(1 for r in recs if r["diff"])
    nerr = sum(1 for r in recs if r["de"])
    kinds = {}
    for r in recs:
        for e in r["de"]:
            kinds[e] = kinds.get(e, 0) + 1
    ck.cov["tlc_cases"] = len(recs)
    ck.cov["tlc_error_cases_by_kind"] = kinds
    ck.cov["tlc_machine_differs_from_reference"] = ndiff
    vacuity = not G.restricted()
    if ndiff == 0 and vacuity:
        raise MachineryError("the as-implemented machine never differs from the reference: deviation not modelled")
    for need in ("conflict", "final", "cyclic", "missing", "onvector"):
        if vacuity and not kinds.get(need):
            raise MachineryError(f"vacuous model: no case with documented error kind {need}")
    if vacuity and not any(m > 0 for r in recs for _p, _s, m in r["dw"]):
        raise MachineryError("vacuous model: no case with a modified property")
    # order (in)dependence of the machine, grouped by bag
    bags = {}
    for r in recs:
        if r["ie"]:
            out = ("err", r["ie"])
        else:
            # name sources by symbol so that permutations are comparable
            w = r["w"]
            out = ("ok", tuple(sorted((p, w[s - 1] if s > 0 else 0, w[m - 1] if m > 0 else -1)
                                      for p, s, m in (r["iw"] or r["dw"]))))
        bags.setdefault((r["c"], tuple(sorted(r["w"]))), set()).add(out)
    ck.cov["bags"] = len(bags)
    ck.cov["bags_where_machine_is_order_dependent"] = sum(1 for v in bags.values() if len(v) > 1)

    run_generic(ck)

    # ---- (3) replay
    static_edges = {}
    for r in recs:
        if not r["w"]:
            cid = uni["classes"][r["c"] - 1]["id"]
            static_edges[cid] = [["d:" + ap, "d:" + bp] for a, ap, b, bp in r["ed"] if a == 0 and b == 0]
    chosen = select_cases(recs, uni, tier, rnd)
    cases = {}
    dropped = 0
    for n in chosen:
        c = build_case(uni, recs[n], static_edges, salt=n + seed())
        if c is None:
            dropped += 1
            continue
        cases[n] = c
    ck.cov["dropped_by_generator"] = dropped
    ck.cov["replayed_cases"] = len(cases)
    by_mode = {False: [], True: []}
    for n, c in cases.items():
        by_mode[c["mode2D"]].append((n, c["text"], c["expect"]))
    chunk = 400
    items = []
    for m, lst in by_mode.items():
        for i in range(0, len(lst), chunk):
            items.append((m, lst[i : i + chunk]))
    t0 = time.time()
    try:
        results = pool.map(run_chunk, items, chunksize=1)
    finally:
        pool.close()
        pool.join()
    ck.cov["replay_wall_s"] = round(time.time() - t0, 1)
    allres = {}
    for it, rr in zip(items, results):
        if "error" in rr:
            raise MachineryError(f"replay program failed as a whole: {rr['error']}\n{rr.get('tb')}")
        allres.update(rr)

    helper_errors = []
    pool = {}
    used_forms = set()
    stats = {"agree": 0, "known": 0, "violations": 0, "errors_observed": 0}
    for n, case in cases.items():
        r = allres.get(n)
        ok_decl, ok_impl, why = judge(case, r)
        if ok_decl is None:
            helper_errors.append((case["text"], why))
            continue
        used_forms.update(case["forms"])
        nontrivial = len(case["word"]) >= 2 or bool(case["de"])
        ck.case(case["text"] + "|" + case["cid"], nontrivial)
        if r["status"] == "exc":
            stats["errors_observed"] += 1
        if ok_decl:
            ck.validated(1)
            stats["agree"] += 1
            if len(case["word"]) >= 2:
                if case["de"]:
                    cat = "error:" + ",".join(case["de"])
                elif any(v[1] is not None for v in case["expect"]["hyps"]["decl"].values()):
                    cat = "ok:modified"
                elif case["cid"] in ("K", "K2D"):
                    cat = "ok:userclass"
                else:
                    cat = "ok"
                if cat not in pool:
                    pool[cat] = {"class": case["cid"], "creation": case["text"], "symbols": case["word"],
                                 "reference": ({"error_kinds": case["de"]} if case["de"] else
                                               {"winners(property: [position in written order, modifier])":
                                                {p: v for p, v in case["expect"]["hyps"]["decl"].items() if isinstance(v[0], int)},
                                                "order_constraints": [e for e in case["edges"] if isinstance(e[0], int) or isinstance(e[1], int)][:10]}),
                                 "code": r.get("exc") or {"evaluation_order": [x for x in r["order"]][:12],
                                                          "values": {p: r["observed"].get(p) for p in list(r["observed"])[:5]}}}
            continue
        replay = {"property": "C06", "class": case["cid"], "creation": case["text"], "symbols": case["word"],
                  "forms": case["forms"], "reference_errors": case["de"], "reference": case["expect"]["hyps"].get("decl"),
                  "order_constraints": case.get("edges"), "as_implemented": case["ie"] or case["expect"]["hyps"].get("impl"),
                  "machine_differs": case["diff"], "TieBelowWinner": case["trig"], "observed": r, "why": why,
                  "mode2D": case["mode2D"]}
        known = KNOWN_KEY if (case["diff"] and case["trig"] and ok_impl) else None
        if ck.violation(f"`{case['text']}`: {why}", replay, known_key=known):
            stats["violations"] += 1
        else:
            stats["known"] += 1
            ck.validated(1)  # validated against the named as-implemented deviation
            ck.sample({"known_finding": KNOWN_KEY, "creation": case["text"], "reference": "error " + str(case["de"]),
                       "code": r.get("exc") or "object created"}, limit=2)
    for cat in ("ok:modified", "ok:userclass", "error:cyclic", "ok", "error:conflict", "error:missing", "error:final", "error:onvector"):
        if cat in pool:
            ck.sample(pool[cat], limit=8)
    if helper_errors:
        raise MachineryError(f"{len(helper_errors)} replayed cases could not be evaluated by the helper, first: {helper_errors[0]}")
    ck.cov["replay"] = stats
    all_forms = {f["id"] for f in G.FORMS}
    ck.cov["forms_documented"] = len(all_forms)
    ck.cov["forms_exercised_in_replay"] = len(used_forms)
    ck.cov["exhaustive"] = False
    ck.cov["explanation"] = (
        "TLC: exhaustive over all words up to the bound per class (sub-bags x permutations); replay: all words of "
        "length <= 2, all deviating/trigger cases, "
        + ("all cases of the classes Object and K, " if tier == "thorough" else "")
        + "and a stratified seeded sample of the remaining longer words"
    )
    return ck.finish()


def replay(path):
    """Re-run the creation recorded in a replay file and print what the code does now."""
    rep = json.load(open(path))
    if rep.get("kind"):
        print(json.dumps(rep, indent=1))
        return 0
    out = run_chunk((rep.get("mode2D", False), [(0, rep["creation"], {"hyps": {k: v for k, v in (("decl", rep.get("reference")),) if v}})]))
    print(json.dumps({"creation": rep["creation"], "reference_errors": rep["reference_errors"], "now": out.get(0)}, indent=1, default=str))
    return 0


if __name__ == "__main__":
    sys.exit(main(sys.argv[1] if len(sys.argv) > 1 else "quick"))
