"""C06 helper imported by the generated Scenic programs (`import c06_helper as H`).

Nothing here is a hook in /repo: the generated program announces every case with `H.begin(k)`
followed by the statement `new C <specifiers>`, and the harness wraps, *from outside and only
while a replay program is being compiled*, three entry points to observe what the property talks
about:

  scenic.syntax.veneer.new             -> the creation of the case: its object or its exception
                                          is recorded (and the exception swallowed, so that one
                                          program can hold thousands of creations)
  Constructible._resolveSpecifiers     -> captures the Specifier objects actually resolved
                                          (after `_prepareSpecifiers`, i.e. after the 2D rewrite)
  Specifier.getValuesFor               -> logs the evaluation order of the specifiers

`FlatRegion` is a deterministic user-defined Region (Region is an extensible base class): its
"uniform" point is a fixed point and its projection is a fixed shift, so every source of
`position` yields a distinguishable, reproducible value.
"""

import math

from scenic.core.regions import Region
from scenic.core.vectors import Orientation, Vector


class Done(Exception):
    """Raised by the last line of a replay program: everything has been recorded, the scenario
    itself (validation, pruning) is not needed."""


class FlatRegion(Region):
    def __init__(self, name, point, shift, orientation=None):
        super().__init__(name, orientation=orientation)
        self.point = Vector(*point)
        self.shift = Vector(*shift)

    def uniformPointInner(self):
        return self.point

    def containsPoint(self, p):
        return True

    def containsObject(self, o):
        return True

    def containsRegionInner(self, r, tolerance):
        return True

    def distanceTo(self, p):
        return 0

    def projectVector(self, point, onDirection):
        return Vector(*point) + self.shift

    @property
    def AABB(self):
        return ((-1e4, -1e4, -1e4), (1e4, 1e4, 1e4))

    @property
    def dimensionality(self):
        return 3

    @property
    def size(self):
        return 1

    def isEquivalentTo(self, other):
        return self is other

    def __repr__(self):
        return f"FlatRegion({self.name})"


# ----------------------------------------------------------------------------- recording

EXPECT = {}  # case id -> expectation dict set by the harness before compiling
RESULTS = {}  # case id -> result dict (plain data)
_cur = {"k": None, "armed": False, "depth": 0, "cls": None, "specs": None, "order": None}
_orig = {}


def install():
    """Wrap the three observation points (idempotent)."""
    if _orig:
        return
    import scenic.syntax.veneer as veneer
    from scenic.core.object_types import Constructible
    from scenic.core.specifiers import Specifier

    _orig["new"] = veneer.new
    _orig["resolve"] = Constructible.__dict__["_resolveSpecifiers"]
    _orig["getValuesFor"] = Specifier.getValuesFor
    orig_new = veneer.new
    orig_resolve = _orig["resolve"].__func__
    orig_gvf = Specifier.getValuesFor

    def new(cls, specifiers):
        # the creation of the current case: record the object or the exception, never propagate
        if _cur["k"] is not None and not _cur["armed"] and _cur["specs"] is None:
            k = _cur["k"]
            _cur["armed"] = True
            try:
                obj = orig_new(cls, specifiers)
            except Exception as e:
                _cur["armed"] = False
                fail(k, e)
                return None
            _cur["armed"] = False
            ok(k, obj)
            return obj
        return orig_new(cls, specifiers)

    def _resolveSpecifiers(cls, specifiers, defaults=None, overriding=False):
        specifiers = list(specifiers)
        top = _cur["armed"] and _cur["depth"] == 0 and _cur["specs"] is None
        if top:
            _cur["cls"] = cls
            _cur["specs"] = list(specifiers)
            _cur["order"] = []
        _cur["depth"] += 1
        try:
            return orig_resolve(cls, specifiers, defaults=defaults, overriding=overriding)
        finally:
            _cur["depth"] -= 1

    def getValuesFor(self, obj):
        if _cur["armed"] and _cur["depth"] == 1 and _cur["order"] is not None:
            _cur["order"].append(self)
        return orig_gvf(self, obj)

    veneer.new = new
    Constructible._resolveSpecifiers = classmethod(_resolveSpecifiers)
    Specifier.getValuesFor = getValuesFor


def uninstall():
    if not _orig:
        return
    import scenic.syntax.veneer as veneer
    from scenic.core.object_types import Constructible
    from scenic.core.specifiers import Specifier

    veneer.new = _orig["new"]
    Constructible._resolveSpecifiers = _orig["resolve"]
    Specifier.getValuesFor = _orig["getValuesFor"]
    _orig.clear()


CONSTS = {}  # hoisted tuple literals of the current program (name -> tuple)


def begin(k):
    _cur.update(k=k, armed=False, depth=0, cls=None, specs=None, order=None)


def current():
    return _cur["k"]


def kind_of(e):
    """Category of an exception raised by an object creation (message categories of
    SpecifierError; anything else by class name)."""
    from scenic.core.errors import SpecifierError

    msg = str(e)
    if isinstance(e, SpecifierError):
        if "specified twice" in msg or "to modify itself" in msg or "modified twice" in msg:
            return "conflict"
        if "cannot be directly specified" in msg:
            return "final"
        if "depends on itself" in msg:
            return "cyclic"
        if "is not specified" in msg and "required by" in msg:
            return "missing"
        return "SpecifierError:other"
    if isinstance(e, TypeError) and 'modifying "on V"' in msg:
        return "onvector"
    return type(e).__name__


def fail(k, e):
    res = {"status": "exc", "kind": kind_of(e), "exc": f"{type(e).__name__}: {e}"[:300]}
    if _cur["specs"] is not None:
        res["table"] = _spec_table(_cur["specs"])
    RESULTS[k] = res
    begin(None)


# ----------------------------------------------------------------------------- values


def plain(v):
    """Plain, comparable data for a sampled property value."""
    import numbers

    import numpy

    if v is None or isinstance(v, (bool, str)):
        return v
    if isinstance(v, Vector):
        return ["V"] + [float(c) for c in v.coordinates]
    if isinstance(v, Orientation):
        q = [float(c) for c in v.q]
        # q and -q are the same rotation: normalise the sign
        for c in q:
            if abs(c) > 1e-9:
                if c < 0:
                    q = [-x for x in q]
                break
        return ["O"] + q
    if isinstance(v, numbers.Real) or isinstance(v, numpy.generic):
        return float(v)
    if isinstance(v, Region):
        return ["R", getattr(v, "name", None) or type(v).__name__, id(v)]
    if isinstance(v, (tuple, list)):
        return ["T"] + [plain(x) for x in v]
    return ["X", type(v).__name__, id(v)]


def same(a, b, tol=1e-6):
    if isinstance(a, float) and isinstance(b, float):
        return abs(a - b) <= tol
    if isinstance(a, bool) or isinstance(b, bool):
        return a is b
    if isinstance(a, (int, float)) and isinstance(b, (int, float)):
        return abs(a - b) <= tol
    if isinstance(a, list) and isinstance(b, list):
        return len(a) == len(b) and all(same(x, y, tol) for x, y in zip(a, b))
    return a == b


def _spec_table(specs):
    from scenic.core.specifiers import ModifyingSpecifier

    out = []
    for s in specs:
        out.append(
            {
                "name": s.name,
                "pri": {p: int(q) for p, q in s.priorities.items()},
                "deps": sorted(s.requiredProperties),
                "ismod": isinstance(s, ModifyingSpecifier),
                "mod": sorted(getattr(s, "modifiable_props", ())),
            }
        )
    return out


def _level_defaults(cls, prop):
    """The raw defaults of `prop` along the MRO, most derived first: [(level index, PropertyDefault)]."""
    from scenic.core.object_types import Constructible
    from scenic.core.specifiers import PropertyDefault

    out = []
    lvl = 0
    for sc in cls.__mro__:
        if isinstance(sc, type) and issubclass(sc, Constructible) and "_scenic_properties" in sc.__dict__:
            lvl += 1
            if prop in sc._scenic_properties:
                out.append((lvl, sc.__name__, PropertyDefault.forValue(sc._scenic_properties[prop])))
    return out


def class_levels(cls):
    """Level names of cls (classes of the MRO that define Scenic properties), most derived first,
    with for every property its dependencies and attributes (table conformance of classes)."""
    from scenic.core.object_types import Constructible
    from scenic.core.specifiers import PropertyDefault

    levels = []
    for sc in cls.__mro__:
        if isinstance(sc, type) and issubclass(sc, Constructible) and "_scenic_properties" in sc.__dict__:
            defs = {}
            for prop, raw in sc._scenic_properties.items():
                pd = PropertyDefault.forValue(raw)
                defs[prop] = {
                    "deps": sorted(pd.requiredProperties),
                    "additive": bool(pd.isAdditive),
                    "final": bool(pd.isFinal),
                    "dynamic": bool(pd.isDynamic),
                }
            levels.append({"name": sc.__name__, "defs": defs})
    return levels


def _context(props, drop=(), override=None):
    from scenic.core.lazy_eval import LazilyEvaluable

    d = {p: v for p, v in props.items() if p not in drop}
    if override:
        d.update(override)
    return LazilyEvaluable.makeContext(**d)


def _normalise(cls, prop, value):
    """What Constructible._specify stores for this value (type normalisation only)."""
    from scenic.core.distributions import toDistribution
    from scenic.core.lazy_eval import LazilyEvaluable

    ctx = LazilyEvaluable.makeContext()
    cls._specify(ctx, prop, toDistribution(value))
    return getattr(ctx, prop)


def _value_from(cls, specs, props, prop, src, mod):
    """Expression for `prop` if it is supplied by source `src` (int position in the written
    order, or ["d", level] / ["dadd"] for a class default) and then modified by `mod`
    (position or None), everything evaluated in the FINAL context `props`."""
    gvf = _orig["getValuesFor"]
    if isinstance(src, int):
        s = specs[src]
        ctx = _context(props, drop=set(s.priorities))
        val = gvf(s, ctx)[prop]
    else:
        levels = _level_defaults(cls, prop)
        ctx = _context(props, drop={prop})
        if src[0] == "dadd":
            val = tuple(pd.value(ctx) for _l, _n, pd in levels)
        else:
            cand = [pd for _l, n, pd in levels if n == src[1]]
            if not cand:
                raise KeyError(f"no default for {prop} at level {src[1]}")
            val = cand[0].value(ctx)
    val = _normalise(cls, prop, val)
    if mod is not None:
        m = specs[mod]
        ctx = _context(props, drop=set(m.priorities) - {prop}, override={prop: val})
        val = _normalise(cls, prop, gvf(m, ctx)[prop])
    return val


def ok(k, obj):
    """Record a successful creation: the specifier table, the evaluation order, and for each
    hypothesis of EXPECT[k] (the spec's declarative outcome and, when different, the
    as-implemented outcome) whether the final values are the ones it predicts."""
    from scenic.core.distributions import Samplable, needsSampling, toDistribution

    specs, order, cls = _cur["specs"], _cur["order"], _cur["cls"]
    exp = EXPECT.get(k, {})
    res = {"status": "ok"}
    try:
        if specs is None:
            raise RuntimeError("creation was not observed (no _resolveSpecifiers call)")
        res["table"] = _spec_table(specs)
        res["cls"] = cls.__name__
        res["nprops"] = len(obj.properties)
        # evaluation order, as source names: position in the written order or "d:<prop>"
        ids = {id(s): i for i, s in enumerate(specs)}
        dids = {id(s): p for p, s in cls._defaults.items()}
        names = []
        for s in order:
            if id(s) in ids:
                names.append(ids[id(s)])
            elif id(s) in dids:
                names.append("d:" + dids[id(s)])
            else:
                names.append("?")
        res["order"] = names
        props = {p: getattr(obj, p) for p in obj.properties}
        res["props"] = sorted(p for p in props if not p.startswith("_"))
        hyps = exp.get("hyps", {})
        exprs = {}
        errors = {}
        for hname, hyp in hyps.items():
            for prop, (src, mod) in hyp.items():
                key = (prop, repr(src), mod)
                if key in exprs or key in errors:
                    continue
                if prop not in props:
                    errors[key] = "property absent from the object"
                    continue
                try:
                    exprs[key] = toDistribution(_value_from(cls, specs, props, prop, src, mod))
                except Exception as e:  # the hypothesis cannot even be evaluated
                    errors[key] = f"{type(e).__name__}: {e}"[:200]
        quantities = [obj] + [e for e in exprs.values() if needsSampling(e)]
        sample = Samplable.sampleAll(quantities)
        sobj = sample[obj]
        observed = {}
        verdict = {}
        for hname, hyp in hyps.items():
            bad = []
            for prop, (src, mod) in hyp.items():
                key = (prop, repr(src), mod)
                if key in errors:
                    bad.append([prop, src, mod, "unevaluable: " + errors[key], None])
                    continue
                e = exprs[key]
                want = plain(sample[e] if needsSampling(e) else e)
                got = plain(getattr(sobj, prop))
                observed[prop] = got
                mask = exp.get("mask", {}).get(prop)
                if mask == "skip":
                    continue
                if mask == "z" and isinstance(want, list) and isinstance(got, list):
                    want, got = want[-1:], got[-1:]
                if not same(want, got):
                    bad.append([prop, src, mod, want, got])
            verdict[hname] = bad
        res["verdict"] = verdict
        res["observed"] = observed
    except Exception as e:
        import traceback

        res = {"status": "helper-error", "exc": f"{type(e).__name__}: {e}", "tb": traceback.format_exc()[-1500:]}
    RESULTS[k] = res
    begin(None)
