"""C07 -- built-in specifiers and operators have their documented geometric meaning.

Spec: spec/GeomSpec.tla over spec/lib/Lat3.tla: one TLA+ definition per documented construct (the six
directional specifiers for vector / OrientedPoint / Object targets, beyond, offset by, offset along,
relative to, the facing family, the eighteen `... of Object` operators, distance / angle / altitude /
relative heading / apparent heading).  TLC evaluates every generated case, checks the frame lemmas
(gap between bounding boxes, line-of-sight frames, side points on the box, norms) and prints the
expected position / rotation MATRIX / angle / squared distance.

Binding (M1 replay): each case is created inside a compiled Scenic program (many cases per program,
nothing random, one scenario.generate()), and position, orientation (as a matrix) and operator values
are compared with the lattice values, absolute tolerance 1e-6."""

import json
import math
import os
import random
import sys

from common import Check, MachineryError, pmap, run_tlc, scratch, seed
import lat3
from lat3 import qv

TOL = 1e-6

CFG = """SPECIFICATION Spec
INVARIANT WellFormedResult
INVARIANT ConstructLemmas
INVARIANT DeviationScoped
INVARIANT Emit
CHECK_DEADLOCK FALSE
"""

ID = [1, 0, 1]  # the zero angle as a unit triple
DIRS = ["left", "right", "ahead", "behind", "above", "below"]
DIR_SYNTAX = {"left": "left of", "right": "right of", "ahead": "ahead of", "behind": "behind", "above": "above", "below": "below"}
SIDES = ["front", "back", "left", "right", "top", "bottom", "front left", "front right", "back left", "back right",
         "top front left", "top front right", "top back left", "top back right",
         "bottom front left", "bottom front right", "bottom back left", "bottom back right"]
POSITIONS = [(5, -3, 2), (-4, 6, 3), (2.5, 7, -4.5)]  # none at the origin
PYTH_YAWS = [[3, 4, 5], [-4, 3, 5], [5, -12, 13]]
# horizontal Pythagorean directions (quarter units): (x, y, nxy)
HDIRS = [(0, 20, 20), (-20, 0, 20), (12, 16, 20), (-16, 12, 20), (16, -12, 20), (-12, -16, 20), (20, 48, 52)]
# full 3D directions with integer horizontal norm and norm: (x, y, z, nxy, n)
DDIRS = [(12, 16, 0, 20, 20), (0, 12, 16, 12, 20), (3, 4, 12, 5, 13), (-4, 3, -12, 5, 13), (-12, 0, 16, 12, 20), (0, -20, 0, 20, 20), (16, 12, 15, 20, 25)]
QUARTER = {0: [1, 0, 1], 1: [0, 1, 1], 2: [-1, 0, 1], 3: [0, -1, 1]}


def orient(e=(0, 0, 0), yq=(1, 0, 1)):
    return {"yq": list(yq), "e": list(e)}


def pose(p, e=(0, 0, 0), yq=(1, 0, 1)):
    return {"p": qv(p), "yq": list(yq), "e": list(e)}


# ------------------------------------------------------------------ printing (the trusted glue)


def fv(v4):
    return "(" + ", ".join(repr(c / lat3.SCALE) for c in v4) + ")"


def fo(o):
    return "(" + ", ".join(repr(a) for a in lat3.euler_rad(o["yq"], o["e"])) + ")"


def fh(t):
    return repr(math.atan2(t[1], t[0]))


def dims_txt(d4):
    return f"with width {d4[0] / lat3.SCALE}, with length {d4[1] / lat3.SCALE}, with height {d4[2] / lat3.SCALE}"


def own_txt(e):
    names = ("yaw", "pitch", "roll")
    return "".join(f", with {n} {lat3.quarter_angle(k)!r}" for n, k in zip(names, e) if k % 4)


COMMON = "with allowCollisions True"


def tag(i):
    return f", with caseId {i}"


def obj_line(name, ps, d4=(4, 4, 4)):
    return f"{name} = new Object at {fv(ps['p'])}, facing {fo(ps)}, {dims_txt(d4)}, {COMMON}"


def op_line(name, ps):
    return f"{name} = new OrientedPoint at {fv(ps['p'])}, facing {fo(ps)}"


def scenic_lines(c):
    """-> (lines, kind of observation): 'obj' (the last created Object is the new one) or 'param'."""
    i, k = c["id"], c["kind"]
    L = []
    if k == "dir":
        if c["by"] == "scalar":
            d = c["D"] / lat3.SCALE
            by = f" by {int(d) if c['dtxt'] == 'int' and d == int(d) else d}"
        elif c["by"] == "vector":
            by = f" by {fv(c['V'])}"
        else:
            by = ""
        # the new object's contactTolerance: lattice part + off-lattice remainder; ctmicro = 10 alone is the class default (not written)
        ct = "" if (c["ct"] == 0 and c["ctmicro"] == 10) else f", with contactTolerance {c['ct'] / lat3.SCALE + c['ctmicro'] * 1e-5}"
        new = f"{dims_txt(c['ndim'])}{ct}{own_txt(c['own'])}, {COMMON}"
        if c["tk"] == "obj":
            rct = f", with contactTolerance {c['rct']}" if c.get("rct") else ""
            L.append(obj_line(f"r{i}", c["ref"], c["rdim"]) + rct)
            L.append(f"c{i} = new Object {DIR_SYNTAX[c['sub']]} r{i}{by}, {new}{tag(i)}")
        elif c["tk"] == "op":
            L.append(op_line(f"r{i}", c["ref"]))
            L.append(f"c{i} = new Object {DIR_SYNTAX[c['sub']]} r{i}{by}, {new}{tag(i)}")
        else:
            L.append(f"c{i} = new Object {DIR_SYNTAX[c['sub']]} {fv(c['ref']['p'])}{by}, with parentOrientation {fo(c['par'])}, {new}{tag(i)}")
        return L, "obj"
    if k == "beyond":
        by = repr(c["D"] / lat3.SCALE) if c["by"] == "scalar" else fv(c["V"])
        if c["fromk"] == "vec":
            frm = f" from {fv(c['from']['p'])}"
        elif c["fromk"] == "op":
            L.append(op_line(f"r{i}", c["from"]))
            frm = f" from r{i}"
        elif c["fromk"] == "obj":
            L.append(obj_line(f"r{i}", c["from"]))
            frm = f" from r{i}"
        else:
            L.append(obj_line("ego", c["from"]))
            frm = ""
        L.append(f"c{i} = new Object beyond {fv(c['p1'])} by {by}{frm}{own_txt(c['own'])}, {COMMON}{tag(i)}")
        return L, "obj"
    if k == "offsetby":
        L.append(obj_line("ego", c["ego"]))
        L.append(f"c{i} = new Object offset by {fv(c['V'])}{own_txt(c['own'])}, {COMMON}{tag(i)}")
        return L, "obj"
    if k == "offsetalong":
        L.append(obj_line("ego", c["ego"]))
        d = fh(c["dir"]["yq"]) if c["dirk"] == "heading" else fo(c["dir"])
        L.append(f"c{i} = new Object offset along {d} by {fv(c['V'])}{own_txt(c['own'])}, {COMMON}{tag(i)}")
        return L, "obj"
    if k == "relvv":
        w = "relative to" if c["form"] == 0 else "offset by"
        L.append(f"param c{i} = {fv(c['V'])} {w} {fv(c['V2'])}")
        return L, "param"
    if k == "relvop":
        L.append(obj_line(f"r{i}", c["ref"]) if c["refk"] == "obj" else op_line(f"r{i}", c["ref"]))
        L.append(f"param c{i} = " + (f"{fv(c['V'])} relative to r{i}" if c["form"] == 0 else f"r{i} offset by {fv(c['V'])}"))
        return L, "param"
    if k == "relhh":
        L.append(f"param c{i} = ({fh(c['h1'])}) relative to ({fh(c['h2'])})")
        return L, "param"
    if k == "reloo":
        L.append(op_line(f"ra{i}", dict(c["o1"], p=[4, 4, 4])))
        L.append(op_line(f"rb{i}", dict(c["o2"], p=[8, 4, 4])))
        L.append(f"param c{i} = ra{i}.orientation relative to rb{i}.orientation")
        return L, "param"
    if k == "facing":
        par = f", with parentOrientation {fo(c['par'])}"
        at = f"new Object at {fv(c['pos'])}"
        if c["sub"] == "orient":
            tgt = fh(c["target"]["yq"]) if c["targetk"] == "heading" else fo(c["target"])
            L.append(f"c{i} = {at}, facing {tgt}{par}, {COMMON}{tag(i)}")
        elif c["sub"] == "apparent":
            if c["fromk"] == "ego":
                L.append(obj_line("ego", {"p": c["from"], "yq": [1, 0, 1], "e": [0, 0, 0]}))
                frm = ""
            else:
                frm = f" from {fv(c['from'])}"
            L.append(f"c{i} = {at}, apparently facing {fh(c['H'])}{frm}{par}, {COMMON}{tag(i)}")
        else:
            w = {"toward": "facing toward", "away": "facing away from", "dtoward": "facing directly toward", "daway": "facing directly away from"}[c["sub"]]
            L.append(f"c{i} = {at}, {w} {fv(c['T'])}{par}, {COMMON}{tag(i)}")
        return L, "obj"
    if k == "side":
        L.append(obj_line(f"r{i}", c["ref"], c["rdim"]))
        L.append(f"param c{i} = {c['sub']} of r{i}")
        return L, "param"
    if k in ("distance", "angle", "altitude"):
        if c["fromk"] == "ego":
            L.append(obj_line("ego", {"p": c["X"], "yq": [1, 0, 1], "e": [0, 0, 0]}))
            L.append(f"param c{i} = {k} to {fv(c['Y'])}")
        else:
            L.append(f"param c{i} = {k} from {fv(c['X'])} to {fv(c['Y'])}")
        return L, "param"
    if k == "relhead":
        L.append(f"param c{i} = relative heading of ({fh(c['h1'])}) from ({fh(c['h2'])})")
        return L, "param"
    if k == "apphead":
        L.append(op_line(f"r{i}", c["ref"]))
        L.append(f"param c{i} = apparent heading of r{i} from {fv(c['from'])}")
        return L, "param"
    if k == "facep":
        if c["fk"] == "field":
            L.append(f'vf{i} = VectorField("vf{i}", lambda pos: {fo(c["fa"])} if pos.x > 0.125 else {fo(c["fb"])})')
            facing = f"facing vf{i}"
        else:
            facing = f"facing {fo(c['fa'])}"
        new = f"{dims_txt(c['ndim'])}, with contactTolerance {c['ct'] / lat3.SCALE}, {COMMON}{tag(i)}"
        pm = c["pm"]
        if pm == "with":
            L.append(f"c{i} = new Object at {fv(c['base'])}, {facing}, with parentOrientation {fo(c['par'])}, {new}")
        elif pm == "ahead":
            L.append(op_line(f"r{i}", dict(c["par"], p=c["base"])))
            L.append(f"c{i} = new Object ahead of r{i} by {c['D'] / lat3.SCALE}, {facing}, {new}")
        elif pm == "offsetby":
            L.append(obj_line("ego", dict(c["par"], p=c["base"])))
            L.append(f"c{i} = new Object offset by {fv(c['V'])}, {facing}, {new}")
        else:
            L.append(f'gf{i} = VectorField("gf{i}", lambda pos: {fo(c["par"])})')
            L.append(f'reg{i} = PointSetRegion("reg{i}", [{fv(c["base"])}], orientation=gf{i})')
            L.append(f"c{i} = new Object {pm} reg{i}, {facing}, {new}")
        return L, "obj"
    if k == "on":
        new = f"{dims_txt(c['ndim'])}, with contactTolerance {c['ct'] / lat3.SCALE}{own_txt(c['own'])}, {COMMON}{tag(i)}"
        if c["bo"] != [0, 0, -(c["ndim"][2] // 2)]:
            new += f", with baseOffset {fv(c['bo'])}"
        od = f", with onDirection {tuple(c['dir'])}" if c["dirk"] == "given" else ""
        if c["rk"] == "vec":
            L.append(f"c{i} = new Object on {fv(c['P'])}, {new}")
            return L, "obj"
        if c["rk"] == "hollow":
            b = c["boxes"][0]
            dims = tuple((b["hi"][j] - b["lo"][j]) / lat3.SCALE for j in range(3))
            ctr = tuple((b["hi"][j] + b["lo"][j]) / (2 * lat3.SCALE) for j in range(3))
            L.append(f"reg{i} = BoxRegion(dimensions={dims}, position={ctr}).getSurfaceRegion()")
        elif c["rk"] == "stack":
            parts = []
            for b in c["boxes"]:
                dims = tuple((b["hi"][j] - b["lo"][j]) / lat3.SCALE for j in range(3))
                ctr = tuple((b["hi"][j] + b["lo"][j]) / (2 * lat3.SCALE) for j in range(3))
                parts.append(f"trimesh.creation.box({dims}, trimesh.transformations.translation_matrix({ctr}))")
            L.append(f"reg{i} = MeshVolumeRegion(trimesh.util.concatenate([{', '.join(parts)}]), centerMesh=False)")
        else:
            L.append(obj_line(f"reg{i}", c["ref"], c["rdim"]))
        L.append(f"c{i} = new Object at {fv(c['P'])}, on reg{i}{od}, {new}")
        return L, "obj"
    if k == "ori":
        return [], "api"
    raise MachineryError(f"no printer for kind {k}")


# ------------------------------------------------------------------ generator


def generate(tier, rng):
    cases = []
    for _rep in range(1 if tier == "quick" else 3):  # thorough: three independent passes over the cross product
        _generate_pass(tier, rng, cases)
    return cases


def _generate_pass(tier, rng, cases):

    def add(**kw):
        kw["id"] = len(cases) + 1
        if kw.get("kind") == "on":
            kw.setdefault("bo", [0, 0, -(kw["ndim"][2] // 2)])   # default baseOffset: the bottom centre
        cases.append(kw)

    cube = [list(e) for e in lat3.EULER_CANON]

    def some_orients(n, pyth=1):
        """n cube rotations (always including a few fixed non-trivial ones) plus `pyth` Pythagorean yaws"""
        if tier == "thorough" or n >= 24:
            out = [orient(e) for e in cube]
        else:
            fixed = [cube[0], cube[4], cube[17], cube[9]]  # identity, yaw 90, yaw 90 + pitch 90, yaw 180 + roll 90
            rest = [e for e in cube if e not in fixed]
            out = [orient(e) for e in fixed[: min(n, 4)]] + [orient(e) for e in rng.sample(rest, max(0, n - 4))]
        for yq in rng.sample(PYTH_YAWS, pyth):
            out.append(orient(rng.choice([cube[0], cube[2], cube[17], cube[21]]), yq))
        return out

    def P():
        return rng.choice(POSITIONS)

    owns = [(0, 0, 0), (1, 0, 0), (0, 1, 0), (0, 0, 1), (2, 3, 1)]
    nq = 8 if tier == "quick" else 24

    # ---- directional specifiers
    for sub in DIRS:
        for tk in ("vec", "op", "obj"):
            for by in ("none", "scalar"):
                for o in some_orients(nq):
                    own = rng.choice(owns) if rng.random() < 0.4 else (0, 0, 0)
                    add(kind="dir", sub=sub, tk=tk, by=by, D=rng.choice([2, 4, 6, 10]), ref=dict(o, p=qv(P())),
                        rdim=rng.choice([[8, 16, 24], [24, 8, 16]]), ndim=rng.choice([[4, 8, 12], [12, 4, 8]]), ct=2, ctmicro=0,
                        V=[0, 0, 0], dtxt="float", rct=0, own=list(own), par=rng.choice(some_orients(4)))
    # ---- directional specifiers relative to an OBJECT: every form of `by` (omitted, 0, 0.0, positive, vector) and of the
    # new object's contactTolerance (explicit on the lattice, the class default 1e-4); the reference object gets a
    # different contactTolerance, which must not matter
    forms = [("none", 0, "float", 2, 0), ("none", 0, "float", 0, 10), ("none", 0, "float", 4, 0), ("scalar", 0, "int", 2, 0), ("scalar", 0, "float", 2, 0),
             ("scalar", 0, "int", 0, 10), ("scalar", 6, "float", 2, 0), ("scalar", 3, "float", 0, 10), ("vector", 0, "float", 2, 0), ("vector", 0, "float", 0, 10)]
    for sub in DIRS:
        for (by, D, dtxt, ct, ctmicro) in forms:
            for o in some_orients(2 if tier == "quick" else 8, pyth=1 if tier == "thorough" else 0)[1:] + ([orient(rng.choice(cube), rng.choice(PYTH_YAWS))] if rng.random() < 0.3 else []):
                add(kind="dir", sub=sub, tk="obj", by=by, D=D, dtxt=dtxt, V=rng.choice([[4, 8, 12], [0, 0, 0], [6, 0, 2], [2, 10, 0]]), ref=dict(o, p=qv(P())),
                    rdim=rng.choice([[8, 16, 24], [24, 8, 16], [4, 4, 8]]), ndim=rng.choice([[4, 8, 12], [12, 4, 8], [8, 8, 4]]), ct=ct, ctmicro=ctmicro,
                    rct=rng.choice([0, 0.75, 0.002]), own=list(rng.choice(owns) if rng.random() < 0.25 else (0, 0, 0)), par=orient())
    # ---- beyond
    for fromk in ("vec", "op", "obj", "ego"):
        for (x, y, z, nxy, n) in DDIRS:
            for o in some_orients(3 if tier == "quick" else 8):
                p1 = qv(P())
                by = rng.choice(["scalar", "vector"])
                add(kind="beyond", fromk=fromk, p1=p1, by=by, D=rng.choice([4, 8, 10]), V=rng.choice([[4, 8, 0], [-4, 12, 8], [8, 0, -4]]),
                    **{"from": dict(o if fromk != "vec" else orient(), p=[p1[0] - x, p1[1] - y, p1[2] - z])}, nxy=nxy, n=n,
                    own=list(rng.choice(owns) if rng.random() < 0.3 else (0, 0, 0)))
    # ---- offset by / offset along
    for o in some_orients(nq + 4, pyth=2):
        add(kind="offsetby", ego=dict(o, p=qv(P())), V=rng.choice([[4, 8, 12], [-8, 4, 0], [0, 0, 8], [12, -4, -8]]),
            own=list(rng.choice(owns) if rng.random() < 0.3 else (0, 0, 0)))
    for o in some_orients(nq, pyth=1):
        for dirk in ("heading", "orientation"):
            d = orient((0, 0, 0), rng.choice(PYTH_YAWS + [QUARTER[1], QUARTER[2], QUARTER[3]])) if dirk == "heading" else rng.choice(some_orients(6))
            add(kind="offsetalong", ego=dict(o, p=qv(P())), dirk=dirk, dir=d, V=rng.choice([[4, 8, 12], [-8, 4, 0], [12, -4, -8]]), own=[0, 0, 0])
    # ---- relative to
    for _ in range(6):
        add(kind="relvv", V=qv(P()), V2=[rng.randrange(-40, 40) for _ in range(3)], form=rng.randrange(2))
    for o in some_orients(nq + 4, pyth=2):
        add(kind="relvop", ref=dict(o, p=qv(P())), refk=rng.choice(["obj", "op"]), V=rng.choice([[4, 8, 12], [-8, 4, 0], [12, -4, -8], [4, 8, 0]]), form=rng.randrange(2))
    hs = PYTH_YAWS + [QUARTER[k] for k in range(4)] + [[-3, -4, 5]]
    for h1 in hs:
        for h2 in rng.sample(hs, 3):
            add(kind="relhh", h1=h1, h2=h2)
            add(kind="relhead", h1=h1, h2=h2)
    for o1 in some_orients(nq, pyth=1):
        for o2 in some_orients(3, pyth=1):
            add(kind="reloo", o1=o1, o2=o2)
    # ---- facing family
    for par in some_orients(nq, pyth=2):
        for tk in ("orientation", "heading"):
            t = rng.choice(some_orients(8, pyth=2)) if tk == "orientation" else orient((0, 0, 0), rng.choice(hs))
            add(kind="facing", sub="orient", pos=qv(P()), par=par, target=t, targetk=tk)
    for par in some_orients(nq, pyth=0):
        m = lat3.rot4(par["e"])
        for sub in ("toward", "away"):
            for (x, y, nxy) in rng.sample(HDIRS, 3):
                z = rng.choice([0, 8, -12])
                pos = qv(P())
                g = lat3.mapply(m, [x, y, z])
                sgn = 1 if sub == "toward" else -1
                add(kind="facing", sub=sub, pos=pos, par=par, T=[pos[j] + sgn * g[j] for j in range(3)], nxy=nxy, n=0)
        for sub in ("dtoward", "daway"):
            for (x, y, z, nxy, n) in rng.sample(DDIRS, 3):
                pos = qv(P())
                g = lat3.mapply(m, [x, y, z])
                sgn = 1 if sub == "dtoward" else -1
                add(kind="facing", sub=sub, pos=pos, par=par, T=[pos[j] + sgn * g[j] for j in range(3)], nxy=nxy, n=n)
    app_pars = [orient(), orient((1, 0, 0)), orient((2, 0, 0)), orient((0, 0, 0), [3, 4, 5]), orient((3, 0, 0), [5, -12, 13]), orient((0, 1, 0)), orient((1, 0, 1))]
    for par in app_pars:
        for (x, y, nxy) in rng.sample(HDIRS, 3):
            pos = qv(P())
            add(kind="facing", sub="apparent", pos=pos, par=par, H=rng.choice(hs), nxy=nxy, n=0,
                **{"from": [pos[0] - x, pos[1] - y, pos[2] + rng.choice([0, 4, -8])]}, fromk=rng.choice(["vec", "ego"]))
    # ---- the eighteen side / edge / corner operators
    for sub in SIDES:
        for o in some_orients(3 if tier == "quick" else 24):
            add(kind="side", sub=sub, ref=dict(o, p=qv(P())), rdim=rng.choice([[8, 16, 24], [24, 8, 16]]))
    # ---- scalar operators
    for (x, y, z, nxy, n) in DDIRS:
        for fromk in ("vec", "ego"):
            X = qv(P())
            add(kind="distance", X=X, Y=[X[0] + x, X[1] + y, X[2] + z], fromk=fromk, nxy=nxy, n=n)
            add(kind="angle", X=X, Y=[X[0] + x, X[1] + y, X[2] + z], fromk=fromk, nxy=nxy, n=n)
            add(kind="altitude", X=X, Y=[X[0] + x, X[1] + y, X[2] + z], fromk=fromk, nxy=nxy, n=n)
    for hd in hs:
        for (x, y, nxy) in rng.sample(HDIRS, 2):
            p = qv(P())
            kr = rng.randrange(4)
            # orientation with zero pitch whose heading is hd: yaw hd, roll arbitrary
            add(kind="apphead", ref={"p": p, "yq": hd, "e": [0, 0, kr]}, hd=hd, nxy=nxy, **{"from": [p[0] - x, p[1] - y, p[2] + 4]})
    # ---- facing <vector field> / facing <value> under an explicit or inherited parent orientation
    # (every cube rotation can be the parent, pitched and rolled ones included; field values are full 3D
    # orientations or pure yaws; most pairs do not commute)
    fvals = some_orients(6, pyth=2)
    npar = 5 if tier == "quick" else 24
    for pm in ("with", "ahead", "offsetby", "in", "on"):
        pars = some_orients(npar, pyth=1)
        if tier == "quick":  # always one yaw-only and two tilted parents
            pars = [orient((1, 0, 0)), orient((0, 1, 0)), orient((1, 3, 0))] + pars[4:]
        for par in pars:
            for fk in ("field", "field", "value"):
                fa, fb = rng.sample(fvals + [orient((0, 1, 0)), orient((2, 0, 1)), orient((3, 3, 0))], 2)
                add(kind="facep", pm=pm, fk=fk, par=par, base=qv(P()), D=rng.choice([2, 4, 6]), V=rng.choice([[4, 8, 12], [-8, 4, 6], [12, -4, -8]]),
                    ndim=rng.choice([[4, 8, 12], [12, 4, 8]]), ct=2, fa=fa, fb=fb)
    # ---- on (modifying): projection along +-onDirection onto the NEAREST point of a mesh surface / volume / object top
    def box(lo, hi):
        return {"lo": qv(lo), "hi": qv(hi)}

    axes = [(1, 0, 0), (-1, 0, 0), (0, 1, 0), (0, -1, 0), (0, 0, 1), (0, 0, -1)]
    for rep in range(2 if tier == "quick" else 8):
        o = qv(P())
        lo = [o[0] - 20, o[1] - 20, o[2] - 20]
        hollow = {"lo": lo, "hi": [lo[0] + 40, lo[1] + 40, lo[2] + 40]}  # a 10 x 10 x 10 hollow box
        for d in axes:
            ax = [abs(x) for x in d].index(1)
            for t in (4, 33, 14):  # 1 from the low face, 1.75 from the high face, 3.5 from the low face
                pt = [lo[0] + 22, lo[1] + 18, lo[2] + 26]
                pt[ax] = lo[ax] + t
                add(kind="on", rk="hollow", boxes=[hollow], P=pt, dirk="given", dir=list(d), ndim=rng.choice([[4, 8, 8], [8, 4, 12]]), ct=2, own=[0, 0, 0],
                    ref=pose((0, 0, 0)), rdim=[4, 4, 4])
        # two stacked boxes with a gap of 6 between them (z 0..2 and 8..10 relative to the base)
        b1 = {"lo": lo, "hi": [lo[0] + 24, lo[1] + 24, lo[2] + 8]}
        b2 = {"lo": [lo[0], lo[1], lo[2] + 32], "hi": [lo[0] + 24, lo[1] + 24, lo[2] + 40]}
        for dz, dirk, d in ((14, "default", (0, 0, 1)), (27, "default", (0, 0, 1)), (14, "given", (0, 0, -1)), (27, "given", (0, 0, 1)),
                            (50, "default", (0, 0, 1)), (-9, "given", (0, 0, -1)), (35, "default", (0, 0, 1)), (18, "given", (0, 0, 1))):
            add(kind="on", rk="stack", boxes=[b1, b2], P=[lo[0] + 10, lo[1] + 14, lo[2] + dz], dirk=dirk, dir=list(d), ndim=rng.choice([[4, 8, 8], [8, 4, 12]]), ct=2,
                own=list(rng.choice(owns)), ref=pose((0, 0, 0)), rdim=[4, 4, 4])
        # a box lying beside the point, explicit horizontal direction: only one of the two rays hits
        add(kind="on", rk="stack", boxes=[b1], P=[lo[0] - 10, lo[1] + 6, lo[2] + 3], dirk="given", dir=[-1, 0, 0], ndim=[4, 8, 8], ct=2, own=[0, 0, 0], ref=pose((0, 0, 0)), rdim=[4, 4, 4])
        for ore in some_orients(3 if tier == "quick" else 12, pyth=0):
            rdim = rng.choice([[16, 24, 8], [24, 16, 12]])
            m = lat3.rot4(ore["e"])
            ctr = qv(P())
            top = sum(abs(m[2][j]) * (rdim[j] // 2) for j in range(3))  # half extent of the rotated box along global z
            a, b, t = rng.choice([-3, 2, 1]), rng.choice([-2, 3, 1]), rng.choice([6, 18])
            add(kind="on", rk="objtop", boxes=[], P=[ctr[0] + a, ctr[1] + b, ctr[2] + top + t], dirk="default", dir=[0, 0, 1], ndim=rng.choice([[4, 8, 8], [8, 4, 12]]), ct=2,
                own=[0, 0, 0], ref=dict(ore, p=ctr), rdim=rdim)
        add(kind="on", rk="vec", boxes=[], P=qv(P()), dirk="default", dir=[0, 0, 1], ndim=rng.choice([[4, 8, 8], [8, 4, 12]]), ct=2, own=list(rng.choice(owns)),
            ref=pose((0, 0, 0)), rdim=[4, 4, 4])
        # an explicit baseOffset that is not vertical: the BASE (position + baseOffset) is what lands on the target
        for bo in ([2, -1, -4], [-3, 2, 1], [0, 4, -6]):
            add(kind="on", rk="vec", boxes=[], P=qv(P()), dirk="default", dir=[0, 0, 1], ndim=[4, 8, 8], ct=2, own=list(rng.choice(owns)),
                ref=pose((0, 0, 0)), rdim=[4, 4, 4], bo=bo)
            add(kind="on", rk="stack", boxes=[b1, b2], P=[lo[0] + 10, lo[1] + 14, lo[2] + rng.choice([14, 50])], dirk="default", dir=[0, 0, 1],
                ndim=[4, 8, 8], ct=2, own=list(rng.choice(owns)), ref=pose((0, 0, 0)), rdim=[4, 4, 4], bo=bo)
    # ---- Orientation / Vector algebra through the Python API
    for o1 in some_orients(nq, pyth=2):
        add(kind="ori", sub="euler", o1=o1, o2=orient(), V=[0, 0, 0])
        add(kind="ori", sub="inv", o1=o1, o2=orient(), V=[0, 0, 0])
        add(kind="ori", sub="rotate", o1=o1, o2=orient(), V=rng.choice([[4, 8, 12], [-8, 4, 0], [12, -4, -8]]))
        for o2 in some_orients(4, pyth=1):
            add(kind="ori", sub="mul", o1=o1, o2=o2, V=[0, 0, 0])
            add(kind="ori", sub="local", o1=o1, o2=o2, V=[0, 0, 0])


# ------------------------------------------------------------------ running the real code


def api_case(c):
    """Orientation / Vector algebra observed directly through the Python API."""
    from scenic.core.vectors import Orientation, Vector

    def mk(o):
        return Orientation.fromEuler(*lat3.euler_rad(o["yq"], o["e"]))

    try:
        a, b = mk(c["o1"]), mk(c["o2"])
        if c["sub"] == "euler":
            return {"r": lat3.matrix_of(a)}
        if c["sub"] == "mul":
            return {"r": lat3.matrix_of(a * b)}
        if c["sub"] == "inv":
            return {"r": lat3.matrix_of(a.inverse)}
        if c["sub"] == "local":
            return {"r": lat3.matrix_of(a * Orientation.fromEuler(*a.localAnglesFor(b)))}
        v = Vector(*(x / lat3.SCALE for x in c["V"]))
        if c["o1"]["e"] == [0, 0, 0]:  # a pure yaw: the heading form of rotatedBy
            w = v.rotatedBy(lat3.yaw_of(c["o1"]["yq"]))
        else:
            w = v.rotatedBy(a)
        return {"p": [float(x) for x in w]}
    except Exception as e:
        return {"error": f"{type(e).__name__}: {e}"}


def run_program(item):
    """Worker: compile one program holding many cases, generate once, read the observables."""
    cases = item
    import warnings

    warnings.filterwarnings("ignore")
    import scenic
    from scenic.core.object_types import Object, OrientedPoint
    from scenic.core.vectors import Orientation, Vector

    api_out = {}
    for c in cases:
        if c["kind"] == "ori":
            api_out[c["id"]] = api_case(c)
    cases = [c for c in cases if c["kind"] != "ori"]
    if not cases:
        return {"obs": api_out}
    lines = ["import trimesh", "ego = new Object at (1000, 1000, 1000), with allowCollisions True, with requireVisible False"]
    where = {}
    for c in cases:
        ls, how = scenic_lines(c)
        lines += ls
        where[c["id"]] = how
    text = "\n".join(lines) + "\n"
    try:
        sc = scenic.scenarioFromString(text, mode2D=False)
        scene, _ = sc.generate(maxIterations=1, verbosity=0)
    except Exception as e:
        import traceback

        return {"error": f"{type(e).__name__}: {e}", "tb": traceback.format_exc()[-1200:], "text": text}
    out = dict(api_out)
    tagged = {getattr(ob, "caseId"): ob for ob in scene.objects if hasattr(ob, "caseId")}  # scene.objects puts the ego first
    for c in cases:
        how = where[c["id"]]
        v = tagged[c["id"]] if how == "obj" else scene.params[f"c{c['id']}"]
        o = {}
        if isinstance(v, (Object, OrientedPoint)):
            o["p"] = [float(x) for x in v.position]
            o["r"] = lat3.matrix_of(v.orientation)
        elif isinstance(v, Orientation):
            o["r"] = lat3.matrix_of(v)
        elif isinstance(v, Vector):
            o["p"] = [float(x) for x in v]
        else:
            o["s"] = float(v)
        out[c["id"]] = o
    return {"obs": out}


def compare(c, e, o):
    """-> (list of disagreements, rotation matched the as-implemented deviation?)"""
    bad = []
    if c["kind"] == "relhh":  # a heading or the orientation with that yaw: compare in the form that came back
        e = dict(e)
        if "r" in o:
            e["a"] = []
        else:
            e["rd"] = 0
    if e["ps"] > 0:
        want = [x / e["ps"] for x in e["p"]]
        if e.get("pe"):  # off-lattice remainder (half of the default contactTolerance), in units of 1e-5
            want = [w + x * 1e-5 / e["pes"] for w, x in zip(want, e["pe"])]
        if "p" not in o or any(abs(float(a) - b) > TOL for a, b in zip(o["p"], want)):
            bad.append(("position", want, o.get("p")))
    rot_dev = False
    if e["rd"] > 0 and not e["free"]:
        if "r" not in o or not lat3.mat_close(o["r"], e["r"], e["rd"], TOL):
            if e["dev"] != "none" and "r" in o and lat3.mat_close(o["r"], e["ir"], e["ird"], TOL):
                rot_dev = True
            bad.append(("orientation", [[x / e["rd"] for x in row] for row in e["r"]], o.get("r")))
    if e.get("up"):  # `on`: the object's z axis is the outward normal of the surface it was put on (yaw not demanded)
        col = [row[2] for row in o["r"]] if "r" in o else None
        if col is None or not lat3.vec_close(col, e["up"], e["ups"], TOL):
            bad.append(("up axis", [x / e["ups"] for x in e["up"]], col))
    if e["a"]:
        cc, ss, dd = e["a"]
        if "s" not in o or abs(math.cos(o["s"]) - cc / dd) > TOL or abs(math.sin(o["s"]) - ss / dd) > TOL:
            bad.append(("angle", math.atan2(ss, cc), o.get("s")))
    if e["d2"] >= 0:
        if "s" not in o or abs(o["s"] ** 2 - e["d2"] / 16) > TOL * (1 + 2 * abs(o["s"])):
            bad.append(("distance", math.sqrt(e["d2"] / 16), o.get("s")))
    return bad, rot_dev


def main(tier):
    ck = Check("C07", tier, "model_checking")
    ck.cov["rule"] = ("a case = one documented construct with concrete lattice arguments (reference pose, parent orientation, own angles, "
                      "dimensions, offsets); non-trivial = some orientation involved is not the identity; distinct by the full argument record")
    ck.assumptions += [
        "sub-universe: quarter-lattice positions away from the origin, cube-group rotations plus Pythagorean yaws, integer dimensions, "
        "Pythagorean lines of sight (so that azimuth/altitude frames are rational)",
        "orientations are compared as rotation matrices (abs tol 1e-6), never as Euler angles; gimbal-locked decompositions are therefore harmless",
        "`by` absent or scalar only (vector `by` of the directional specifiers is not described in the reference); `following` and `on` are not covered (C03/C06/C16 territory: fields and regions)",
        "apparently facing: demanded only for parent orientations that are pure yaws (free otherwise)",
        "printer harness/c07.py:scenic_lines and the scaling helpers of harness/lat3.py are trusted glue",
    ]
    rng = random.Random(seed() * 6151 + 7)
    cases = generate(tier, rng)
    path = os.path.join(scratch(), "geom.json")
    with open(path, "w") as f:
        json.dump(cases, f)
    res = run_tlc("GeomSpec", CFG, env={"GEOM": path}, coverage=True, timeout=1500)
    ck.add_tlc("GeomSpec", res)
    if res.coverage.get("Pick", (0, 0))[1] == 0:
        raise MachineryError("GeomSpec.tla: Pick never taken")
    exp = {o["id"]: dict(o["e"], up=o.get("up") or [], ups=o.get("ups", 0), pe=o.get("pe") or [], pes=o.get("pes", 0)) for o in res.outputs}
    discriminating = {o["id"] for o in res.outputs if o.get("disc")}
    noncommuting = {o["id"] for o in res.outputs if o.get("nc")}
    if len(exp) != len(cases):
        raise MachineryError(f"TLC printed {len(exp)} expected records for {len(cases)} cases")

    if os.environ.get("VERIF_C07_SAVE"):  # for the throw-away mutant scripts: reuse TLC's output
        with open(os.environ["VERIF_C07_SAVE"], "w") as f:
            json.dump({"cases": cases, "exp": res.outputs}, f)
    order = list(cases)
    rng.shuffle(order)
    per = 60
    progs = [order[i : i + per] for i in range(0, len(order), per)]
    results = pmap(run_program, progs, chunk=1)

    kinds = {}
    stats = {"free_orientation": 0, "known": 0, "facing_under_parent_noncommuting": 0}
    for prog, rr in zip(progs, results):
        if "error" in rr:
            # find the culprit by re-running the cases one by one (a well-formed case must compile and generate)
            for c in prog:
                r1 = run_program([c])
                if "error" in r1:
                    ck.violation(f"real code failed on a well-formed case ({c['kind']}/{c.get('sub', '')}): {r1['error']}",
                                 {"property": "C07", "case": c, "program": r1["text"], "error": r1["error"], "tb": r1.get("tb")})
                else:
                    rr.setdefault("obs", {}).update(r1["obs"])
            if "obs" not in rr:
                continue
        for c in prog:
            if c["id"] not in rr["obs"]:
                continue
            e, o = exp[c["id"]], rr["obs"][c["id"]]
            key = c["kind"] + ("/" + c["sub"] if "sub" in c else "") + ("/" + c["tk"] if "tk" in c else "")
            if c["kind"] == "facep":
                key += f"/{c['pm']}/{c['fk']}"
            if c["kind"] == "on":
                key += f"/{c['rk']}/{c['dirk']}"
            kinds[key] = kinds.get(key, 0) + 1
            nontrivial = any(isinstance(v, dict) and (v.get("e") not in (None, [0, 0, 0]) or v.get("yq") not in (None, [1, 0, 1])) for v in c.values())
            ck.case(json.dumps({k: v for k, v in c.items() if k != "id"}, sort_keys=True), nontrivial)
            if e["free"]:
                stats["free_orientation"] += 1
            if c["id"] in noncommuting:
                stats["facing_under_parent_noncommuting"] += 1
            if c["id"] in discriminating:
                stats["on_nearest_hit_against_direction"] = stats.get("on_nearest_hit_against_direction", 0) + 1
            bad, rot_dev = compare(c, e, o)
            if not bad:
                ck.validated()
                ck.sample({"case": c, "scenic": scenic_lines(c)[0], "expected": e, "observed": o}, limit=4)
                continue
            only_rot = all(b[0] == "orientation" for b in bad)
            known = e["dev"] if (rot_dev and only_rot) else None
            if known:
                stats["known"] += 1
            ck.violation(
                f"{key}: " + "; ".join(f"{w} expected {x} observed {y}" for w, x, y in bad)[:400],
                {"property": "C07", "case": c, "scenic": scenic_lines(c)[0], "expected": e, "observed": o, "differences": bad},
                known_key=known,
            )
    ck.cov["constructs"] = kinds
    ck.cov["stats"] = stats
    ck.cov["exhaustive"] = False
    ck.cov["explanation"] = "TLC evaluates every generated case (constructs x reference poses x rotations x parent orientations, seeded sampling of the cross product in the quick tier)"
    return ck.finish()


def replay(path):
    """./check C07 --replay <file>: re-execute one recorded case on the real code."""
    doc = json.load(open(path))
    c, e = doc["case"], doc.get("expected")
    print("\n".join(scenic_lines(c)[0]))
    rr = run_program([c])
    if "error" in rr:
        print("real code failed:", rr["error"])
        return 1
    o = rr["obs"][c["id"]]
    print("expected:", json.dumps(e))
    print("observed:", json.dumps(o))
    bad, rot_dev = compare(c, e, o) if e else ([], False)
    for w, x, y in bad:
        print(f"DIFFERS {w}: expected {x} observed {y}" + (" (matches the as-implemented deviation " + e["dev"] + ")" if rot_dev and w == "orientation" else ""))
    return 1 if bad else 0


if __name__ == "__main__":
    sys.exit(main(sys.argv[1] if len(sys.argv) > 1 else "quick"))
