"""C08 — pruning never changes which scenes can be generated.

Specs: spec/Relations.tla (bound extraction from requirement syntax: meaning of every shape on a
value grid, the specification's sound rule, the named as-implemented deviation) and
spec/Pruning.tla (feasible positions, documented pruning techniques and named deviations on
lattice programs).  TLC checks the spec-level lemmas and prints the expected results.

Binding (replay + differential): every requirement shape is compiled by the real Scenic and the
relations read off `obj._relations`; every lattice program is compiled with and without pruning
(`scenic.syntax.translator.usePruning`) under a wall-clock guard, the real pruned region
(`obj.position._conditioned`) is probed at every lattice probe, and accepted scenes of the
unpruned program must lie in the real pruned region.

Verdict policy (DESIGN.md C08): a VIOLATION is an end-to-end fact -- a feasible probe / accepted
scene outside the real pruned region, a probe outside the base inside it, a satisfiable program
refused, a compile that does not return, a non-positional property changed.  An unsound interval
alone is an observation; it is paired with a standard lattice program in which it changes the
pruned region."""

import json
import math
import os
import signal
import sys
import time

from common import Check, MachineryError, pmap, run_tlc, scratch, seed
import gen_pruning as G

REL_CFG = """SPECIFICATION Spec
INVARIANT TypeOK
INVARIANT RuleSound
INVARIANT RuleEmptyOnlyIfUnsat
INVARIANT RuleTight
INVARIANT MirrorSound
INVARIANT DeviationIsNe
INVARIANT EmitCase
CHECK_DEADLOCK FALSE
"""

PRU_CFG = """SPECIFICATION Spec
INVARIANT TypeOK
INVARIANT FeasInIdealInBase
INVARIANT NoTriggerNoDeviation
INVARIANT EmitObject
CHECK_DEADLOCK FALSE
"""

INF = 9999
KEY_NONEQ = "relation-noneq-as-upper-bound"
KEY_NONHARD = "relation-from-non-requirement"
KEY_UNNORM = "relheading-range-not-normalised"
KEY_OFFSET = "containment-offset-exceeds-inradius"
KEY_VISBUF = "visibility-buffer-relative-pitch"
KEY_TOUCH = "rh-touching-cells-assertion"
BITKEYS = [(16, KEY_NONEQ, "noneq"), (32, KEY_NONHARD, "nonhard"), (64, KEY_UNNORM, "unnorm"),
           (128, KEY_OFFSET, "offset"), (256, KEY_VISBUF, "visbuf")]
COMPILE_GUARD_S = 60
POSE_PROBES = 48


class _Timeout(Exception):
    pass


_fired = [False]


def _alarm(_sig, _frm):
    _fired[0] = True
    signal.alarm(1)  # fire again soon: an exception raised inside a C callback (rtree, ctypes) is swallowed or re-wrapped
    raise _Timeout()


# ----------------------------------------------------------------------------- part 1: relations


def _rels_of(ego, tgt):
    from scenic.syntax.relations import DistanceRelation, RelativeHeadingRelation

    def pack(lst, target):
        out = []
        for r in lst:
            if r.target is target:
                kind = "dist" if isinstance(r, DistanceRelation) else "rh" if isinstance(r, RelativeHeadingRelation) else "?"
                out.append([kind, float(r.lower), float(r.upper)])
        return out

    return pack(ego._relations, tgt), pack(tgt._relations, ego)


def real_relations(batch):
    """Worker: compile one program holding the requirements of `batch` (each about its own target
    object); on failure compile the members one by one.  Returns {id: result}."""
    import scenic

    def run(cases):
        text = G.relations_program(cases)
        sc = scenic.scenarioFromString(text, mode2D=False)
        ego = sc.objects[0]
        out = {}
        for i, c in enumerate(cases):
            rel, conv = _rels_of(ego, sc.objects[i + 1])
            out[c["id"]] = {"rel": rel, "conv": conv, "error": None}
        return out

    try:
        return run(batch)
    except Exception:
        pass
    out = {}
    for c in batch:
        try:
            out.update(run([c]))
        except Exception as e:
            out[c["id"]] = {"rel": [], "conv": [], "error": f"{type(e).__name__}: {e}"[:200]}
    return out


def _to_units(q, v):
    """real bound -> case units (dist: units; rh: steps of 60 degrees); +-inf -> +-INF"""
    if v == float("inf"):
        return INF
    if v == float("-inf"):
        return -INF
    return v if q == "dist" else v / (math.pi / 3)


def _contains_hull(lo, hi, hull):
    """closed interval [lo, hi] (case units, INF sentinels) contains the hull (half steps)"""
    if hull[0] > hull[1]:
        return True
    if lo > hi:
        return False
    tol = 1e-6
    ok_lo = lo == -INF or (hull[0] != -INF and lo <= hull[0] / 2 + tol)
    ok_hi = hi == INF or (hull[1] != INF and hi >= hull[1] / 2 - tol)
    return ok_lo and ok_hi


def relations_part(ck, tier):
    cases = G.relation_cases(tier, seed())
    path = os.path.join(scratch(), "cases.json")
    with open(path, "w") as f:
        json.dump([{k: c[k] for k in ("id", "q", "form", "ops", "cs")} for c in cases], f)
    # no -coverage: TLC's cost model cannot place the LAMBDA arguments of SatShape and slows down 2-10x;
    # that every action is taken is checked from the state counts instead
    res = run_tlc("Relations", REL_CFG, env={"CASES": path}, coverage=False, timeout=1500, workers=4, heap="1g")
    ck.add_tlc("Relations", res)
    if res.distinct < 2 * len(cases):  # one initial and one done state per case
        raise MachineryError("Relations: Extract not taken for every case")
    spec = {o["id"]: o for o in res.outputs}
    if len(spec) != len(cases):
        raise MachineryError(f"Relations: {len(spec)} results for {len(cases)} cases")

    # the spec predicts which cases the real matcher refuses; those are compiled alone
    alone = [c for c in cases if spec[c["id"]]["raises"]]
    rest = [c for c in cases if not spec[c["id"]]["raises"]]
    if True:  # one compile per refused case is slow: keep a seeded sample of each kind
        import random as _r

        rnd = _r.Random(seed() + 11)
        sat = [c for c in alone if not spec[c["id"]]["unsat"]]
        uns = [c for c in alone if spec[c["id"]]["unsat"]]
        nsat, nuns = (12, 24) if tier == "quick" else (len(sat), 300)
        alone = rnd.sample(sat, min(nsat, len(sat))) + rnd.sample(uns, min(nuns, len(uns)))
        keep = {c["id"] for c in alone} | {c["id"] for c in rest}
        cases = [c for c in cases if c["id"] in keep]
    batches = [rest[i:i + 40] for i in range(0, len(rest), 40)] + [[c] for c in alone]
    real = {}
    # quick: in this process (forking workers costs more than the ~30 compilations)
    for r in (map(real_relations, batches) if tier == "quick" else pmap(real_relations, batches, procs=4, chunk=1)):
        real.update(r)

    obs = {"unsound": [], "mirror": [], "refused_satisfiable": [], "unsound_unexplained": []}
    stats = dict(cases=len(cases), with_relation=0, refused=0, refused_unsat=0, sound=0, no_relation=0)
    pairing = []
    seen_class = {}
    for c in cases:
        s = spec[c["id"]]
        r = real.get(c["id"])
        if r is None:
            raise MachineryError(f"no real result for relation case {c['id']}")
        text = G.shape_text(c, "other")
        nontrivial = (not s["unsat"]) and (s["rule"] != [0, INF] and s["rule"] != [-3, 3] or s["ne"])
        ck.case(("rel", text), nontrivial)
        if r["error"]:
            stats["refused"] += 1
            if s["unsat"]:
                stats["refused_unsat"] += 1  # refusing an unsatisfiable requirement is allowed
                ck.validated()
                continue
            known = KEY_NONEQ if (s["ne"] and s["raises"]) else None
            obs["refused_satisfiable"].append(text)
            ck.violation(
                f"satisfiable requirement refused at compile time: require {text} -> {r['error']}",
                {"property": "C08", "kind": "satisfiable program refused (bound extraction)",
                 "program": G.relations_program([c]), "error": r["error"], "true_set_hull_half_steps": s["hull"],
                 "as_implemented": "NeAsLe" if known else None},
                known_key=known)
            continue
        rels = [x for x in r["rel"] if x[0] == c["q"]]
        wrongkind = [x for x in r["rel"] if x[0] != c["q"]]
        if wrongkind:
            obs["unsound_unexplained"].append([text, r["rel"]])
        if not rels:
            stats["no_relation"] += 1
            ck.validated()
            continue
        stats["with_relation"] += 1
        lo = max(_to_units(c["q"], x[1]) for x in rels)
        hi = min(_to_units(c["q"], x[2]) for x in rels)
        sound = _contains_hull(lo, hi, s["hull"])
        # mirror image on the other object
        conv = [x for x in r["conv"] if x[0] == c["q"]]
        if conv:
            clo = max(_to_units(c["q"], x[1]) for x in conv)
            chi = min(_to_units(c["q"], x[2]) for x in conv)
            exp = (lo, hi) if c["q"] == "dist" else (-hi, -lo)
            if abs(clo - exp[0]) > 1e-6 or abs(chi - exp[1]) > 1e-6:
                obs["mirror"].append([text, [lo, hi], [clo, chi]])
        else:
            obs["mirror"].append([text, [lo, hi], None])
        if sound:
            stats["sound"] += 1
            ck.validated()
            continue
        a = s["asimpl"]
        explained = s["ne"] and s["asimplUnsound"] and abs(lo - a[0]) < 1e-6 and abs(hi - a[1]) < 1e-6
        rec = {"shape": text, "extracted": [lo, hi], "true_hull_half_steps": s["hull"], "spec_rule": s["rule"],
               "explained_by": "NeAsLe" if explained else None}
        obs["unsound"].append(rec)
        if not explained:
            obs["unsound_unexplained"].append(rec)
        # pair it with a lattice program when a pruning pass consumes the wrong side and the
        # standard layout can show it: dist -- some true distance at least one unit above the
        # extracted upper bound (lower bounds on distances are consumed by no pass);
        # rh -- a quarter turn (+-90 degrees = +-3 half steps) that is true but excluded
        if c["q"] == "dist":
            true_hi = INF if s["hull"][1] == INF else s["hull"][1] / 2
            effective = hi != INF and hi < 30 and true_hi >= max(hi, 1) + 1 and (s["hull"][0] == -INF or s["hull"][0] / 2 <= max(hi, 1) + 2)
        else:
            effective = any(s["hull"][0] <= v <= s["hull"][1] and not (lo * 2 - 1e-6 <= v <= hi * 2 + 1e-6) for v in (-3, 3))
        # quick: one program per (quantity, explanation, form), at most 8; thorough: per form and operators
        cls = (c["q"], explained, c["form"]) if tier == "quick" else (c["q"], c["form"], tuple(c["ops"]), explained)
        if effective and c.get("atom", "unary") == "unary" and seen_class.get(cls, 0) < 1 and (tier != "quick" or len(pairing) < 8):
            seen_class[cls] = seen_class.get(cls, 0) + 1
            pairing.append((c, [lo, hi]))
    ck.cov["relations"] = stats
    ck.cov["relation_observations"] = {
        "unsound_intervals": len(obs["unsound"]),
        "unsound_not_explained_by_NeAsLe": obs["unsound_unexplained"][:10],
        "mirror_mismatches": obs["mirror"][:10],
        "examples": obs["unsound"][:6],
        "paired_with_lattice_programs": len(pairing),
    }
    return pairing, obs


# ----------------------------------------------------------------------------- part 2/3: lattice programs


def _region_of(val):
    """(region, offset vector or None) of a position value as pruning sees it"""
    import scenic.core.regions as regions
    from scenic.core.vectors import VectorOperatorDistribution
    from scenic.core.workspaces import Workspace

    off = None
    if isinstance(val, VectorOperatorDistribution) and val.operator in ("__add__", "__radd__"):
        off = val.operands[0]
        val = val.object
    if not isinstance(val, regions.PointInRegionDistribution):
        return None, None
    reg = val.region
    if isinstance(reg, Workspace):
        reg = reg.region
    return reg, off


def real_program(item):
    """Worker: compile with and without pruning, probe the regions, sample the unpruned program."""
    p, grids, nscenes = item
    import random

    import numpy
    import scenic
    import scenic.core.pruning as pruning
    import scenic.syntax.translator as translator
    from scenic.core.distributions import RejectionException, Samplable, needsSampling
    from scenic.core.vectors import Vector

    text = G.program_text(p)
    out = {"id": p["id"], "text": text}
    signal.signal(signal.SIGALRM, _alarm)

    def compile_(prune, snap, guard=COMPILE_GUARD_S):
        translator.usePruning = prune
        orig = pruning.pruneVisibility

        def watching(scenario, verbosity):  # observation only: regions before visibility pruning
            for i, o in enumerate(scenario.objects):
                snap[i] = pruning.currentPropValue(o, "position")
            return orig(scenario, verbosity)

        pruning.pruneVisibility = watching
        t0 = time.time()
        _fired[0] = False
        signal.alarm(guard)
        try:
            sc = scenic.scenarioFromString(text, mode2D=False)
            return sc, time.time() - t0, None
        except BaseException as e:  # noqa: the refusal class is the observation
            if _fired[0] or isinstance(e, _Timeout):
                return None, time.time() - t0, "TIMEOUT"
            return None, time.time() - t0, f"{type(e).__name__}: {e}"[:300]
        finally:
            signal.alarm(0)
            pruning.pruneVisibility = orig
            translator.usePruning = True

    su, tu, eu = compile_(False, {})
    snap = {}
    sp, tp, ep = compile_(True, snap)
    if ep == "TIMEOUT":  # could be the load of the box: once more with three times the guard
        snap = {}
        sp, tp, ep = compile_(True, snap, 3 * COMPILE_GUARD_S)
        out["retried_after_timeout"] = True
    out.update(t_unpruned=round(tu, 3), t_pruned=round(tp, 3), err_unpruned=eu, err_pruned=ep)
    if su is None or sp is None:
        return out

    def probe_bitmap(reg, g):
        rows = []
        ny = len(g["ys"])
        for r in range(len(g["ys"]) * len(g["zs"])):
            y = g["ys"][r % ny] / 4.0
            z = g["zs"][r // ny] / 4.0
            rows.append([1 if reg.containsPoint(Vector(x / 4.0, y, z)) else 0 for x in g["xs"]])
        return rows

    objs = {}
    for k, g in grids.items():
        i = int(k) - 1
        ou, op = su.objects[i], sp.objects[i]
        ru, _ = _region_of(ou.position._conditioned)
        rp, offp = _region_of(op.position._conditioned)
        info = {"random_final_region": False}
        if rp is not None and needsSampling(rp):
            info["random_final_region"] = True
            rp, offp = _region_of(snap.get(i))
        if ru is None or rp is None or needsSampling(rp) or needsSampling(ru):
            info["unreadable"] = True
            objs[k] = info
            continue
        info["base"] = probe_bitmap(ru, g)
        info["pruned"] = probe_bitmap(rp, g)
        info["region_type"] = type(rp).__name__
        # nothing but position may be conditioned; constants must be equal
        changed = []
        for prop in op.properties:
            if prop == "position":
                continue
            vp, vu = getattr(op, prop), getattr(ou, prop)
            if isinstance(vp, Samplable) and vp._conditioned is not vp:
                changed.append(prop)
            elif not isinstance(vp, Samplable) and not isinstance(vu, Samplable):
                try:
                    if isinstance(vp, (int, float, str, bool, tuple, Vector)) and not (vp == vu):
                        changed.append(prop)
                except Exception:
                    pass
            elif type(vp) is not type(vu):
                changed.append(prop)
        info["changed_props"] = changed
        objs[k] = info
    out["objs"] = objs

    # pose replay (single object with a container): at a seeded sample of base probes, put a
    # concrete object in every lattice pose (size alternative x yaw x pitch x roll) and ask the real
    # container; "some pose fits" must be the spec's Feasible bit.  This binds the feasibility
    # oracle -- position AND orientation -- to the real containment test.
    if len(p["objs"]) == 1 and p["cont"] and "1" in objs and not objs["1"].get("unreadable"):
        import math

        from scenic.core.object_types import Object

        o, g = p["objs"][0], grids["1"]
        ny = len(g["ys"])
        cand = [(r, i) for r, row in enumerate(objs["1"]["base"]) for i, b in enumerate(row) if b]
        rnd = random.Random(seed() * 7 + p["id"])
        rnd.shuffle(cand)
        poses = []
        ws = su.workspace
        for r, i in cand[:POSE_PROBES if o["poly"] else POSE_PROBES // 3]:
            x, y, z = g["xs"][i] / 4.0, g["ys"][r % ny] / 4.0, g["zs"][r // ny] / 4.0
            fits = False
            for sz in o["sizes"]:
                for yw in o["yaws"]:
                    for pt in o["pitches"]:
                        for rl in o["rolls"]:
                            c = Object._with(position=Vector(x + o["off"][0] / 4.0, y + o["off"][1] / 4.0, z),
                                             width=sz[0] / 4.0, length=sz[1] / 4.0, height=sz[2] / 4.0,
                                             yaw=math.radians(90 * yw), pitch=math.radians(90 * pt), roll=math.radians(90 * rl))
                            if ws.containsObject(c):
                                fits = True
                                break
                        if fits:
                            break
                    if fits:
                        break
                if fits:
                    break
            poses.append([r, i, fits])
        out["pose_checks"] = poses

    # differential: accepted scenes of the unpruned program lie in the real pruned region
    random.seed(seed() * 1000003 + p["id"])
    numpy.random.seed((seed() * 1000003 + p["id"]) % (2**32))
    scenes = []
    lost = []
    rejected = 0
    _fired[0] = False
    signal.alarm(40 if nscenes <= 8 else 120)  # a bound on the machinery, not on the code under test
    try:
        for _n in range(nscenes):
            try:
                scene, _its = su.generate(maxIterations=3000, verbosity=0)
            except RejectionException:
                rejected += 1
                break
            rec = {}
            for k in grids:
                i = int(k) - 1
                if objs[k].get("unreadable"):
                    continue
                rp, offp = _region_of(sp.objects[i].position._conditioned)
                if needsSampling(rp):
                    rp, offp = _region_of(snap.get(i))
                pos = scene.objects[i].position
                bp = pos - offp if offp is not None else pos
                inside = bool(rp.containsPoint(bp))
                rec[k] = [round(bp.x, 4), round(bp.y, 4), round(bp.z, 4), inside]
                if not inside:
                    lost.append({"obj": k, "base_point": rec[k][:3],
                                 "scene": [[round(o.position.x, 3), round(o.position.y, 3), round(o.position.z, 3),
                                            round(o.heading, 4)] for o in scene.objects],
                                 "yaw_pitch_roll": [[round(float(o.yaw), 4), round(float(o.pitch), 4), round(float(o.roll), 4)]
                                                    for o in scene.objects]})
            scenes.append(rec)
    except BaseException as e:  # the alarm may surface re-wrapped (ctypes.ArgumentError)
        if not (_fired[0] or isinstance(e, _Timeout)):
            raise
        out["sampling_timeout"] = True
    finally:
        signal.alarm(0)
    out["scenes"] = len(scenes)
    out["rejected"] = rejected
    out["lost_scenes"] = lost
    return out


def _bit(c, b):
    return (c // b) % 2 == 1


def _attribute(codes):
    """codes of lost probes -> (set of known keys explaining all of them) or None if some probe is
    unexplained.  A probe is explained by a deviation when the spec says that deviation drops it."""
    keys = set()
    for c in codes:
        ks = [key for bit, key, _n in BITKEYS if _bit(c, bit)]
        if ks:
            keys.add(ks[0])
        elif _bit(c, 512):
            keys.add("combined")
        else:
            return None
    return keys


def lattice_part(ck, tier, pairing):
    progs = G.lattice_programs(tier, seed())
    npair = 0
    for case, extracted in pairing:
        p = G.pairing_program(len(progs) + 1, case, extracted)
        progs.append(p)
        npair += 1
    ck.cov["programs"] = len(progs)
    ck.cov["program_counts"] = {"generated_and_core": len(progs) - npair, "pairing": npair}
    path = os.path.join(scratch(), "progs.json")
    spec = {}
    nbatch = 30
    for b0 in range(0, len(progs), nbatch):
        with open(path, "w") as f:
            json.dump([G.to_tla(p) for p in progs[b0:b0 + nbatch]], f)
        res = run_tlc("Pruning", PRU_CFG, env={"PROGS": path}, coverage=False, timeout=3000, workers=4, heap="2g")
        ck.add_tlc("Pruning", res)
        for o in res.outputs:
            spec[(o["pid"], o["oid"])] = o
        # vacuity: one ScanRow step per probe row of every (program, object), plus its initial state
        if res.distinct != sum(len(o["rows"]) + 1 for o in res.outputs) or not res.outputs:
            raise MachineryError("Pruning: ScanRow not taken for every probe row")
    nscenes = 8 if tier == "quick" else 25
    items = []
    for p in progs:
        grids = {str(oid): {"xs": o["xs"], "ys": o["ys"], "zs": o["zs"]} for (pid, oid), o in spec.items() if pid == p["id"]}
        if not grids:
            raise MachineryError(f"no TLC output for program {p['id']}")
        items.append((p, grids, min(max(nscenes, p.get("nscenes", 0)), p.get("nscenes_cap", 10**6))))
    results = pmap(real_program, items, procs=6, chunk=1)

    fam_stats = {}
    slow = []
    dropped_why = []
    tot = dict(probes=0, feasible_probes=0, lost_probes=0, outside_base_probes=0, scenes=0, lost_scenes=0,
               refused_unsat=0, random_final_region=0, dropped=0, sampling_timeouts=0, pose_probes=0)
    for p, rr in zip(progs, results):
        fs = fam_stats.setdefault(p["fam"], dict(programs=0, objects=0, nontrivial=0))
        fs["programs"] += 1
        so = {oid: o for (pid, oid), o in spec.items() if pid == p["id"]}
        text = rr["text"]
        base_replay = {"property": "C08", "program": text, "lattice_program": G.to_tla(p)}
        satisfiable = all(any(_bit(c, 4) for row in o["rows"] for c in row) for o in so.values())
        trig_keys = [key for _b, key, nm in BITKEYS if any(o["trig"][nm] for o in so.values())]

        # ---- compile outcomes
        if rr["err_unpruned"]:
            refusal = rr["err_unpruned"].split(":")[0] in ("InconsistentScenarioError", "InvalidScenarioError")
            if refusal and satisfiable:
                t0_ = next(iter(so.values()))["trig"]
                known = KEY_NONHARD if t0_["refuseNonhard"] else KEY_NONEQ if t0_["refuseNoneq"] else None
                ck.case(("prog", text), True)
                ck.violation(f"satisfiable lattice program {p['id']} refused (with and without pruning): {rr['err_unpruned']}",
                             dict(base_replay, error=rr["err_unpruned"], as_implemented_deviation=known), known_key=known)
            elif refusal:
                tot["refused_unsat"] += 1  # the spec says no scene exists: refusing is allowed
                ck.case(("prog", text), False)
                ck.validated()
            else:
                tot["dropped"] += 1
                ck.cov["dropped_by_generator"] += 1
                dropped_why.append([p["id"], p["fam"], "does not compile without pruning either: " + rr["err_unpruned"][:120]])
            continue
        if rr["err_pruned"]:
            if rr["err_pruned"] == "TIMEOUT":
                ck.violation(f"compiling lattice program {p['id']} with pruning did not return within {COMPILE_GUARD_S}s nor, re-tried, within {3 * COMPILE_GUARD_S}s "
                             f"(unpruned: {rr['t_unpruned']}s)", dict(base_replay, times=[rr["t_unpruned"], rr["t_pruned"]]))
                continue
            if not satisfiable:
                tot["refused_unsat"] += 1  # refusing an unsatisfiable program is allowed
                ck.case(("prog", text), False)
                ck.validated()
                continue
            # which deviation empties a region?
            keys = set()
            for o in so.values():
                for bit, key, nm in BITKEYS + [(512, "combined", None)]:
                    inbase = [c for row in o["rows"] for c in row if _bit(c, 1)]
                    if inbase and all(_bit(c, bit) for c in inbase):
                        keys.add(key)
            if len(keys) > 1:
                keys.discard("combined")
            known = None
            if keys:
                k0 = sorted(keys)[0]
                known = (trig_keys[0] if trig_keys else None) if k0 == "combined" else k0
            elif rr["err_pruned"].startswith("AssertionError: ") and len(rr["err_pruned"]) > 20 \
                    and any(o["trig"]["touch"] for o in so.values()):
                known = KEY_TOUCH  # the assertion on a non-polygonal cell intersection
            ck.case(("prog", text), True)
            ck.violation(
                f"satisfiable lattice program {p['id']} ({p['fam']}) refused when compiled with pruning: {rr['err_pruned']}",
                dict(base_replay, error=rr["err_pruned"], compiles_without_pruning=True,
                     feasible_probe_counts={str(k): sum(_bit(c, 4) for row in o["rows"] for c in row) for k, o in so.items()},
                     as_implemented_deviation=known),
                known_key=known)
            continue
        if rr["t_pruned"] > 100 * max(rr["t_unpruned"], 0.01) and rr["t_pruned"] > 10:
            # wall-clock ratios depend on the load of the box: an observation, not a verdict (the
            # verdict for non-termination is the absolute guard, re-tried once with a longer one)
            slow.append({"program": p["id"], "fam": p["fam"], "t_unpruned": rr["t_unpruned"], "t_pruned": rr["t_pruned"]})

        # ---- probes
        for oid, o in sorted(so.items()):
            fs["objects"] += 1
            ro = rr["objs"].get(str(oid))
            if ro is None or ro.get("unreadable"):
                tot["dropped"] += 1
                ck.cov["dropped_by_generator"] += 1
                dropped_why.append([p["id"], p["fam"], f"object {oid}: region not readable as a fixed region"])
                continue
            if ro.get("random_final_region"):
                tot["random_final_region"] += 1
            rows = o["rows"]
            nfeas = sum(_bit(c, 4) for row in rows for c in row)
            nbase = sum(_bit(c, 1) for row in rows for c in row)
            nontrivial = 0 < nfeas < nbase
            fs["nontrivial"] += 1 if nontrivial else 0
            ck.case(("obj", text, oid), nontrivial)
            # the printer pair: the real unpruned region is the spec's base
            glue = [(r, i) for r, row in enumerate(rows) for i, c in enumerate(row) if int(_bit(c, 1)) != ro["base"][r][i]]
            if glue:
                raise MachineryError(f"program {p['id']} object {oid}: base region differs between spec and Scenic text at "
                                     f"{len(glue)} probes\n{text}")
            # pose replay: the real container accepts some lattice pose exactly where the spec says feasible
            if oid == 1 and rr.get("pose_checks"):
                bad = [(r, i, fits) for r, i, fits in rr["pose_checks"] if fits != _bit(rows[r][i], 2)]
                if bad:
                    raise MachineryError(
                        f"program {p['id']}: the spec's containment oracle and the real containsObject disagree on lattice poses at "
                        f"{len(bad)} of {len(rr['pose_checks'])} probes (row, column, real fits): {bad[:5]}\n{text}")
                tot["pose_probes"] += len(rr["pose_checks"])
                ck.validated(len(rr["pose_checks"]))
            lostp, extra = [], []
            ny = len(o["ys"])
            for r, row in enumerate(rows):
                for i, c in enumerate(row):
                    tot["probes"] += 1
                    real_in = ro["pruned"][r][i]
                    xyz = [o["xs"][i] / 4.0, o["ys"][r % ny] / 4.0, o["zs"][r // ny] / 4.0]
                    if _bit(c, 4):
                        tot["feasible_probes"] += 1
                        if not real_in:
                            lostp.append((xyz, c))
                    if not _bit(c, 1):
                        tot["outside_base_probes"] += 1
                        if real_in:
                            extra.append(xyz)
            if extra:
                ck.violation(f"program {p['id']} object {oid}: pruned region contains {len(extra)} probes outside the base region",
                             dict(base_replay, object=oid, probes=extra[:10]))
            if lostp:
                tot["lost_probes"] += len(lostp)
                keys = _attribute([c for _x, c in lostp])
                if keys is None:
                    known = None
                else:
                    ks = sorted(k for k in keys if k != "combined") or trig_keys
                    known = ks[0] if ks else None
                unexplained = [x for x, c in lostp if _attribute([c]) is None]
                ck.violation(
                    f"program {p['id']} ({p['fam']}) object {oid}: {len(lostp)} feasible probe positions lie outside the real pruned region"
                    + (f" ({len(unexplained)} not explained by any named deviation)" if unexplained else ""),
                    dict(base_replay, object=oid, lost_probes=[x for x, _c in lostp[:12]], unexplained=unexplained[:12],
                         region_type=ro.get("region_type"), as_implemented_deviation=known),
                    known_key=known if not unexplained else None)
            else:
                ck.validated()
            if ro.get("changed_props"):
                ck.violation(f"program {p['id']} object {oid}: pruning changed non-positional properties {ro['changed_props']}",
                             dict(base_replay, object=oid, changed=ro["changed_props"]))

        # ---- differential
        tot["sampling_timeouts"] += 1 if rr.get("sampling_timeout") else 0
        tot["scenes"] += rr.get("scenes", 0)
        ck.validated(rr.get("scenes", 0) - len({json.dumps(x["scene"]) for x in rr.get("lost_scenes", [])}))
        if rr.get("lost_scenes"):
            tot["lost_scenes"] += len(rr["lost_scenes"])
            keys = set()
            unexplained = []
            for ls in rr["lost_scenes"]:
                o = so[int(ls["obj"])]
                x, y, z = [v * 4 for v in ls["base_point"]]
                ix = min(range(len(o["xs"])), key=lambda i: abs(o["xs"][i] - x))
                iy = min(range(len(o["ys"])), key=lambda i: abs(o["ys"][i] - y))
                iz = min(range(len(o["zs"])), key=lambda i: abs(o["zs"][i] - z))
                found = None
                for dy in (0, -1, 1):
                    for dx in (0, -1, 1):
                        jx, jy = ix + dx, iy + dy
                        if 0 <= jx < len(o["xs"]) and 0 <= jy < len(o["ys"]):
                            c = o["rows"][iz * len(o["ys"]) + jy][jx]
                            a = _attribute([c])
                            if a:
                                found = found or a
                if found:
                    keys |= found
                else:
                    unexplained.append(ls)
            ks = sorted(k for k in keys if k != "combined") or trig_keys
            known = ks[0] if ks and not unexplained else None
            ck.violation(
                f"program {p['id']} ({p['fam']}): {len(rr['lost_scenes'])} object positions of {rr['scenes']} accepted scenes of the "
                f"unpruned program lie outside the real pruned region",
                dict(base_replay, lost_scenes=rr["lost_scenes"][:6], unexplained=unexplained[:6], as_implemented_deviation=known),
                known_key=known)
        if len(ck.cov["samples"]) < 3 and so:
            o = so[min(so)]
            ck.sample({"program": text, "object": min(so),
                       "probe_rows_top_to_bottom": ["".join("." if not c & 1 else ("F" if c & 4 else ("i" if c & 8 else "b")) for c in row)
                                                    for row in reversed(o["rows"][:len(o["ys"])])],
                       "legend": ". outside base, b base, i kept by the documented technique, F feasible",
                       "accepted_scenes_checked": rr.get("scenes", 0)})
    ck.cov["lattice"] = tot
    ck.cov["dropped_examples"] = dropped_why[:12]
    ck.cov["slow_pruned_compiles_over_100x"] = slow[:12]
    ck.cov["families"] = fam_stats
    return tot


def main(tier):
    ck = Check("C08", tier, "model_checking")
    _viol = ck.violation

    def violation(msg, replay, known_key=None):  # the replay file carries its own one-line summary
        return _viol(msg, dict(replay, message=msg, known_key_proposed=known_key), known_key=known_key)

    ck.violation = violation
    ck.cov["rule"] = (
        "part 1: every requirement shape (form x operator x constants, both quantities) is one case, non-trivial when it is "
        "satisfiable and implies a bound or uses !=; part 2: fixed core + seeded lattice programs (containment in/on polygons with offsets, "
        "containment with fixed / random (Uniform, Range) yaw, pitch and roll of flat wide and tall thin objects, "
        "box volumes, visibility from a fixed ego (in the plane, above and below it, objects in / on the polygon), "
        "field headings near +-180 degrees with bounded random deviations, two objects on a polygonal vector field with requirement shapes, plus one "
        "standard pairing program per class of unsound extracted interval); a case is one (program, object), non-trivial when "
        "its feasible probe set is neither empty nor the whole base; distinct by program text and object")
    ck.assumptions += [
        "exact sub-universe: quarter-unit lattice, rectilinear polygons / boxes, yaw / pitch / roll and field headings at multiples of "
        "90 degrees (a Range between lattice angles is witnessed by the lattice angles inside it)",
        "pose replay: the spec's containment oracle is compared with the real containsObject on concrete lattice poses",
        "feasibility is decided over a finite witness set for the other object (under-approximation: safe for the verdict)",
        "relative headings of exactly a half turn and visibility within a quarter unit of the view distance are don't-cares; "
        "relative-heading requirements are decided robustly (they must hold one degree to either side as well)",
        "a bounded random heading deviation is witnessed by finitely many interior values",
        "regions that depend on another object's sampled position (visibility pruning with a random observer) are probed "
        "before that pass (observed by wrapping pruneVisibility, behaviour unchanged)",
        "the printers gen_pruning.shape_text / program_text are trusted glue (the real unpruned region is checked against the spec's base)",
        "voxel erosion of mesh containers and generic real-valued poses are outside the sub-universe",
    ]
    t0 = time.time()
    pairing, _obs = relations_part(ck, tier)
    t1 = time.time()
    lattice_part(ck, tier, pairing)
    ck.cov["phase_wall_s"] = {"relations": round(t1 - t0, 1), "lattice": round(time.time() - t1, 1),
                              "tlc": round(sum(r["wall_s"] for r in ck.cov["tlc_runs"]), 1)}
    ck.cov["exhaustive"] = False
    ck.cov["explanation"] = ("Relations: TLC enumerates every generated shape (quick: seeded subset of the two-constant forms); "
                             "Pruning: TLC scans every probe row of every (program, object)")
    return ck.finish()


if __name__ == "__main__":
    sys.exit(main(sys.argv[1] if len(sys.argv) > 1 else "quick"))


def replay(path):
    """Re-run one replay file: compile the program with and without pruning and show what the
    replay is about (refusal, lost probes, lost scenes)."""
    import scenic
    import scenic.syntax.translator as translator
    from scenic.core.vectors import Vector

    d = json.load(open(path))
    print(d.get("message", ""))
    text = d["program"]
    print(text)
    out = {}
    for prune in (False, True):
        translator.usePruning = prune
        try:
            out[prune] = scenic.scenarioFromString(text, mode2D=False)
            print(f"pruning={prune}: compiled")
        except BaseException as e:
            out[prune] = None
            print(f"pruning={prune}: {type(e).__name__}: {e}")
        finally:
            translator.usePruning = True
    sp = out.get(True)
    if sp is not None and d.get("lost_probes"):
        i = int(d.get("object", 1)) - 1
        reg, _off = _region_of(sp.objects[i].position._conditioned)
        for xyz in d["lost_probes"]:
            print(f"  feasible probe {xyz}: in real pruned region = {bool(reg.containsPoint(Vector(*xyz)))}")
    rc = 0
    if out.get(True) is None and out.get(False) is not None:
        rc = 1
    return rc
