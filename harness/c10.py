"""C10 — the front end is total: a scenario or a located syntax error, never a crash.

Specs: spec/FrontEnd.tla (lifecycle of a compilation over the veneer's global state, model-checked
exhaustively), spec/FrontEndTrace.tla (validates recorded runs of the real front end),
spec/FrontEndForms.tla (documented grouping of requirement connectives / temporal operators).
Binding: M2 — seeded token-level mutants of the repository's programs are compiled with
scenic.scenarioFromString and with parse_string + compileScenicAST + compile() under an alarm,
events are recorded by probes installed from outside (no repository hooks) and TLC accepts or
rejects each trace; M1 — every form printed by FrontEndForms and every form quoted in the headings
of docs/reference/{statements,operators,specifiers}.rst must compile, with the documented grouping.
"""

import ast
import contextlib
import glob
import io
import json
import os
import random
import re
import signal
import sys
import time
import tokenize

from common import Check, MachineryError, REPO, pmap, run_tlc, scratch, seed
import c09

MC_CFG = """SPECIFICATION Spec
CONSTANTS MaxDepth = 2
 MaxImports = 3
 Lines = 2
 Runs = 2
INVARIANT TypeOK
INVARIANT ActivityIsDepth
INVARIANT QuiescentWhenIdle
INVARIANT OutcomeAllowed
INVARIANT LoadingModelScoped
INVARIANT PathScoped
CHECK_DEADLOCK TRUE
"""

TRACE_CFG = """SPECIFICATION TraceSpec
CONSTANTS MaxDepth = 8
 MaxImports = 45
 Lines = 1
 Runs = 1
INVARIANT TypeOK
INVARIANT ActivityIsDepth
INVARIANT QuiescentWhenIdle
INVARIANT OutcomeAllowedOrKnown
INVARIANT LoadingModelScoped
INVARIANT PathScoped
INVARIANT EmitAccepted
CHECK_DEADLOCK FALSE
"""

FORMS_CFG = """SPECIFICATION Spec
CONSTANTS NAtoms = %d
 FDepth = 2
INVARIANT SameWithoutRules
INVARIANT EmitForm
CHECK_DEADLOCK FALSE
"""

ALARM_S = 10
INPUT_STAGES = ("Parse", "Compile", "PyCompile")

# --------------------------------------------------------------------------- probes (worker side)

LOG = []
_state = {"stage": [], "pending_model": False, "installed": False, "base_path": None, "base_mods": None}


class _Alarm(BaseException):
    """Raised by the watchdog; BaseException so that user code cannot swallow it."""


def _on_alarm(_sig, _frm):
    # effective only while the code under test runs: never interrupt the harness's own bookkeeping
    if _state.get("armed"):
        _state["armed"] = False
        raise _Alarm()


def nlines(text):
    """Lines of a text as the tokenizer sees it: an unterminated last line gets its (virtual) newline,
    and the end-of-file position is on the line after the last newline."""
    if text and not text.endswith("\n"):
        text += "\n"
    return text.count("\n") + 1


def bracket_depth(text):
    """Maximal nesting of ( [ { in a text (strings / comments are not excluded: an over-estimate)."""
    d = m = 0
    for ch in text:
        if ch in "([{":
            d += 1
            m = max(m, d)
        elif ch in ")]}":
            d = max(0, d - 1)
    return m


def signature(exc, stage, text, tb_names):
    """Key of the as-implemented deviation an escaping internal error belongs to, if any
    (trigger = exception type + message prefix + raising function, plus a predicate on the input
    where one can be stated)."""
    msg = f"{type(exc).__name__}: {exc}"
    if stage == "Parse":
        if msg.startswith("AttributeError: 'TokenInfo' object has no attribute 'lineno'"):
            import gen_pyast as G

            return "fstring-conversion-crash" if "fstr-bang" in G.features(text) else None
        if msg.startswith("ValueError: unexpected expression in assignment") and "get_expr_name" in tb_names:
            return "invalid-target-scenic-expr"
        if isinstance(exc, KeyError) and tb_names[-1:] == ["get_lines"]:
            return "error-span-lines-keyerror"
        if type(exc) is SyntaxError and "literal_eval" in tb_names:
            return "number-literal-raw-syntaxerror"
        if isinstance(exc, SystemError) and "\x00" in text:
            return "nul-byte-systemerror"
        if msg.startswith("ValueError: could not convert string to float") and re.search(r"require\s*\[", text):
            return "require-prob-not-float"
        if isinstance(exc, RecursionError) and bracket_depth(text) >= 15:
            return "nested-brackets-recursionerror"
        if msg.startswith("AttributeError:") and "has no attribute 'end_lineno'" in msg and "raise_syntax_error_known_range" in tb_names:
            return "legacy-instance-error-attributeerror"
        if msg.startswith("TypeError: '<' not supported between instances of 'int' and 'NoneType'") and "getText" in tb_names and "\x00" in text:
            return "nul-byte-file-typeerror"
    if stage == "Preamble" and isinstance(exc, UnicodeDecodeError):
        return "non-utf8-file-unicodedecodeerror"
    if stage in ("Compile", "PyCompile") and isinstance(exc, RecursionError) and len(text) >= 400:
        # a syntax tree some hundred levels deep: a long chain of binary operators, attribute accesses,
        # calls or elif clauses
        return "long-chain-compile-recursionerror"
    if stage == "Compile" and msg.startswith('AssertionError: Scenic AST node "') and "needs visitor in compiler" in msg:
        return "temporal-in-ifexp-assertion"
    if stage == "PyCompile":
        if msg.startswith(("TypeError: AnnAssign with simple non-Name target", "TypeError: TypeAlias with non-Name name",
                           "TypeError: NamedExpr target must be a Name")):
            return "behavior-annassign-crash"
        if msg.startswith("TypeError: got an invalid type in Constant: list") and re.search(r"require\s+monitor\b.*\bas\b", text):
            return "require-monitor-as-typeerror"
        if msg.startswith("TypeError: expected some sort of expr, but got <scenic.syntax.ast.") and re.search(r"\breturn\b", text) and "interrupt" in text:
            return "return-scenic-in-interrupt-typeerror"
        if msg.startswith("ValueError: Try has orelse but no except handlers"):
            return "try-interrupt-else-valueerror"
        if msg.startswith(('TypeError: Tuple field "elts" must be a list', 'TypeError: List field "elts" must be a list',
                           "TypeError: object of type 'NoneType' has no len()", "TypeError: 'NoneType' object is not iterable")) and re.search(r"\(\s*\)|\[\s*\]", text):
            return "empty-target-elts-none"
    return None


def _kind(e, stage):
    from scenic.core.errors import InvalidScenarioError, ScenicSyntaxError

    if isinstance(e, _Alarm):
        return "timeout" if stage in INPUT_STAGES else "user"
    if isinstance(e, ScenicSyntaxError):
        return "syntax"
    if stage in INPUT_STAGES or stage == "Preamble":  # Preamble: reading / decoding the source text
        return "internal"
    if isinstance(e, InvalidScenarioError):
        return "invalid"
    return "user"


def _line(e):
    l = getattr(e, "lineno", None)
    return l if isinstance(l, int) and l > 0 else 0


def _textok(e):
    """1 iff the error's `text` is the text of the line it names in the file it names (when that file
    is on disk; a line past the end has no text)."""
    fn, ln = getattr(e, "filename", None), _line(e)
    if not fn or ln == 0 or not isinstance(fn, str) or not os.path.isfile(fn):
        return 1
    try:
        with open(fn, "r") as f:
            lines = f.readlines()
    except (OSError, UnicodeDecodeError):
        return 1
    want = lines[ln - 1] if ln <= len(lines) else ""
    return 1 if (getattr(e, "text", None) or "") == want else 0


def _execstate():
    import scenic.syntax.veneer as V

    return ["execstate", "", "", int(len(V._globalParameters) > 0), int(len(V.scenarios) > 0), int(V.simulatorFactory is not None)]


def snapshot():
    """The veneer projection in the encoding of FrontEndTrace.Flags (+512 for anything else dirty)."""
    import scenic.core.object_types as OT
    import scenic.syntax.translator as T
    import scenic.syntax.veneer as V

    flags = 0
    flags |= 1 if V.currentScenario is not None else 0
    flags |= 2 if len(V.scenarios) > 0 else 0
    flags |= 4 if len(V._globalParameters) > 0 else 0
    flags |= 8 if (V.lockedParameters or V.lockedModel is not None) else 0
    two_d = V.mode2D or V.Point is not V._originalConstructibles[0] or V.Object is not V._originalConstructibles[2] or OT.Object is not V._originalConstructibles[2]
    flags |= 16 if two_d else 0
    flags |= 32 if V.simulatorFactory is not None else 0
    flags |= 64 if V.loadingModel else 0
    flags |= 128 if sys.path != _state["base_path"] else 0
    mods = {n for n, m in list(sys.modules.items()) if isinstance(m, T.ScenicModule)}
    flags |= 256 if mods != _state["base_mods"] else 0
    other = V.evaluatingRequirement or V.evaluatingGuard or V.currentSimulation is not None or V.currentBehavior is not None or V.runningScenarios
    flags |= 512 if other else 0
    return ["snap", "", "", V.activity, len(V.scenarioStack), flags]


def install_probes():
    """Wrap the critical sections of the translator / veneer from outside (no repository hooks)."""
    if _state["installed"]:
        return
    import scenic
    import scenic.syntax.translator as T
    import scenic.syntax.veneer as V

    c09.setup_parser()

    def staged(name, fn):
        def wrapper(*a, **k):
            if name == "Parse":
                LOG.append(["pre", "", "", 0, 0, 0])
            _state["stage"].append(name)
            try:
                r = fn(*a, **k)
            except BaseException as e:
                if not getattr(e, "_c10_seen", False):
                    try:
                        e._c10_seen = True
                    except Exception:
                        pass
                    if name in ("Exec",):
                        LOG.append(_execstate())
                    e._c10_stage = name
                    import traceback

                    e._c10_tb = [fr.name for fr in traceback.extract_tb(e.__traceback__)][-6:]
                    k = _kind(e, name)
                    LOG.append(["fail", name, k, _line(e), _textok(e) if k == "syntax" else 1, 0])
                raise
            finally:
                _state["stage"].pop()
            if name == "Exec":
                LOG.append(_execstate())
            LOG.append(["ok", name, "", 0, 0, 0])
            return r

        return wrapper

    T.parse_string = staged("Parse", T.parse_string)
    T.compileScenicAST = staged("Compile", T.compileScenicAST)
    T.compileTranslatedTree = staged("PyCompile", T.compileTranslatedTree)
    o_cs = T.compileStream

    def compileStream(*a, **k):
        mark = len(LOG)
        try:
            return o_cs(*a, **k)
        except BaseException as e:
            # an error before parse_string is entered: reading / decoding the source (the frame's Preamble stage)
            if not getattr(e, "_c10_seen", False) and not any(ev[0] == "pre" for ev in LOG[mark:]):
                import traceback

                from scenic.core.errors import ScenicSyntaxError

                e._c10_seen = True
                e._c10_tb = [fr.name for fr in traceback.extract_tb(e.__traceback__)][-6:]
                at = next((i for i in range(mark, len(LOG)) if LOG[i][0] == "deactivate"), len(LOG))
                if isinstance(e, ScenicSyntaxError):
                    # a located syntax error for text that cannot even be decoded: reading the source is
                    # the first part of parsing it
                    e._c10_stage = "Parse"
                    LOG[at:at] = [["pre", "", "", 0, 0, 0], ["fail", "Parse", "syntax", _line(e), _textok(e), 0]]
                else:
                    e._c10_stage = "Preamble"
                    LOG.insert(at, ["fail", "Preamble", "internal", 0, 1, 0])
            raise

    T.compileStream = compileStream
    o_a2s = T.astToSource

    def astToSource(tree):
        try:
            return o_a2s(tree)
        except BaseException as e:
            if not getattr(e, "_c10_seen", False):
                import traceback

                e._c10_seen, e._c10_stage = True, "PyCompile"
                e._c10_tb = [fr.name for fr in traceback.extract_tb(e.__traceback__)][-6:]
                LOG.append(["fail", "PyCompile", _kind(e, "PyCompile"), _line(e), 1, 0])
            raise

    T.astToSource = astToSource
    T.executeCodeIn = staged("Exec", T.executeCodeIn)
    T.storeScenarioStateIn = staged("Store", T.storeScenarioStateIn)
    T.constructScenarioFrom = staged("Construct", T.constructScenarioFrom)

    o_act, o_deact, o_model = V.activate, V.deactivate, V.model

    def activate(options, namespace=None):
        r = o_act(options, namespace)
        LOG.append(["activate", "", "", V.activity, len(V.scenarioStack), 0])
        return r

    def deactivate():
        r = o_deact()
        LOG.append(["deactivate", "", "", V.activity, len(V.scenarioStack), 0])
        return r

    def model(namespace, modelName):
        _state["pending_model"] = True
        try:
            return o_model(namespace, modelName)
        finally:
            _state["pending_model"] = False

    V.activate, V.deactivate, V.model = activate, deactivate, model

    o_exec = T.ScenicLoader.exec_module

    def exec_module(self, module):
        kind = "model" if _state["pending_model"] else "import"
        _state["pending_model"] = False
        try:
            n = nlines(open(self.filepath).read())
        except OSError:
            n = 1
        LOG.append(_execstate())
        LOG.append(["push", kind, "", n, 0, 0])
        try:
            return o_exec(self, module)
        finally:
            LOG.append(["return", "", "", 0, 0, 0])

    T.ScenicLoader.exec_module = exec_module

    o_tln = T.topLevelNamespace

    @contextlib.contextmanager
    def topLevelNamespace(path=None):
        try:
            with o_tln(path) as ns:
                yield ns
        finally:
            LOG.append(["poppath", "", "", 0, 0, 0])

    T.topLevelNamespace = topLevelNamespace
    _state["installed"] = True


def worker_init(workdir):
    install_probes()
    import scenic.syntax.translator as T

    os.chdir(workdir)
    if _state["base_path"] is None:
        _state["base_path"] = list(sys.path)
        _state["base_mods"] = {n for n, m in list(sys.modules.items()) if isinstance(m, T.ScenicModule)}
    try:
        import resource

        resource.setrlimit(resource.RLIMIT_AS, (6 << 30, 6 << 30))
    except Exception:
        pass


def run_one(text, mode, opts):
    """Run one input through the front end; returns (events, info).  mode: "top" | "direct"."""
    import scenic
    import scenic.syntax.translator as T

    del LOG[:]
    _state["stage"][:] = []
    _state["pending_model"] = False
    written = []
    if mode == "file":
        # the program is compiled FROM A FILE (errors.getText then reads the file back); text is the
        # decoded content, opts["bytes"] the exact bytes, opts["aux"] further files (imported modules)
        _state["fileno"] = _state.get("fileno", 0) + 1
        path = os.path.join(os.getcwd(), f"c10prog_{os.getpid()}_{_state['fileno']}.scenic")
        for fn, data in [(path, opts["bytes"])] + [(os.path.join(os.getcwd(), k), v) for k, v in (opts.get("aux") or {}).items()]:
            with open(fn, "wb") as f:
                f.write(data)
            written.append(fn)
    n = nlines(text)
    LOG.append(snapshot())
    LOG.append(["begin", "top" if mode == "file" else mode, "", int(bool(opts.get("params"))), int(bool(opts.get("mode2D"))), n])
    info = {"exc": None, "stage": None}
    # watchdog on the CPU time of this process (the box may be heavily loaded), plus a generous wall clock
    old = signal.signal(signal.SIGALRM, _on_alarm)
    oldv = signal.signal(signal.SIGVTALRM, _on_alarm)
    signal.alarm(ALARM_S * 12)
    signal.setitimer(signal.ITIMER_VIRTUAL, ALARM_S)
    sink = io.StringIO()
    try:
        _state["armed"] = True
        with contextlib.redirect_stdout(sink), contextlib.redirect_stderr(sink):
            if mode == "top":
                scenic.scenarioFromString(text, params=dict(opts.get("params") or {}), mode2D=bool(opts.get("mode2D")))
            elif mode == "file":
                scenic.scenarioFromFile(path, mode2D=bool(opts.get("mode2D")))
            else:
                st = T.parse_string(text, "exec", filename="<string>")
                tree, _r = T.compileScenicAST(st, filename="<string>")
                T.compileTranslatedTree(tree, "<string>")
        _state["armed"] = False
        signal.alarm(0)
        signal.setitimer(signal.ITIMER_VIRTUAL, 0)
        LOG.append(["end", "ok", "none", 0, 0, 0])
    except BaseException as e:
        _state["armed"] = False
        signal.alarm(0)
        signal.setitimer(signal.ITIMER_VIRTUAL, 0)
        if isinstance(e, KeyboardInterrupt):
            raise
        stage = getattr(e, "_c10_stage", None)
        if stage is None:
            # raised outside every probed section (e.g. inside veneer.activate): an internal error
            # (right after veneer.activate the frame is in its Preamble stage: reading / decoding the source)
            stage = "Preamble" if LOG and LOG[-1][0] == "activate" else "Activate"
            LOG.append(["fail", stage, "internal", 0, 1, 0])
            kind = "internal"
            import traceback

            e._c10_tb = [fr.name for fr in traceback.extract_tb(e.__traceback__)][-6:]
        else:
            kind = _kind(e, stage)
        info = {"exc": f"{type(e).__name__}: {e}"[:300], "stage": stage, "kind": kind, "line": _line(e),
                "filename": getattr(e, "filename", None), "timeout": isinstance(e, _Alarm),
                "raised_in": getattr(e, "_c10_tb", []), "known": signature(e, stage, text, getattr(e, "_c10_tb", [])) if kind == "internal" else None}
        LOG.append(["end", "fail", kind, _line(e) if stage in INPUT_STAGES else 0, 0, 0])
    finally:
        _state["armed"] = False
        signal.alarm(0)
        signal.setitimer(signal.ITIMER_VIRTUAL, 0)
        signal.signal(signal.SIGALRM, old)
        signal.signal(signal.SIGVTALRM, oldv)
    if mode == "direct":
        LOG[:] = [ev for ev in LOG if ev[0] != "pre"]  # the bare pipeline has no preamble
    for fn in written:
        try:
            os.unlink(fn)
        except OSError:
            pass
    LOG.append(snapshot())
    return [list(ev) for ev in LOG], info


def run_chunk(item):
    """Worker: run a chunk of inputs sequentially in this process (so that state leaking from one
    compilation into the next is seen).  item = (workdir, [(rid, text, mode, opts), ...])."""
    workdir, runs = item
    worker_init(workdir)
    out = []
    for rid, text, mode, opts in runs:
        for attempt in (1, 2):
            try:
                ev, info = run_one(text, mode, opts)
                out.append((rid, ev, info))
                break
            except KeyboardInterrupt:
                raise
            except BaseException as e:  # a failure of the harness's own bookkeeping around one run:
                _state["armed"] = False  # retry once, then drop the run (counted, never a verdict)
                signal.alarm(0)
                signal.setitimer(signal.ITIMER_VIRTUAL, 0)
                if attempt == 2:
                    out.append((rid, None, {"machinery": f"{type(e).__name__}: {e}"[:200]}))
    return out


# --------------------------------------------------------------------------- seeds and mutation

HAND_WRITTEN = {
    "hw-basic": "ego = new Object at (1, 2)\nx = Range(0, 1)\nrequire x > 0.5\n",
    "hw-param": "param p = Range(0, 1), q = 3\nego = new Object with width globalParameters.q\n",
    "hw-class": "class Foo:\n    bar: 3\n    baz: self.bar + 1\nego = new Foo at (0, 0), with bar 5\n",
    "hw-behavior": "behavior B(x=1):\n    precondition: x > 0\n    try:\n        while True:\n            wait\n    interrupt when x > 5:\n        abort\nego = new Object with behavior B(2)\n",
    "hw-scenario": "scenario Sub():\n    setup:\n        ego = new Object\nscenario Main():\n    compose:\n        do Sub()\n",
    "hw-temporal": "ego = new Object\nrequire always ego.x > 0 implies ego.y > 0\nrequire eventually (ego.x > 5 until ego.y > 5)\nterminate after 5 steps\n",
    "hw-import": "import c10_helper\nego = new Object at (c10_helper.val, 0)\n",
    "hw-import-from": "from c10_helper import val, Thing\nego = new Thing at (val, 0)\n",
    "hw-import-nested": "import c10_mid\nego = new Object at (c10_mid.w, 0)\n",
    "hw-import-broken": "ego = new Object\nimport c10_broken\n",
    "hw-import-raising": "param p = 3\nimport c10_raising\nego = new Object\n",
    "hw-import-mid-broken": "import c10_midbroken\nego = new Object\n",
    "hw-model": "model c10_model\nego = new Thing at (1, 1)\n",
    "hw-model-broken": "param q = 1\nmodel c10_broken\nego = new Object\n",
    "hw-model-model": "model c10_modelmodel\nego = new Object\n",
    "hw-model-missing": "model c10_nonexistent\nego = new Object\n",
    "hw-monitor": "monitor M(a):\n    while True:\n        require a > 0\n        wait\nego = new Object\nrequire monitor M(1)\nrecord ego.position as pos\n",
    "hw-specifiers": "ego = new Object at (0, 0), facing 30 deg\nb = new Object left of ego by 2, with color (1, 0, 0)\nc = new Object beyond b by 3 from ego\nrequire (distance from b to c) > 1\nmutate b by 2\n",
    "hw-python": "import math\ndef f(a, *b, c=1, **d):\n    return [a + i for i in b if i] or {c: d}\nx = f(1, 2, 3) if math.pi > 3 else None\nego = new Object at (len(x), 0)\n",
    "hw-fstring": "n = 3\ns = f'{n!r:>4} {n=}'\nego = new Object\n",
}

# targeted malformed / unusual programs (forms mutation reaches only by luck); each must end in a
# scenario or a located Scenic error like everything else
TARGETED = {
    "tg-require-prob-complex": "ego = new Object\nrequire[1j] ego.x > 0\n",
    "tg-require-prob-hex": "ego = new Object\nrequire[0x1] ego.x > 0\n",
    "tg-require-prob-big": "ego = new Object\nrequire[2] ego.x > 0\n",
    "tg-span-blank-line": "x = (1 +\n\n  2 3)\ny = 1\n",
    "tg-span-3line-string": "x = f('''a\nb\nc''' 3)\n",
    "tg-span-unclosed": "angle = (8 deg - 3 deg\n\nc = new Object at 1 @ 2,\n    facing angle\nmutate\n",
    "tg-nested-parens-12": "x = " + "(" * 12 + "1" + ")" * 12 + "\n",
    "tg-nested-parens-25": "x = " + "(" * 25 + "1" + ")" * 25 + "\n",
    "tg-nested-lists-25": "x = " + "[" * 25 + "1" + "]" * 25 + "\n",
    "tg-nested-calls-30": "x = " + "f(" * 30 + "1" + ")" * 30 + "\n",
    "tg-legacy-instance": "ego = Object beyond x by y\n",
    "tg-legacy-instance-at": "ego = Object at 1 @ 2\n",
    "tg-legacy-instance-facing": "ego = new Object\nc = Car facing 30 deg, with width 2\n",
    "tg-require-monitor-as": "monitor M():\n    wait\nego = new Object\nrequire monitor M() as nm\n",
    "tg-require-as": "ego = new Object\nrequire ego.x > 0 as nm\nrequire[0.5] ego.y > 0 as 'quoted name'\n",
    "tg-bad-escape-x": 'x = "\\x"\nego = new Object\n',
    "tg-bad-escape-u": 'x = "\\u12"\nego = new Object\n',
    "tg-bad-escape-N": 'x = "\\N{NOT A NAME}"\nego = new Object\n',
    "tg-bad-escape-bytes": "x = b'\\xz'\nego = new Object\n",
    "tg-leading-zero": "x = 010\nego = new Object\n",
    "tg-bad-number": "x = 1__0 + 0x + 1e + 0b2\n",
    "tg-try-interrupt-else-finally": "behavior B():\n    try:\n        wait\n    interrupt when x:\n        wait\n    else:\n        wait\n    finally:\n        wait\n",
    "tg-try-interrupt-else": "behavior B():\n    try:\n        wait\n    interrupt when x:\n        wait\n    else:\n        wait\n",
    "tg-try-interrupt-finally": "behavior B():\n    try:\n        wait\n    interrupt when x:\n        wait\n    finally:\n        wait\nego = new Object\n",
    "tg-try-interrupt-except-else": "behavior B():\n    try:\n        wait\n    interrupt when x:\n        wait\n    except E:\n        wait\n    else:\n        wait\nego = new Object\n",
    "tg-always-ifelse": "ego = new Object\nrequire always ego.x if ego.y else ego.z\n",
    "tg-ifelse-always": "ego = new Object\nrequire ego.x if ego.y else always ego.z\n",
    "tg-always-paren-ifelse": "ego = new Object\nrequire always (ego.x if ego.y else ego.z)\n",
    "tg-walrus-behavior": "behavior B():\n    if (n := 3) > 1:\n        wait\nego = new Object\n",
    "tg-annassign-behavior": "behavior B():\n    n: int = 3\n    wait\nego = new Object\n",
    "tg-typealias-monitor": "monitor M():\n    type T = int\n    wait\nego = new Object\n",
    "tg-empty-tuple-for": "for () in []:\n    pass\nego = new Object\n",
    "tg-empty-list-assign": "[] = []\n() = ()\nego = new Object\n",
    "tg-empty-del": "del ()\ndel []\nego = new Object\n",
    "tg-empty-with": "with open('x') as ():\n    pass\n",
    "tg-star-annotation": "def f(*a: *T):\n    return a\nego = new Object\n",
    "tg-fstring-conversion": "n = 3\ns = f'{n!r}'\nego = new Object\n",
    "tg-nul-indented": "scenario S():\n    setup:\n        ego = \x00 new Object\n",
    "tg-scenic-target": "target = new Object = facing 3 deg\nx = 1 @ 2 = 3\n",
    "tg-ternary-chain": "x = 1 if a else 2 if b else 3\ny = 1 if a else lambda: 2\nego = new Object\n",
    "tg-temporal-group-implies": "ego = new Object\nrequire (always ego.x > 0) implies ego.y > 0\n",
    "tg-crlf": "ego = new Object\r\nx = (1,\r\n  2)\r\nrequire x[0] > = 0\r\n",
    "tg-tabs-mixed": "behavior B():\n\twait\n        wait\n",
    "tg-formfeed": "ego = new Object\n\x0cx = 1 +\n",
    "tg-bom": "\ufeffego = new Object\nx = = 1\n",
    "tg-nonascii": "été = 'é中'\nα = été +\n",
    "tg-only-comment": "# nothing here",
    "tg-empty": "",
    "tg-only-newlines": "\n\n\n",
    "tg-backslash-eof": "x = 1 + \\",
    "tg-unterminated-string": "x = 'abc\nego = new Object\n",
    "tg-unterminated-triple": "x = '''abc\nego = new Object\n",
    "tg-unterminated-fstring": "x = f'{a\nego = new Object\n",
    "tg-long-chain-300": "x = " + "+".join(["1"] * 300) + "\nego = new Object\n",
    "tg-long-chain-3000": "x = " + " + ".join(["1"] * 3000) + "\nego = new Object\n",
    "tg-long-chain-str": "x = " + " + ".join(["'a'"] * 400) + "\nego = new Object\n",
    "tg-long-and-chain": "x = " + " and ".join(["aa"] * 600) + "\n",
    "tg-long-compare-chain": "x = " + " < ".join(["1"] * 600) + "\n",
    "tg-long-attr-chain": "x = aa" + ".bb" * 400 + "\n",
    "tg-long-call-chain": "x = ff" + "()" * 400 + "\n",
    "tg-long-list": "x = [" + ", ".join(["1"] * 400) + "]\nego = new Object\n",
    "tg-long-elif": "if aa:\n    pass\n" + "elif aa:\n    pass\n" * 300,
    "tg-return-scenic-interrupt": "behavior B():\n    try:\n        return 5 deg\n    interrupt when cc0:\n        return (distance from oo0 to oo1)\nego = new Object\n",
    "tg-formfeed-debug": "ss0 = \"a\x0cb\"\nyy0 = f\"{ss0=}\"\nego = new Object\n",
    "tg-linesep-debug": "ss0 = \"a\u2028b\\x1cc\x85d\"\nyy0 = f\"{ss0 = }\"\nzz0 = (1 +\n  2 3)\n",
    "tg-dedent-mismatch": "behavior B():\n        wait\n    wait\n",
}

HELPERS = {
    "c10_helper.scenic": "val = 3\nclass Thing:\n    qq: 1\nparam hp = 1\n",
    "c10_mid.scenic": "import c10_helper\nw = c10_helper.val + 1\nscenario SubM():\n    setup:\n        ego = new Object\n",
    "c10_broken.scenic": "x = 1\ny = = 2\n",
    "c10_raising.scenic": "x = 1\nsimulator None\nraise ValueError('boom')\n",
    "c10_midbroken.scenic": "param mm = 2\nimport c10_broken\n",
    "c10_model.scenic": "class Thing:\n    zz: 2\nparam fromModel = 1\n",
    "c10_modelmodel.scenic": "model c10_model\n",
}

_HEAVY = re.compile(r"scenic\.(simulators|domains)|localPath|\.xodr|\.wbt|\.sumo|import\s+(carla|metadrive|lgsvl)")


def collect_seeds():
    """Seed programs: .scenic files of examples/ and tests/, program strings passed to the test
    helpers (compileScenic, sample*From) in tests/, and the hand-written ones.
    Returns list of (sid, text, light) -- light = cheap to execute (no simulator / map world model)."""
    seeds = []
    for base in ("examples", "tests"):
        for path in sorted(glob.glob(os.path.join(REPO, base, "**", "*.scenic"), recursive=True)):
            try:
                text = open(path).read()
            except (OSError, UnicodeDecodeError):
                continue
            if len(text) > 6000:
                continue
            seeds.append((os.path.relpath(path, REPO), text, not _HEAVY.search(text) and "/tests/syntax/" in path))
    import textwrap

    for path in sorted(glob.glob(os.path.join(REPO, "tests", "**", "*.py"), recursive=True)):
        try:
            tree = ast.parse(open(path).read())
        except (SyntaxError, OSError):
            continue
        k = 0
        for node in ast.walk(tree):
            if isinstance(node, ast.Call) and isinstance(node.func, ast.Name) and re.match(r"compileScenic|sample\w*From|checkIfSamples", node.func.id):
                if node.args and isinstance(node.args[0], ast.Constant) and isinstance(node.args[0].value, str):
                    text = textwrap.dedent(node.args[0].value).lstrip("\n")
                    if 0 < len(text) < 4000:
                        rel = os.path.relpath(path, REPO)
                        light = not _HEAVY.search(text) and "/simulators/" not in path and "/domains/" not in path
                        seeds.append((f"{rel}#{k}", text, light))
                        k += 1
    for sid, text in list(HAND_WRITTEN.items()) + list(TARGETED.items()):
        seeds.append((sid, text, True))
    # distinct texts only
    seen = set()
    out = []
    for sid, text, light in seeds:
        if text not in seen:
            seen.add(text)
            out.append((sid, text, light))
    return out


VOCAB = ["(", ")", "[", "]", "{", "}", ",", ":", ";", ".", "=", "==", "+", "-", "*", "**", "@", "->", ":=", "...", "!", "'", '"', "\\",
         "if", "else", "for", "in", "not", "and", "or", "is", "lambda", "def", "class", "return", "yield", "import", "from", "as", "with", "try",
         "except", "finally", "while", "pass", "None", "del", "global", "await", "async", "match", "case", "type",
         "new", "at", "of", "by", "to", "on", "until", "do", "require", "always", "eventually", "next", "implies", "ego", "workspace",
         "behavior", "monitor", "scenario", "setup", "compose", "precondition", "invariant", "interrupt", "when", "take", "wait", "terminate",
         "record", "mutate", "param", "model", "simulator", "override", "abort", "choose", "shuffle", "seconds", "steps", "deg",
         "facing", "toward", "visible", "from", "offset", "along", "beyond", "left", "right", "ahead", "behind", "above", "below", "following",
         "relative", "distance", "angle", "can", "see", "intersects", "initial", "final", "after", "every",
         "x", "1", "0.5", "1e400", "1j", "'s'", "f'{x!r}'", "f'{", "'''", "\t", "\n", "    ", "#", "é", "\x00", "\x0c", "str", "globalParameters"]
OPS = ("delete", "insert", "replace", "swap", "reindent", "truncate")


def token_spans(text):
    """(start offset, end offset) of every token of text (best effort: up to the first token error)."""
    offs = [0]
    for l in text.splitlines(True):
        offs.append(offs[-1] + len(l))
    spans = []
    try:
        for t in tokenize.generate_tokens(io.StringIO(text).readline):
            if t.type in (tokenize.ENDMARKER, tokenize.NL, tokenize.NEWLINE, tokenize.INDENT, tokenize.DEDENT) or not t.string:
                continue
            s = offs[t.start[0] - 1] + t.start[1]
            e = offs[t.end[0] - 1] + t.end[1]
            spans.append((s, e))
    except Exception:  # TokenError, IndentationError, SyntaxError ... and the SystemError CPython 3.12's tokenizer
        pass           # raises on a NUL byte inside an indented block: keep the tokens seen so far
    return spans


def mutate(text, op, pos, arg):
    """Apply one mutation.  pos indexes tokens (delete/insert/replace/swap), lines (reindent) or
    characters (truncate); arg is a vocabulary index, a token offset or an indentation delta.
    Returns (mutated text, tokens before, tokens after as the spec's MutLen predicts)."""
    spans = token_spans(text)
    n = len(spans)
    if op == "truncate":
        k = pos % (len(text) + 1)
        kept = sum(1 for s, e in spans if e <= k)
        return text[:k], n, kept, kept + 1
    if op == "reindent":
        lines = text.splitlines(True)
        if not lines:
            return text, n, n, 1
        i = pos % len(lines)
        body = lines[i].lstrip(" \t")
        cur = len(lines[i]) - len(body)
        delta = (-4, -1, 1, 2, 4, 8)[arg % 6]
        ws = "\t" if arg % 7 == 6 else " " * max(0, cur + delta)
        lines[i] = ws + body
        return "".join(lines), n, n, 1
    if n == 0:
        return text + VOCAB[arg % len(VOCAB)], 0, 1, 1
    i = pos % n
    s, e = spans[i]
    if op == "delete":
        return text[:s] + text[e:], n, n - 1, i + 1
    if op == "insert":
        return text[:s] + VOCAB[arg % len(VOCAB)] + " " + text[s:], n, n + 1, i + 1
    if op == "replace":
        return text[:s] + VOCAB[arg % len(VOCAB)] + text[e:], n, n, i + 1
    if op == "swap":
        j = (i + 1 + arg % 3) % n
        if j == i:
            return text, n, n, i + 1
        (s1, e1), (s2, e2) = sorted([(s, e), spans[j]])
        return text[:s1] + text[s2:e2] + text[e1:s2] + text[s1:e1] + text[e2:], n, n, i + 1
    raise ValueError(op)


# --------------------------------------------------------------------------- documented forms

OPERANDS = {
    "boolean": "bb0", "number": "0.5", "scalar": "3", "vector": "vv0", "Object": "oo0", "object": "oo0", "Point": "pt0",
    "OrientedPoint": "op0", "region": "rg0", "heading": "hh0", "direction": "dd0", "orientation": "or0", "vectorField": "vf0",
    "condition": "cc0", "hypothesis": "hy0", "conclusion": "co0", "LTL formula": "always cc0", "monitor": "Mn0()", "name": "nm0",
    "module": "md0", "value": "va0", "identifier": "id0", "duration": "3 steps", "recorder": "rc0", "action": "ac0",
    "behavior/scenario": "Bh0()", "specifier": "at vv0", "property": "pr0",
}


def _expand(template):
    """Expand a heading of the reference: *placeholder*, (a | b), [optional], `, . . .` / `, ...`."""
    t = template.replace("\\*", "*")
    t = re.sub(r",\s*(\. \. \.|\.\.\.)", " @REP@", t)

    def parse_seq(i, stop):
        """returns (list of alternatives (each a list of string variants), next index)"""
        variants = [""]
        while i < len(t) and t[i] not in stop:
            ch = t[i]
            if ch == "*":
                j = t.index("*", i + 1)
                name = t[i + 1 : j].strip()
                if name not in OPERANDS:
                    raise KeyError(name)
                piece, i = [OPERANDS[name]], j + 1
            elif ch == "(":
                alts = []
                i += 1
                while True:
                    sub, i = parse_seq(i, "|)")
                    alts.extend(sub)
                    if t[i] == ")":
                        i += 1
                        break
                    i += 1
                piece = alts
            elif ch == "[":
                alts = []
                i += 1
                while True:
                    sub, i = parse_seq(i, "|]")
                    alts.extend(sub)
                    if t[i] == "]":
                        i += 1
                        break
                    i += 1
                piece = [""] + alts
            else:
                j = i + 1  # always make progress (a stray bracket is a literal character)
                while j < len(t) and t[j] not in "*([|])":
                    j += 1
                piece, i = [t[i:j]], j
            variants = [v + p for v in variants for p in piece]
            if len(variants) > 64:
                variants = variants[:64]
        return variants, i

    out, _ = parse_seq(0, "")
    res = []
    for v in out:
        v = re.sub(r"\s+", " ", v).strip()
        if "@REP@" in v:
            # `X, . . .`: the item before the marker once and twice
            m = re.match(r"^((?:(?:do|choose|shuffle|take|mutate|param|override) )+)(.*?) @REP@(.*)$", v)
            head, item, tail = m.group(1), m.group(2), m.group(3)
            if head.strip() == "override":  # override *object* *specifier*, ...
                obj, spec = item.split(" ", 1)
                res.append(f"{head}{obj} {spec}{tail}")
                res.append(f"{head}{obj} {spec}, facing hh0{tail}")
            else:
                res.append(f"{head}{item}{tail}")
                res.append(f"{head}{item}, {item.replace('0', '1')}{tail}")
        else:
            res.append(v)
    return res


def doc_headings():
    """(file, section, heading) for every heading underlined with dashes in the three references."""
    out = []
    for name in ("statements", "operators", "specifiers"):
        path = os.path.join(REPO, "docs", "reference", name + ".rst")
        lines = open(path).read().splitlines()
        section = ""
        for i in range(len(lines) - 1):
            nxt = lines[i + 1]
            if lines[i].strip() and len(nxt) >= 3 and set(nxt) == {"="}:
                section = lines[i].strip()
            if lines[i].strip() and len(nxt) >= 3 and set(nxt) == {"-"}:
                out.append((name, section, lines[i].strip()))
    return out


BEH = "behavior Bq0():\n    %s\n"
COMPOSE = "scenario Sq0():\n    compose:\n        %s\n"
HANDLER = "behavior Bq0():\n    try:\n        wait\n    interrupt when bb1:\n        %s\n"


def doc_forms():
    """Instantiate the documented forms.  Returns (list of (id, program text, parenthesised equivalent
    or None), number of headings that are prose titles and were skipped)."""
    forms, skipped, undocumented = [], 0, 0
    for fname, section, head in doc_headings():
        if fname == "statements" and section == "Compound Statements":
            skipped += 1  # prose titles; their grammar blocks are instantiated below
            continue
        if head in ("Specifier Resolution",):
            skipped += 1
            continue
        tmpl = head
        if tmpl.startswith("require["):
            tmpl = tmpl.replace("require[*number*]", "require<*number*>")
        try:
            texts = _expand(tmpl)
        except (KeyError, ValueError, AttributeError) as e:
            raise MachineryError(f"cannot instantiate documented form {head!r} of {fname}.rst: {e!r}")
        for k, e in enumerate(texts):
            e = e.replace("require<", "require[").replace(">", "]") if head.startswith("require[") else e
            fid = f"{fname}:{head}#{k}"
            if e.startswith("record ") and " as " in e and " to " in e:
                undocumented += 1  # the prose under the heading never shows `as` and `to` together: not promised
                continue
            if fname == "statements" and section == "Simple Statements":
                prog = e + "\n"
            elif fname == "statements" and section == "Dynamic Statements":
                if e.startswith("do ") and "," in e and "{" not in e:
                    prog = COMPOSE % e  # several sub-scenarios in parallel: a compose block
                else:
                    prog = (HANDLER if e == "abort" else BEH) % e
            elif fname == "specifiers":
                prog = f"zz0 = new Object {e}\n"
            elif section == "Temporal Operators":
                prog = f"require {e}\n"
            else:
                prog = f"zz0 = {e}\n"
            forms.append((fid, prog, None))
    # grammar blocks of the compound statements (statements.rst, `scenic-grammar` code blocks)
    compound = {
        "class": "class Cq0:\n    pr0: 1\n",
        "class-super": "class Cq0(Cq1):\n    pr0: 1\n    pr1: self.pr0 + 1\n",
        "class-methods": "class Cq0(Cq1):\n    pr0: 1\n    at0 = 2\n    def mt0(self):\n        return self.pr0\n",
        "behavior": "behavior Bq0(ar0, ar1=1):\n    precondition: bb0\n    invariant: bb1\n    wait\n",
        "behavior-min": "behavior Bq0():\n    take ac0\n",
        "monitor": "monitor Mq0(ar0):\n    wait\n",
        "scenario-full": "scenario Sq0(ar0):\n    precondition: bb0\n    invariant: bb1\n    setup:\n        ego = new Object\n    compose:\n        wait\n",
        "scenario-setup": "scenario Sq0():\n    setup:\n        ego = new Object\n",
        "scenario-compose": "scenario Sq0():\n    compose:\n        do Sq1()\n",
        "scenario-short": "scenario Sq0():\n    ego = new Object\n",
        "try-interrupt": "behavior Bq0():\n    try:\n        wait\n    interrupt when bb0:\n        wait\n    interrupt when bb1:\n        abort\n    except Ex0 as ee0:\n        wait\n    except Ex1:\n        wait\n",
        "try-interrupt-compose": "scenario Sq0():\n    compose:\n        try:\n            do Sq1()\n        interrupt when bb0:\n            wait\n",
    }
    for k, prog in compound.items():
        forms.append((f"statements:compound:{k}", prog, None))
    # forms quoted in the running text of the references, with the grouping the text states
    quoted = [
        ("statements:require always A implies B", "require always A implies B\n", "require always (A implies B)\n"),
        ("statements:require A and always B", "require A and always B\n", "require A and (always B)\n"),
        ("statements:require (always A) implies B", "require (always A) implies B\n", None),
        ("operators:require always (X implies next X)", "require always (X implies next X)\n", "require always (X implies (next X))\n"),
        ("operators:weak until", "require (X until Y) or (always X and not Y)\n", "require (X until Y) or (always (X and (not Y)))\n"),
        ("operators:require always X implies Y", "require always X implies Y\n", "require always (X implies Y)\n"),
        ("operators:require next X", "require next X\n", None),
        ("general:beyond A by distance from B", "zz0 = new Object beyond A by distance from B\n", "zz0 = new Object beyond A by (distance from B)\n"),
        ("statements:soft requirement example", "require[0.75] ego in parking_lot\n", None),
        ("statements:param quoted", "param simulation_length = 30\nparam 'sim/weather/cloud_type[0]' = DiscreteRange(0, 5)\n", None),
        ("statements:record to", 'record ego.position as pos\nrecord va0 every 2 steps after 1 seconds to "out/{simulation}/foo{step}.jpg"\n', None),
        ("statements:do shuffle weights", "behavior Bq0():\n    do shuffle {Bh0(): 1, Bh1(): 2}\n", None),
        ("statements:do choose weights", "behavior Bq0():\n    do choose {Bh0(): 1, Bh1(): 2}\n", None),
    ]
    forms.extend(quoted)
    return forms, skipped, undocumented


KNOWN_FORMS = {"statements:require (always A) implies B": "temporal-group-implies"}


def known_form_key(fid, prog):
    """Trigger predicates of the as-implemented deviations for documented forms."""
    if fid in KNOWN_FORMS:
        return KNOWN_FORMS[fid]
    return None


def _sdump(node):
    """Scenic AST without positions."""
    return ast.dump(node, include_attributes=False)


def compile_form(item):
    """Worker: parse + compile one documented form; compare the grouping when one is given."""
    fid, prog, paren = item
    import scenic.syntax.translator as T
    from scenic.core.errors import ScenicSyntaxError

    c09.setup_parser()
    res = {"id": fid, "ok": False, "why": ""}
    try:
        st = T.parse_string(prog, "exec", filename="<string>")
        d1 = _sdump(st)
        T.compileScenicAST(st, filename="<string>")
    except ScenicSyntaxError as e:
        res["why"] = f"rejected: {type(e).__name__}: {e} (line {getattr(e, 'lineno', None)})"
        return res
    except Exception as e:
        res["why"] = f"crash: {type(e).__name__}: {e}"
        return res
    if paren is not None:
        try:
            d2 = _sdump(T.parse_string(paren, "exec", filename="<string>"))
        except Exception as e:
            res["why"] = f"parenthesised equivalent not accepted: {type(e).__name__}: {e}"
            return res
        if d1 != d2:
            res["why"] = "grouping differs from the documented one"
            return res
    res["ok"] = True
    return res


def _formula_tree(node):
    """Scenic AST of a requirement condition -> the tuple encoding of FrontEndForms."""
    import scenic.syntax.ast as S

    if isinstance(node, ast.Name):
        return [node.id]
    if isinstance(node, S.Always):
        return ["always", _formula_tree(node.value)]
    if isinstance(node, S.Eventually):
        return ["eventually", _formula_tree(node.value)]
    if isinstance(node, S.Next):
        return ["next", _formula_tree(node.value)]
    if isinstance(node, S.UntilOp):
        return ["until", _formula_tree(node.left), _formula_tree(node.right)]
    if isinstance(node, S.ImpliesOp):
        return ["implies", _formula_tree(node.hypothesis), _formula_tree(node.conclusion)]
    if isinstance(node, ast.UnaryOp) and isinstance(node.op, ast.Not):
        return ["not", _formula_tree(node.operand)]
    if isinstance(node, ast.BoolOp) and len(node.values) == 2:
        return ["and" if isinstance(node.op, ast.And) else "or", _formula_tree(node.values[0]), _formula_tree(node.values[1])]
    return ["?" + type(node).__name__]


def check_formula(item):
    """Worker: both printings of one formula must be accepted by `require` and parse to its tree."""
    form, full, doc = item
    import scenic.syntax.translator as T
    from scenic.core.errors import ScenicSyntaxError

    c09.setup_parser()
    out = []
    for which, text in (("full", full), ("doc", doc)):
        if which == "doc" and doc == full:
            continue
        prog = f"require {text}\n"
        try:
            st = T.parse_string(prog, "exec", filename="<string>")
            tree = _formula_tree(st.body[0].cond)
            T.compileScenicAST(st, filename="<string>")
            if tree != form:
                out.append((which, prog, f"parsed as {tree}"))
        except ScenicSyntaxError as e:
            out.append((which, prog, f"rejected: {type(e).__name__}: {e}"))
        except Exception as e:
            out.append((which, prog, f"crash: {type(e).__name__}: {e}"))
    return out


# --------------------------------------------------------------------------- main


# ---- every statement kind in every context (all 25 context-restricted statements and the others):
# each combination must compile or be refused with a located Scenic error
MATRIX_STATEMENTS = {
    "try-interrupt": "try:\n    wait\ninterrupt when cc0:\n    wait",
    "behavior-def": "behavior Bx0():\n    wait",
    "monitor-def": "monitor Mx0():\n    wait",
    "scenario-def": "scenario Sx0():\n    setup:\n        ego = new Object",
    "model": "model c10_model",
    "mutate": "mutate",
    "mutate-by": "mutate oo0, oo1 by 2",
    "param": "param pq0 = 1, pq1 = 2",
    "take": "take ac0",
    "wait": "wait",
    "wait-for": "wait for 2 steps",
    "wait-until": "wait until cc0",
    "terminate": "terminate",
    "terminate-simulation": "terminate simulation",
    "do": "do Bh0()",
    "do-for": "do Bh0() for 2 seconds",
    "do-until": "do Bh0() until cc0",
    "do-choose": "do choose Bh0(), Bh1()",
    "do-shuffle": "do shuffle {Bh0(): 1, Bh1(): 2}",
    "record": "record va0 as rn0",
    "record-every": "record va0 every 2 steps after 1 seconds",
    "record-initial": "record initial va0",
    "record-final": "record final va0 as rn1",
    "terminate-when": "terminate when cc0",
    "terminate-simulation-when": "terminate simulation when cc0",
    "terminate-after": "terminate after 5 steps",
    "simulator": "simulator sm0",
    "require": "require cc0",
    "require-soft": "require[0.5] cc0 as rq0",
    "require-temporal": "require always cc0 implies eventually cc1",
    "require-monitor": "require monitor Mn0()",
    "override": "override oo0 with foo 1",
    "abort": "abort",
    "new-object": "zz0 = new Object at (1, 2), facing 30 deg",
    "ego-assign": "ego = new Object",
    "workspace-assign": "workspace = Workspace(rg0)",
    "class-def": "class Cx0:\n    pp0: 1",
    "import": "import math",
    "return": "return",
    "return-value": "return va0 + 1",
    "return-scenic": "return 5 deg",
    "return-scenic-op": "return (distance from oo0 to oo1)",
    "yield": "yield va0",
    "break": "break",
    "continue": "continue",
    "global": "global gg0",
    "python-def": "def fx0(a):\n    return a",
    "python-with": "with open(va0) as fh0:\n    pass",
}
MATRIX_CONTEXTS = {
    "top": "{S}\n",
    "top-if": "if cc9:\n    {S}\n",
    "top-loop": "for ii0 in range(2):\n    {S}\n",
    "scenario-setup": "scenario Sq0():\n    setup:\n        {S}\n",
    "scenario-short": "scenario Sq0():\n    {S}\n",
    "scenario-compose": "scenario Sq0():\n    compose:\n        {S}\n",
    "compose-loop": "scenario Sq0():\n    compose:\n        while cc9:\n            {S}\n            wait\n",
    "behavior": "behavior Bq0():\n    {S}\n",
    "behavior-loop": "behavior Bq0():\n    while cc9:\n        {S}\n        wait\n",
    "monitor": "monitor Mq0():\n    {S}\n",
    "try-body": "behavior Bq0():\n    try:\n        {S}\n    interrupt when cc9:\n        wait\n",
    "interrupt-handler": "behavior Bq0():\n    try:\n        wait\n    interrupt when cc9:\n        {S}\n",
    "interrupt-handler-loop": "behavior Bq0():\n    while cc8:\n        try:\n            wait\n        interrupt when cc9:\n            {S}\n",
    "except-handler": "behavior Bq0():\n    try:\n        wait\n    interrupt when cc9:\n        wait\n    except Ex0:\n        {S}\n",
    "compose-interrupt-handler": "scenario Sq0():\n    compose:\n        try:\n            wait\n        interrupt when cc9:\n            {S}\n",
    "monitor-interrupt-handler": "monitor Mq0():\n    try:\n        wait\n    interrupt when cc9:\n        {S}\n",
    "class-body": "class Cq0:\n    {S}\n",
    "function": "def fq0():\n    {S}\n",
    "function-in-behavior": "behavior Bq0():\n    def fq1():\n        {S}\n    wait\n",
    "function-in-handler": "behavior Bq0():\n    try:\n        wait\n    interrupt when cc9:\n        def fq1():\n            {S}\n        wait\n",
}


def matrix_programs():
    """(id, program) for every statement kind placed in every context."""
    out = []
    for cid, ctx in MATRIX_CONTEXTS.items():
        line = [l for l in ctx.splitlines() if "{S}" in l][0]
        indent = line[: len(line) - len(line.lstrip())]
        for sid, stmt in MATRIX_STATEMENTS.items():
            body = stmt.replace("\n", "\n" + indent)
            out.append((f"mx-{sid}@{cid}", ctx.replace("{S}", body)))
    return out


FILE_BASES = {
    "fb-demo": "ego = new Object with blah 0\n\nbehavior Foo(n):\n    try:\n        take n\n    interrupt when self.blah > 3:\n        take 0\n\n"
               "class Box(Object):\n    width: 2\n\nscenario Sub():\n    setup:\n        other = new Object at 10@10\n",
    "fb-monitor": "monitor M(a):\n    while True:\n        if a > 0:\n            wait\n        else:\n            terminate\n\nego = new Object\n"
                  "require monitor M(1)\nfor i in range(2):\n    with open(__file__) as f:\n        pass\n",
    "fb-compose": "scenario Main():\n    precondition: True\n    setup:\n        ego = new Object\n    compose:\n        try:\n            wait\n"
                  "        interrupt when False:\n            abort\n        except Exception as e:\n            raise\n",
    "fb-python": "import math\n\ndef f(a, b=1):\n    if a:\n        return [\n            a,\n            b,\n        ]\n    elif b:\n        return {a: b}\n"
                 "    else:\n        return None\n\nx = f(1)\nego = new Object at (len(x), 0)\n",
}


def _encode_variants(text):
    """(tag, bytes, decoded text) for the on-disk forms of one program text."""
    out = [("lf", text.encode("utf-8"), text)]
    crlf = text.replace("\n", "\r\n")
    out.append(("crlf", crlf.encode("utf-8"), crlf))
    tabs = "".join(("\t" * ((len(l) - len(l.lstrip(" "))) // 4) + l.lstrip(" ")) for l in text.splitlines(True))
    out.append(("tabs", tabs.encode("utf-8"), tabs))
    bom = "\ufeff" + text
    out.append(("bom", bom.encode("utf-8"), bom))
    na = "# été 中\nnom_é = 'é中😀'\n" + text
    out.append(("nonascii", na.encode("utf-8"), na))
    return out


def file_runs(tier, rnd):
    """Programs compiled FROM FILES (scenarioFromFile): every truncation at a line boundary of the base
    programs -- with the final newline, without it, and followed by an indented blank line --, an error on
    the last line, past the last line, and the same in files with CRLF / tabs / a BOM / non-ASCII text,
    and in files imported from another Scenic file.  Returns runs (rid, text, "file", opts)."""
    runs = []
    k = 0
    for bid, base in list(FILE_BASES.items()) + [(h, HAND_WRITTEN[h]) for h in ("hw-behavior", "hw-scenario", "hw-class")]:
        lines = base.splitlines(True)
        cuts = []
        for i in range(1, len(lines) + 1):
            head = "".join(lines[:i])
            cuts.append((f"cut{i}", head))                       # ends with its newline
            cuts.append((f"cut{i}-nonl", head[:-1]))             # last line unterminated
            if lines[i - 1].rstrip().endswith(":"):
                cuts.append((f"cut{i}-ws", head + "    "))      # block opener, then an indented empty last line
                cuts.append((f"cut{i}-blank", head + "\n\n"))
        cuts.append(("badlast", base + "x = = 1\n"))
        cuts.append(("badlast-nonl", base + "x = = 1"))
        cuts.append(("badlast-open", base + "y = (1,\n"))
        cuts.append(("full", base))
        for cid, text in cuts:
            opener = text.rstrip().endswith(":")
            variants = _encode_variants(text)
            for tag, data, decoded in variants:
                k += 1
                if tag != "lf":
                    # quick: the other encodings for the cuts right after a block opener and a seeded sample
                    if tier == "quick" and not (opener and tag == "crlf") and (k + seed()) % 9:
                        continue
                runs.append((f"{bid}|{cid}|{tag}|file", decoded, "file", {"bytes": data}))
            # the same text as an imported module: the error is located in the imported file
            if opener or cid.startswith("badlast") or (k + seed()) % 5 == 0:
                k += 1
                mod = f"c10imp{k}"
                top = f"import {mod}\nego = new Object\n"
                for tag, data, _dec in (variants[:1] if tier == "quick" else variants[:2]):
                    runs.append((f"{bid}|{cid}|{tag}|imported|file", top, "file", {"bytes": top.encode(), "aux": {mod + ".scenic": data}}))
    for tid, text in TARGETED.items():
        try:
            data = text.encode("utf-8")
        except UnicodeEncodeError:
            continue
        runs.append((f"{tid}|seed|file", text, "file", {"bytes": data}))
    # bytes that are not UTF-8 at all
    bad = "ego = new Object\nx = 'caf\xe9'\n".encode("latin-1")
    runs.append(("tg-latin1|seed|file", bad.decode("latin-1"), "file", {"bytes": bad}))
    return runs


def make_runs(tier):
    rnd = random.Random(seed() * 7919 + 10)
    seeds = collect_seeds()
    n_mut = 500 if tier == "quick" else 8000
    light = [s for s in seeds if s[2]]
    runs = []
    # every seed unmutated through the bare pipeline; the light ones through the whole lifecycle
    for k, (sid, text, is_light) in enumerate(seeds):
        runs.append((f"{sid}|seed|direct", text, "direct", {}))
        if is_light and (tier != "quick" or sid.startswith(("hw-", "tg-")) or (k + seed()) % 3 == 0):
            runs.append((f"{sid}|seed|top", text, "top", {}))
    hw = [s for s in seeds if s[0].startswith(("hw-", "tg-"))]
    for k in range(n_mut):
        pool = hw if k % 5 == 0 else (light if k % 5 in (1, 2) else seeds)
        sid, text, is_light = pool[rnd.randrange(len(pool))]
        op = OPS[rnd.randrange(len(OPS))]
        pos, arg = rnd.randrange(1 << 20), rnd.randrange(1 << 20)
        second = rnd.random() < 0.25  # a second mutation on top
        op2, pos2, arg2 = OPS[rnd.randrange(len(OPS))], rnd.randrange(1 << 20), rnd.randrange(1 << 20)
        try:
            mtext = mutate(text, op, pos, arg)[0]
            if second:
                mtext = mutate(mtext, op2, pos2, arg2)[0]
                op = op + "+" + op2
        except Exception:
            continue  # generator failure: schedule dropped
        rid = f"{sid}|{op}@{pos},{arg}|"
        runs.append((rid + "direct", mtext, "direct", {}))
        if is_light and k % 2 == 0:
            opts = {}
            if k % 8 == 0:
                opts["mode2D"] = True
            if k % 12 == 0:
                opts["params"] = {"vp": 1}
            if k % 6 == 0:
                try:  # the same mutant compiled from a file
                    runs.append((rid + "file", mtext, "file", {"bytes": mtext.encode("utf-8")}))
                except UnicodeEncodeError:
                    pass
            runs.append((rid + "top", mtext, "top", opts))
    runs.extend(file_runs(tier, rnd))
    for k, (mid, prog) in enumerate(matrix_programs()):
        runs.append((f"{mid}|seed|direct", prog, "direct", {}))
        if tier != "quick" or (k + seed()) % 3 == 0:
            runs.append((f"{mid}|seed|top", prog, "top", {}))
        if (k + seed()) % 7 == 0:
            runs.append((f"{mid}|seed|file", prog, "file", {"bytes": prog.encode("utf-8")}))
    return runs, len(seeds)


def validate_traces(traces, ck):
    """traces: {key: (events, devs)} distinct; returns {key: known key or ""} for the accepted ones."""
    from concurrent.futures import ThreadPoolExecutor

    keys = sorted(traces)
    B = 1500
    batches = [keys[i : i + B] for i in range(0, len(keys), B)]

    def one(args):
        bi, ks = args
        path = os.path.join(scratch(), f"traces{bi}.json")
        with open(path, "w") as f:
            json.dump([[k, traces[k][0], traces[k][1]] for k in ks], f, separators=(",", ":"))
        res = run_tlc("FrontEndTrace", TRACE_CFG, env={"TRACES": path}, workers=1, coverage=(bi == 0), timeout=1500, heap="2g")
        os.unlink(path)
        return res

    with ThreadPoolExecutor(max_workers=4) as ex:
        results = list(ex.map(one, list(enumerate(batches))))
    acc = {}
    cov = {}
    for res in results:
        ck.add_tlc("FrontEndTrace", res)
        for o in res.outputs:
            if "acc" in o:
                acc[o["acc"]] = o.get("known", "")
        for a, (d, t) in res.coverage.items():
            cov[a] = cov.get(a, 0) + t
    return acc, cov


def main(tier):
    ck = Check("C10", tier, "exploration")
    note = c09.setup_parser()
    t_all = time.time()
    phase = {}
    ck.assumptions += [
        note,
        "totality over all inputs is approximated by seeded token-level mutation (delete / insert / replace / swap / re-indent / truncate, "
        "sometimes two in a row) of the repository's programs (examples/, tests/*.scenic, program strings of tests/*.py) and hand-written ones; "
        "each run is decided by trace validation, the input space is not enumerated",
        "a line `inside the input` is 1 .. N+1 where N counts the lines of the text with its last line newline-terminated: the tokenizer's "
        "end-of-file position (one past the last line) is accepted (CPython itself reports the last real line there)",
        "only Parse / Compile / compile() stage failures must be located Scenic syntax errors; whatever the user's own top-level code raises "
        "while it executes (Exec / Store / Construct) is the user's business -- there only quiescence and termination bookkeeping are checked",
        "the full lifecycle (scenarioFromString) is run for seeds that need no simulator / map world model; all seeds go through the bare "
        "parse_string + compileScenicAST + compile() pipeline",
        "probes are installed from outside by wrapping module attributes (no repository hooks)",
    ]

    # ---- (i) the lifecycle machine, model-checked; (iii) the formulas enumerated -- both TLC jobs run in
    # background threads while the mutation runs are generated and executed
    from concurrent.futures import ThreadPoolExecutor

    bg = ThreadPoolExecutor(max_workers=2)
    t_bg = time.time()
    fut_mc = bg.submit(run_tlc, "FrontEnd", MC_CFG, coverage=True, timeout=1500, workers=6, heap="2g")
    fut_forms = bg.submit(run_tlc, "FrontEndForms", FORMS_CFG % (2 if tier == "quick" else 3), timeout=1500, workers=4, heap="2g")

    # ---- (ii) mutation runs
    t0 = time.time()
    workdir = os.path.join(scratch(), "c10work")
    os.makedirs(workdir, exist_ok=True)
    for k, v in HELPERS.items():
        with open(os.path.join(workdir, k), "w") as f:
            f.write(v)
    runs, nseeds = make_runs(tier)
    import gen_pyast as G

    CH = 40
    chunks = [(workdir, runs[i : i + CH]) for i in range(0, len(runs), CH)]
    import gc

    gc.collect()
    gc.freeze()
    outs = pmap(run_chunk, chunks, chunk=1)
    phase["runs"] = round(time.time() - t0, 1)

    res = fut_mc.result()
    ck.add_tlc("FrontEnd", res)
    # (Preamble, CompileOK, ExecDone, ConstructOK are instances of Advance and are counted under that name)
    need = ["BeginTop", "BeginDirect", "Activate", "Advance", "ParseOK", "PyCompileOK", "FailInput", "ExecStep", "ExecImport",
            "ExecModel", "FailExec", "StoreOK", "PopPath", "Deactivate", "Return", "End"]
    missing = [a for a in need if res.coverage.get(a, (0, 0))[1] == 0]
    if missing:
        raise MachineryError(f"FrontEnd actions never taken (vacuous model): {missing}")
    ck.cov["lifecycle_model"] = {"distinct_states": res.distinct, "depth": res.depth, "bounds": "MaxDepth=2 MaxImports=3 Lines=2 Runs=2"}
    fres = fut_forms.result()
    ck.add_tlc("FrontEndForms", fres)
    phase["tlc_model_and_forms_background"] = round(time.time() - t_bg, 1)

    # ---- (iii) documented forms and groupings
    t0 = time.time()
    formulas = [o for o in fres.outputs if "form" in o]
    if len({o["full"] for o in formulas}) != len(formulas):
        raise MachineryError("FrontEndForms: the fully parenthesised printing is not injective")
    if tier == "quick":  # TLC enumerates and checks all of them; the parser is run on a seeded third
        formulas = [o for k, o in enumerate(sorted(formulas, key=lambda o: o["full"])) if (k + seed()) % 3 == 0 or o["known"]]
    fitems = [(o["form"], o["full"], o["doc"]) for o in formulas]
    fout = pmap(check_formula, fitems, chunk=100)
    n_form_bad = 0
    for o, bad in zip(formulas, fout):
        ck.case(("formula", o["full"]), nontrivial=o["size"] >= 3)
        if not bad:
            ck.validated(1)
            continue
        n_form_bad += 1
        for which, prog, why in bad:
            ck.violation(f"documented requirement form not accepted as documented ({which} printing): {prog!r}: {why}",
                         {"property": "C10", "kind": "formula", "formula": o["form"], "printing": which, "program": prog, "observed": why},
                         known_key=o["known"] or None)
    forms, skipped, undocumented = doc_forms()
    ck.cov["dropped_by_generator"] += undocumented
    dres = pmap(compile_form, forms, chunk=40)
    n_doc_bad = 0
    for (fid, prog, paren), r in zip(forms, dres):
        ck.case(("docform", prog), nontrivial=True)
        if r["ok"]:
            ck.validated(1)
            ck.sample({"documented_form": fid, "program": prog, "grouping": paren}, limit=2)
        else:
            n_doc_bad += 1
            ck.violation(f"documented form {fid!r} is not accepted as documented: {r['why']} on {prog!r}",
                         {"property": "C10", "kind": "docform", "id": fid, "program": prog, "parenthesised": paren, "observed": r["why"]},
                         known_key=known_form_key(fid, prog))
    ck.cov["documented_forms"] = {"headings_instantiated": len(forms), "prose_headings_skipped": skipped, "undocumented_combinations_skipped": undocumented, "not_accepted": n_doc_bad,
                                  "formulas": len(formulas), "formulas_not_accepted": n_form_bad}
    phase["forms"] = round(time.time() - t0, 1)

    # ---- traces and their validation
    t0 = time.time()
    texts = {r[0]: r[1] for r in runs}
    traces = {}
    bykey = {}
    stats = {"top": 0, "direct": 0, "file": 0, "ok": 0, "syntax": 0, "user": 0, "invalid": 0, "internal": 0, "timeout": 0, "exec_timeouts": 0}
    machinery_drops = []
    for chunk in outs:
        for rid, ev, info in chunk:
            if ev is None:
                machinery_drops.append((rid, info.get("machinery")))
                continue
            mode = "file" if rid.endswith("|file") else ("top" if rid.endswith("|top") else "direct")
            stats[mode] += 1
            end = [e for e in ev if e[0] == "end"][0]
            stats["ok" if end[1] == "ok" else end[2]] = stats.get("ok" if end[1] == "ok" else end[2], 0) + 1
            if info.get("timeout") and info.get("stage") not in INPUT_STAGES:
                stats["exec_timeouts"] += 1
            devs = [info["known"]] if info.get("known") else []
            key = json.dumps([ev, devs], separators=(",", ":"))
            h = "t" + str(len(traces)) if key not in bykey else bykey[key]
            if key not in bykey:
                bykey[key] = h
                traces[h] = (ev, devs, [])
            traces[h][2].append((rid, info))
    acc, cov = validate_traces({h: (v[0], v[1]) for h, v in traces.items()}, ck)
    if cov.get("TraceNext", 0) == 0:
        raise MachineryError("FrontEndTrace: TraceNext never taken")
    n_rej = 0
    for h, (ev, devs, members) in traces.items():
        nontrivial = len(ev) > 6
        for rid, info in members:
            ck.case(texts[rid] + rid.rsplit("|", 1)[1], nontrivial)
        if h in acc:
            if acc[h]:
                rid, info = members[0]
                for rid, info in members:
                    ck.violation(f"internal error escapes from the front end: {info.get('exc')} at stage {info.get('stage')}",
                                 {"property": "C10", "kind": "trace", "run": rid, "input": texts[rid], "events": ev, "exception": info}, known_key=acc[h])
            ck.validated(len(members))
            if len(ev) > 12:
                ck.sample({"run": members[0][0], "input": texts[members[0][0]], "events": [" ".join(str(x) for x in e if x != "") for e in ev]}, limit=4)
            continue
        n_rej += 1
        rid, info = members[0]
        end = [e for e in ev if e[0] == "end"][0]
        fails = [e for e in ev if e[0] == "fail"]
        if any(e[2] == "timeout" for e in fails):
            what = f"the front end did not finish within {ALARM_S} s of CPU time (stage {info.get('stage')})"
        elif any(e[2] == "internal" for e in fails):
            what = f"internal error escapes from the front end: {info.get('exc')} at stage {info.get('stage')}"
        elif fails and fails[0][1] in INPUT_STAGES and fails[0][2] == "syntax":
            what = f"syntax error names line {fails[0][3]}, outside the input: {info.get('exc')}"
        else:
            what = f"the run is not a behaviour of the lifecycle machine (veneer state / cleanup): final snapshot {ev[-1][3:]}, outcome {end[1:4]}"
        ck.violation(f"{what} [{len(members)} runs, first: {rid}]",
                     {"property": "C10", "kind": "trace", "run": rid, "input": texts[rid], "events": ev, "exception": info, "runs_with_this_trace": len(members)})
    phase["validate"] = round(time.time() - t0, 1)
    ck.cov["rule"] = (
        "a case is one run of the front end on one input (seed or seeded token-level mutant; bare pipeline or whole lifecycle), one requirement "
        "formula printed by FrontEndForms, or one documented form; runs are recorded as event traces and validated by TLC against the lifecycle "
        "machine (identical traces are validated once); non-trivial = the trace has more than 6 events (the parser was passed or an import "
        "happened), a formula with at least 3 nodes, or a documented form; distinct by input text and mode"
    )
    ck.cov["machinery_drops"] = len(machinery_drops)
    ck.cov["dropped_by_generator"] += len(machinery_drops)
    if len(machinery_drops) > max(5, len(runs) // 100):
        raise MachineryError(f"too many runs lost to harness-side failures: {machinery_drops[:3]}")
    ck.cov["seeds"] = nseeds
    ck.cov["runs"] = stats
    ck.cov["distinct_traces"] = len(traces)
    ck.cov["rejected_traces"] = n_rej
    ck.cov["trace_action_coverage"] = cov
    ck.cov["phase_s"] = phase
    ck.cov["exhaustive"] = False
    ck.cov["explanation"] = ("the lifecycle machine is model-checked exhaustively within its bounds; the binding is trace validation of seeded "
                             "mutation runs (not an enumeration of all inputs) plus replay of the documented forms")
    return ck.finish()


if __name__ == "__main__":
    sys.exit(main(sys.argv[1] if len(sys.argv) > 1 else "quick"))
