"""C11 — temporal requirements accept exactly the traces satisfying the formula.

Spec: spec/Temporal.tla.  TLC enumerates (formula, trace) for a batch of formulas and all
traces over two atoms up to a length bound, checks the lemmas that tie the four-valued
monitor to the strong finite-trace semantics, and prints per formula its Scenic text (two
parenthesisations) and per (formula, trace) the verdict, the first step at which an early
rejection is licensed (Doomed), the step at which it is demanded, and what the monitor as
implemented (third-party rv_ltl) would do.

Binding (replay): each formula is compiled into `require <formula>` whose atoms are
`tv("a")`, `tv("b")` -- lookups into a step-indexed truth table owned by the harness --
(a) at top level, (b) in the setup block of a sub-scenario started from a compose block at
step s, (c) executed inside a compose block after k `wait`s (k = 0, 1, 2: the offset of the
step in which the statement takes effect), in the top-level scenario and in a sub-scenario
started at run time that ends by its compose block finishing / `terminate after` / the
parent's `do ... for` / the end of the simulation.  Every trace is run with the DummySimulator; observed: rejected at scene
generation / rejected at simulation time t / accepted.  Expected: accepted iff Sat; a
rejection before the last step only where Doomed; at once where demanded.  The tree Scenic
builds from either parenthesisation must be the formula (else all traces are run for that
text as well)."""

import json
import os
import signal
import subprocess
import sys

from common import Check, MachineryError, REPO, pmap, run_tlc, scratch, seed
import gen_temporal as G

INV_MAIN = [
    "TypeOK", "NothingBeforeEffect", "MonitorExact", "ImplExactUnlessTrigger", "RejectSound", "DoomSound", "DemandExact",
    "CurrentStepOnly", "DiffOnlyUnderTrigger", "OutcomeVerdict", "EmitForm", "EmitCase",
]
INV_LEMMA = [
    "TypeOK", "MonitorExact", "ImplExactUnlessTrigger", "RejectSound", "DoomSound", "DemandExact",
    "CurrentStepOnly", "DiffOnlyUnderTrigger", "OutcomeVerdict", "HorizonStable", "TrueIsAssured", "Dualities",
]


def cfg(invs, props=()):
    return (
        "SPECIFICATION Spec\n"
        + "".join(f"INVARIANT {i}\n" for i in invs)
        + "".join(f"PROPERTY {p}\n" for p in props)
        + "CHECK_DEADLOCK FALSE\n"
    )


# --------------------------------------------------------------------------- helper module

HELPER = '''"""Truth table read by the generated C11 programs (owned by the harness)."""
TABLE = {"a": [True], "b": [True]}
END = 0        # done() becomes true at this simulation time
START = 0      # `wait`s in a compose block before its `require`
TAIL = 0       # `wait`s in that compose block after it
PRE = 0        # `wait`s of the parent before the sub-scenario is started
POST = 0       # `wait`s of the parent after it
SUBLEN = 0     # `terminate after SUBLEN steps` of the sub-scenario
DUR = 0        # `do Sub() for DUR steps`
WHERE = 0      # compose placements: 0 top-level compose, 1 `do Sub()`, 2 `do Sub() for`
READS = []     # (atom, time) in evaluation order


def now():
    import scenic.syntax.veneer as v

    sim = v.currentSimulation
    return 0 if sim is None else sim.currentTime


def tv(name):
    t = now()
    READS.append((name, t))
    return TABLE[name][t]


def done():
    return now() >= END


def start():
    return START


def tail():
    return TAIL


def sublen():
    return SUBLEN


def pre():
    return PRE


def post():
    return POST


def dur():
    return DUR


def where():
    return WHERE
'''

TOP = """from vlog_c11 import tv, done
ego = new Object
require {phi}
terminate when done()
"""

SUB = """from vlog_c11 import tv, pre, post, sublen
scenario Sub():
    setup:
        require {phi}
        terminate after sublen() steps
scenario Main():
    setup:
        ego = new Object
    compose:
        for _p in range(pre()):
            wait
        do Sub()
        for _q in range(post()):
            wait
"""

# placement (c): the statement is executed inside a compose block, after start() waits:
# where() = 0 in the top-level scenario, 1 / 2 in a sub-scenario started at run time
COMP = """from vlog_c11 import tv, done, start, tail, pre, post, sublen, dur, where
scenario Sub():
    setup:
        terminate after sublen() steps
    compose:
        for _i in range(start()):
            wait
        require {phi}
        for _j in range(tail()):
            wait
scenario Main():
    setup:
        ego = new Object
        terminate when done()
    compose:
        if where() == 0:
            for _i in range(start()):
                wait
            require {phi}
            for _j in range(tail()):
                wait
        else:
            for _p in range(pre()):
                wait
            if where() == 1:
                do Sub()
            else:
                do Sub() for dur() steps
            for _q in range(post()):
                wait
"""

# placement (d): the SAME statement executed twice in one compose block (a loop): every execution starts an
# obligation of its own, judged from its step to the end of the scenario
REP = """from vlog_c11 import tv, tail
scenario Main():
    setup:
        ego = new Object
    compose:
        for _r in range(2):
            require {phi}
            wait
        for _j in range(tail() - 2):
            wait
"""

TEMPLATES = {"top": TOP, "sub": SUB, "ctop": COMP, "csub": COMP, "rep": REP}

_helper_ready = False


def helper():
    """Write the helper module into the scratch dir, put it on sys.path, import it."""
    global _helper_ready
    d = os.path.join(scratch(), "c11mod")
    if not _helper_ready:
        os.makedirs(d, exist_ok=True)
        with open(os.path.join(d, "vlog_c11.py"), "w") as f:
            f.write(HELPER)
        if d not in sys.path:
            sys.path.insert(0, d)
        _helper_ready = True
    import vlog_c11

    return vlog_c11


# --------------------------------------------------------------------------- parser sync (DESIGN 2.6)


def sync_parser(note):
    """parser.py is generated from scenic.gram; if the committed parser is stale, use a parser
    regenerated from the current grammar (what a rebuild would give) and say so."""
    gram = os.path.join(REPO, "src/scenic/syntax/scenic.gram")
    committed = os.path.join(REPO, "src/scenic/syntax/parser.py")
    out = os.path.join(scratch(), "parser_c11.py")
    try:
        p = subprocess.run(
            ["/venv/bin/python", "-m", "pegen", gram, "-o", out], capture_output=True, text=True, timeout=120
        )
    except Exception as e:  # pegen unavailable: the committed parser is what runs
        note["parser"] = f"not regenerated ({type(e).__name__})"
        return
    if p.returncode != 0 or not os.path.exists(out):
        note["parser"] = "scenic.gram does not regenerate; committed parser.py used"
        return

    def body(path):
        return [l for l in open(path).read().splitlines() if not l.startswith("# @generated")]

    if body(out) == body(committed):
        note["parser"] = "parser.py is in sync with scenic.gram"
        return
    import importlib.util

    spec = importlib.util.spec_from_file_location("parser_c11", out)
    mod = importlib.util.module_from_spec(spec)
    spec.loader.exec_module(mod)
    import scenic.syntax.translator as tr

    tr.parse_string = mod.parse_string
    note["parser"] = "parser.py is STALE w.r.t. scenic.gram: parser regenerated from the grammar used for this run"


# --------------------------------------------------------------------------- the real code


class Timeout(BaseException):
    pass


def _on_vtalrm(signum, frame):
    raise Timeout()


def decode(tr):
    return [bool(c & 1) for c in tr], [bool(c & 2) for c in tr]


def plan(place, n, L):
    """How trace number n of length L is run.  dict(k, s, post, mode): k = steps of the
    requirement's scenario before the statement takes effect, s = steps before that scenario
    starts, post = steps of the parent after it, mode = how the scenario ends."""
    if place == "top":
        return {"k": 0, "s": 0, "post": 0, "mode": "tw" if (L == 1 or n % 2 == 0) else "ms"}
    if place == "sub":
        s = n % 3
        mode = "ta" if (n % 5 != 4 or s + L - 1 == 0) else "ms"
        return {"k": 0, "s": s, "post": (n // 3) % 2 if mode == "ta" else 0, "mode": mode}
    c = G.compose_plan(place, n, L)
    c["post"] = (n // 2) % 2 if (place == "csub" and c["mode"] != "ms") else 0
    return c


BIG = 10**6


def configure(V, place, tr, c):
    """Set the helper module for one run; returns maxSteps."""
    ta, tb = decode(tr)
    L = len(tr)
    k, s, mode = c["k"], c["s"], c["mode"]
    first = s + k  # simulation time of the first observed step
    # outside the window of the requirement the table holds the opposite of the nearest
    # column, so that reading an atom in a wrong step is visible
    V.TABLE = {
        "a": [not ta[0]] * first + ta + [not ta[-1]] * (L + 10),
        "b": [not tb[0]] * first + tb + [not tb[-1]] * (L + 10),
    }
    V.START, V.TAIL, V.PRE, V.POST = k, 0, s, c["post"]
    V.END, V.SUBLEN, V.DUR, V.WHERE = 10**9, BIG, BIG, 0
    V.READS.clear()
    last = first + L - 1  # simulation time of the last observed step
    maxSteps = last if mode == "ms" else None
    if place == "top":
        if mode == "tw":
            V.END = last
    elif place == "sub":
        if mode == "ta":
            V.SUBLEN = L - 1
    else:
        V.WHERE = 0 if place == "ctop" else (2 if mode == "for" else 1)
        V.TAIL = L - 1 if mode == "cf" else L + 2
        if mode == "tw":
            V.END = last
        elif mode == "ta":
            V.SUBLEN = k + L - 1
        elif mode == "for":
            V.DUR = k + L
    return maxSteps


def run_one(V, scenario, place, tr, c):
    """Run one trace.  Returns the observed outcome as a list:
    ["gen"] | ["rej", at] | ["acc", L] | ["exc", type, message]   (at: 1-based step of the trace)"""
    from scenic.core.distributions import RejectionException
    from scenic.core.dynamics import RejectSimulationException
    from scenic.core.simulators import DummySimulator

    class Sim(DummySimulator):
        rej = None

        def createSimulation(self, scene, **kw):
            try:
                return super().createSimulation(scene, **kw)
            except RejectSimulationException as e:
                self.rej = e.simulation.currentTime
                raise

    L = len(tr)
    maxSteps = configure(V, place, tr, c)
    try:
        try:
            scene, _ = scenario.generate(maxIterations=1, verbosity=0)
        except RejectionException:
            return ["gen"]
        sim = Sim()
        r = sim.simulate(scene, maxSteps=maxSteps, maxIterations=1, verbosity=0)
        if r is None:
            if sim.rej is None:
                return ["exc", "None", "simulate returned None without a rejection"]
            at = sim.rej - (c["s"] + c["k"]) + 1
            if c["mode"] == "for" and at == L + 1:
                # the parent's `for` condition fires one step after the sub-scenario's last
                # step; the end-of-scenario check of the requirement is made then
                at = L
            return ["rej", at]
        return ["acc", L]
    except Timeout:
        raise
    except Exception as e:
        return ["exc", type(e).__name__, str(e)[:160]]


def allowed(o, place, L, c):
    """Is the observed outcome one the specification admits?  c: TLC's case record."""
    sat, doom, demand = c["sat"], c["doom"], c["demand"]
    if o[0] == "acc":
        return sat
    if o[0] == "gen":
        return place == "top" and doom == 1
    if o[0] == "rej":
        at = o[1]
        if at == L:
            return (not sat) and demand in (0, L)
        if 1 <= at < L:
            return doom != 0 and doom <= at and demand in (0, at)
    return False


def impl_outcome(c, place):
    k, at = c["impl"]
    if k == "rej" and at == 1 and place == "top":
        return ["gen"]
    return [k, at]


def atom_name(ap):
    names = [k for k in ap.closure.__code__.co_consts if k in G.ATOMS]
    if len(names) != 1:
        raise ValueError(f"cannot identify atom of {ap}")
    return names[0]


def built_tree(scenario):
    reqs = [r for r in scenario.requirements if getattr(r, "proposition", None) is not None]
    if len(reqs) != 1:
        raise ValueError(f"expected one user requirement, found {len(reqs)}")
    prop = reqs[0].proposition
    idmap = {ap.syntax_id: atom_name(ap) for ap in prop.atomics()}
    return G.from_proposition(prop, idmap)


def check_formula(item):
    """Worker: everything about one formula.  Returns a dict of counts and findings."""
    import scenic

    V = helper()
    f = item["f"]
    forminfo = item["form"]
    out = {"sims": 0, "agree": 0, "findings": [], "parse": {}, "compiled": [], "placements": [], "by_config": {}}
    signal.signal(signal.SIGVTALRM, _on_vtalrm)
    # on a loaded machine a compose step can exceed Scenic's 10 s wall-clock warning threshold
    import warnings
    from scenic.core.dynamics import StuckBehaviorWarning

    warnings.simplefilter("ignore", StuckBehaviorWarning)
    texts = {"min": G.text(forminfo["min"]), "full": G.text(forminfo["full"])}
    predicted_bad = {"min": forminfo["minbad"], "full": forminfo["fullbad"]}

    def finding(kind, msg, known, extra):
        d = {"kind": kind, "msg": msg, "known": known, "formula": G.key(f)}
        d.update(extra)
        out["findings"].append(d)

    def compile_(template, txt):
        return scenic.scenarioFromString(template.format(phi=txt))

    rot = item.get("rot", 0)
    base = item["cases"][0]  # offset 0: all windows of the tier's length bound

    def run_all(scenario, place, txtmode):
        out["placements"].append([place, txtmode])
        compose = place in ("ctop", "csub")
        traces = [c["tr"] for c in base if not compose or len(c["tr"]) <= G.COMPOSE_MAXLEN]
        for idx, tr in enumerate(traces):
            L = len(tr)
            if compose and item.get("thin") and (idx + rot + (place == "csub")) % 2:
                continue  # quick tier: each (formula, trace) goes to one of the two compose placements
            # compose placements rotate k / ending with the trace AND the formula
            cf = plan(place, idx + (rot if compose else 0), L)
            c = item["cases"][cf["k"]][idx] if compose else base[idx]
            assert c["tr"] == tr and c["off"] == cf["k"]
            signal.setitimer(signal.ITIMER_VIRTUAL, 30)
            try:
                o = run_one(V, scenario, place, tr, cf)
                if not allowed(o, place, L, c):
                    o2 = run_one(V, scenario, place, tr, cf)  # once more before reporting
                    if o2 != o:
                        o = ["flaky", o, o2]
            except Timeout:
                o = ["timeout"]
            finally:
                signal.setitimer(signal.ITIMER_VIRTUAL, 0)
            out["sims"] += 1
            out["by_config"][f"{place}/k{cf['k']}/{cf['mode']}"] = out["by_config"].get(f"{place}/k{cf['k']}/{cf['mode']}", 0) + 1
            if allowed(o, place, L, c):
                out["agree"] += 1
                continue
            known = None
            if forminfo["uao"] and c["impl"] != c["mon"] and o == impl_outcome(c, place):
                known = "until-at-offset"
            elif (
                o[0] == "exc" and o[1] == "RuntimeError" and place != "top"
                and forminfo["nontemporal"] and G.has_op(f, ("implies",))
            ):
                known = "implies-nontemporal-dynamic"
            finding(
                "verdict",
                f"{place}/{txtmode} `{texts[txtmode]}` trace {tr} (statement effective at step {cf['k']} of its scenario, "
                f"scenario started at {cf['s']}, ends by {cf['mode']}): observed {o}, spec: sat={c['sat']} "
                f"doomed-from={c['doom']} demanded-at={c['demand']}",
                known,
                {"place": place, "text": texts[txtmode], "trace": tr, "observed": o, "expected": c,
                 "as_implemented": impl_outcome(c, place), "config": cf, "reads": list(V.READS)[:40]},
            )

    top = {}
    for m in ("min", "full"):
        if m == "full" and texts["full"] == texts["min"]:
            top["full"] = top.get("min")
            out["parse"]["full"] = out["parse"].get("min")
            continue
        try:
            sc = compile_(TOP, texts[m])
        except Exception as e:
            top[m] = None
            out["parse"][m] = "error"
            known = "group-implies-parse" if predicted_bad[m] else None
            finding(
                "parse",
                f"`require {texts[m]}` does not compile: {type(e).__name__}: {str(e)[:120]}",
                known,
                {"text": texts[m], "mode": m, "error": f"{type(e).__name__}: {e}"[:300]},
            )
            continue
        top[m] = sc
        out["compiled"].append(m)
        try:
            tree = built_tree(sc)
        except Exception as e:
            out["parse"][m] = "unreadable"
            finding("parse", f"cannot read back the proposition of `{texts[m]}`: {e}", None, {"text": texts[m]})
            continue
        out["parse"][m] = "same" if G.flatten(tree) == G.flatten(f) else "differs"
        if out["parse"][m] == "differs":
            out.setdefault("regrouped", []).append({"text": texts[m], "built": G.key(tree)})

    # verdicts: the minimal text at top level; the fully parenthesised text only needs its own
    # runs when it is the only one that compiles or Scenic did not build the formula's tree
    if top.get("min") is not None:
        run_all(top["min"], "top", "min")
    if (
        top.get("full") is not None
        and top["full"] is not top.get("min")
        and (top.get("min") is None or out["parse"].get("full") != "same" or out["parse"].get("min") != "same")
    ):
        run_all(top["full"], "top", "full")
    # placement (b): the text that compiled at top level
    m = "min" if top.get("min") is not None else ("full" if top.get("full") is not None else None)
    if m is not None:
        try:
            sub = compile_(SUB, texts[m])
        except Exception as e:
            finding("parse", f"sub-scenario program for `{texts[m]}` does not compile: {type(e).__name__}: {e}"[:300],
                    None, {"text": texts[m], "place": "sub"})
        else:
            run_all(sub, "sub", m)
        # placement (c): executed inside a compose block (one program for both scenarios)
        try:
            comp = compile_(COMP, texts[m])
        except Exception as e:
            finding("parse", f"compose-block program for `{texts[m]}` does not compile: {type(e).__name__}: {e}"[:300],
                    None, {"text": texts[m], "place": "ctop"})
        else:
            run_all(comp, "ctop", m)
            run_all(comp, "csub", m)
        # placement (d): the statement executed at steps 0 and 1 of a compose block that finishes after L steps;
        # accepted iff the whole trace AND its suffix from step 1 satisfy the formula (Temporal.tla's verdicts of
        # the two traces); when rejected, the step of the rejection is not compared.  Formulas that meet the
        # rv_ltl `until`-at-an-offset finding are left to the other placements.
        if not forminfo["uao"]:
            try:
                rep = compile_(REP, texts[m])
            except Exception as e:
                finding("parse", f"loop program for `{texts[m]}` does not compile: {type(e).__name__}: {e}"[:300],
                        None, {"text": texts[m], "place": "rep"})
            else:
                out["placements"].append(["rep", m])
                sat = {tuple(c["tr"]): c["sat"] for c in base}
                for idx, tr in enumerate(c["tr"] for c in base):
                    L = len(tr)
                    if L != 3 or tuple(tr[1:]) not in sat or (item.get("thin") and (idx + rot) % 2):
                        continue
                    want = bool(sat[tuple(tr)]) and bool(sat[tuple(tr[1:])])
                    cf = {"k": 0, "s": 0, "post": 0, "mode": "cf"}
                    signal.setitimer(signal.ITIMER_VIRTUAL, 30)
                    try:
                        o = run_one(V, rep, "ctop", tr, cf)
                        if (o[0] == "acc") != want or o[0] not in ("acc", "rej"):
                            o2 = run_one(V, rep, "ctop", tr, cf)
                            if o2 != o:
                                o = ["flaky", o, o2]
                    except Timeout:
                        o = ["timeout"]
                    finally:
                        signal.setitimer(signal.ITIMER_VIRTUAL, 0)
                    out["sims"] += 1
                    out["by_config"]["rep/k0+1/cf"] = out["by_config"].get("rep/k0+1/cf", 0) + 1
                    if o[0] in ("acc", "rej") and (o[0] == "acc") == want:
                        out["agree"] += 1
                        continue
                    finding(
                        "verdict",
                        f"rep/{m} `{texts[m]}` executed at steps 0 and 1 of one compose block, trace {tr}: observed {o}, "
                        f"spec: sat(trace)={sat[tuple(tr)]} sat(suffix from step 1)={sat[tuple(tr[1:])]}",
                        None,
                        {"place": "rep", "text": texts[m], "trace": tr, "observed": o,
                         "expected_accept": want, "reads": list(V.READS)[:40]},
                    )
    return out


# --------------------------------------------------------------------------- main


def run_spec(ck, forms, maxlen, lemmas, extra=1, workers=6, heap="2g", offsets=(0,), maxlenoff=None):
    path = os.path.join(scratch(), f"c11-batch-{len(ck.cov['tlc_runs'])}.json")
    with open(path, "w") as fh:
        json.dump({"forms": forms, "maxlen": maxlen, "extra": extra, "lemmas": 1 if lemmas else 0,
                   "offsets": list(offsets), "maxlenoff": maxlenoff or maxlen}, fh)
    res = run_tlc(
        "Temporal",
        cfg(INV_LEMMA, ["DoomMonotone"]) if lemmas else cfg(INV_MAIN),
        env={"BATCH": path},
        coverage=True,
        workers=workers,
        timeout=3000,
        heap=heap,
    )
    ck.add_tlc("Temporal(lemmas)" if lemmas else "Temporal", res)
    for a in ("Init", "Observe", "Stop") + (("Wait",) if max(offsets) > 0 else ()):
        if res.coverage.get(a, (0, 0))[1] == 0:
            raise MachineryError(f"Temporal action {a} never taken (vacuous model)")
    return res


def main(tier, forms=None, lemma_forms=None):
    """forms / lemma_forms: override the batch (used by the throw-away mutant driver only)."""
    ck = Check("C11", tier, "model_checking")
    maxlen = 3 if tier == "quick" else 4
    if forms is None:
        forms = G.batch(tier, seed())
    ck.cov["rule"] = (
        "a case is one (formula, placement), placements: top level / setup block of a run-time sub-scenario / compose block "
        "of the top-level scenario / compose block of a run-time sub-scenario; formulas: all of depth <= 1, the forms quoted in the reference, "
        "pointed shapes, and " + ("a seeded sample of depth 2 and 3" if tier == "quick" else "all of depth 2 plus a seeded sample of depth 3")
        + f"; each case runs every trace of length <= {maxlen} (compose-block placements: <= {G.COMPOSE_MAXLEN}) over two atoms; non-trivial = the formula has a temporal "
        "operator and both verdicts occur among its traces; distinct by formula and placement"
    )
    ck.assumptions += [
        "atoms are pure lookups in a step-indexed truth table; two atoms; the DummySimulator",
        "placements: (a) top level, (b) setup block of a sub-scenario started from a compose block at step 0..2, "
        "(c) executed in a compose block after k = 0..2 waits, in the top-level scenario (ending: compose block finishes / "
        "terminate when / maxSteps) and in a sub-scenario started at run time at step 0..1 (ending: compose block finishes / "
        "terminate after / parent's do-for / maxSteps)",
        "compose-block placements run one (k, ending) combination per (formula, trace), rotating with the trace number and "
        "the formula number, on the windows of length <= 3 (quick: each (formula, trace) goes to one of the two compose "
        "placements, alternating); the spec's case record carries the offset k",
        "Doomed looks Depth(f)+1 steps ahead; TLC checks on the lemma batch that one more step changes nothing",
        "the Scenic text of a formula is printed by Temporal.tla (Show); gen_temporal.text() only substitutes the atoms",
        "the fully parenthesised text is run on all traces only when Scenic builds a different tree from it",
    ]
    note = {}
    sync_parser(note)
    ck.cov["parser"] = note.get("parser")

    # ---- TLC: lemmas on a sub-batch, expected results for the whole batch
    if lemma_forms is None:
        lemma_forms = G.up_to_depth(1) + [f for f, _d in G.DOCUMENTED]
        if tier != "quick":
            import random

            rng = random.Random(seed() + 5)
            lemma_forms += G.POINTED + rng.sample(G.exactly_depth(2), 200) + [G.random_formula(rng, 3) for _ in range(60)]
    if lemma_forms:
        run_spec(ck, lemma_forms, 3, lemmas=True)
    # ---- per chunk of formulas: TLC emits the expected results, the real code is run on them
    helper()
    ntr = len(G.all_traces(maxlen))
    ntr_off = len(G.all_traces(G.COMPOSE_MAXLEN))
    by_config = {}
    sims = agree = ndiff = 0
    parse_stats = {"same": 0, "differs": 0, "error": 0, "unreadable": 0}
    documented = {G.key(f): doc for f, doc in G.DOCUMENTED}
    any_uao = False
    chunk = 700 if maxlen == 3 else 400
    for base in range(0, len(forms), chunk):
        part = forms[base : base + chunk]
        res = run_spec(ck, part, maxlen, lemmas=False, workers=6 if tier == "quick" else 12, heap="2g" if tier == "quick" else "6g",
                       offsets=G.COMPOSE_OFFSETS, maxlenoff=G.COMPOSE_MAXLEN)
        forminfo, cases = {}, {}
        for o in res.outputs:
            if o["t"] == "form":
                forminfo[o["fid"] - 1] = o
            else:
                cases.setdefault(o["fid"] - 1, {}).setdefault(o["off"], []).append(
                    {k: o[k] for k in ("off", "tr", "sat", "doom", "demand", "impl", "mon")})
        del res
        for i in range(len(part)):
            for k in G.COMPOSE_OFFSETS:
                want = ntr if k == 0 else ntr_off
                got = len(cases.get(i, {}).get(k, ()))
                if i not in forminfo or got != want:
                    raise MachineryError(f"TLC output incomplete for formula {G.key(part[i])} offset {k}: {got}/{want} traces")
                cases[i][k].sort(key=lambda c: (len(c["tr"]), c["tr"]))
            for k in G.COMPOSE_OFFSETS[1:]:
                # the offset never reaches Sat / Doomed / Mon: same record for the same window
                for c0, ck_ in zip(cases[i][0], cases[i][k]):
                    if {**c0, "off": k} != ck_:
                        raise MachineryError(f"Temporal.tla: record depends on the offset: {c0} vs {ck_}")
            ndiff += sum(1 for c in cases[i][0] if c["impl"] != c["mon"])
            any_uao = any_uao or forminfo[i]["uao"]
        items = [{"f": part[i], "form": forminfo[i], "cases": cases[i], "rot": base + i, "thin": tier == "quick"} for i in range(len(part))]
        results = pmap(check_formula, items, procs=6, chunk=6)
        for it, r in zip(items, results):
            f = it["f"]
            sims += r["sims"]
            agree += r["agree"]
            for m, v in r["parse"].items():
                if v:
                    parse_stats[v] = parse_stats.get(v, 0) + 1
            for kk, vv in r["by_config"].items():
                by_config[kk] = by_config.get(kk, 0) + vv
            verdicts = {c["sat"] for c in it["cases"][0]}
            for place, _m in r["placements"]:
                ck.case((G.key(f), place), G.is_temporal(f) and len(verdicts) == 2)
            groups = {}
            for fd in r["findings"]:
                groups.setdefault((fd["kind"], fd["known"], fd.get("place")), []).append(fd)
            for (_kind, known, _place), fds in groups.items():
                # the first failing trace is the witness; a real violation shows up to three
                for n, fd in enumerate(fds):
                    replay = {"property": "C11", "formula": f, "formula_text": G.key(f), "documented_as": documented.get(G.key(f))}
                    replay.update({k: v for k, v in fd.items() if k != "known"})
                    if fd["kind"] == "parse":
                        replay["program"] = TEMPLATES[fd.get("place") or "top"].format(phi=fd.get("text", ""))
                    else:
                        replay["program"] = TEMPLATES[fd["place"]].format(phi=fd["text"])
                    if ck.violation(fd["msg"], replay, known_key=known):
                        if n >= 2:
                            break
                    else:  # a listed known finding: count the other traces of this formula, report once
                        rest = len(fds) - 1
                        ck.findings.hit[known] += rest
                        ck.cov["known_findings_seen"][known] += rest
                        break
            if r["placements"] and G.depth(f) >= 2:
                last = it["cases"][0][-1]
                ck.sample(
                    {"formula": G.key(f), "scenic": G.text(it["form"]["min"]), "fully_parenthesised": G.text(it["form"]["full"]),
                     "tree_built": r["parse"], "traces": len(it["cases"][0]), "placements": r["placements"],
                     "example": {"trace": last["tr"], "sat": last["sat"], "doomed_from": last["doom"],
                                 "as_implemented": last["impl"], "corrected_monitor": last["mon"]}},
                    limit=5,
                )
        del items, results, cases, forminfo
    ck.cov["spec_impl_vs_corrected_monitor_differs_on"] = ndiff
    if ndiff == 0 and any_uao:
        # the deviation lives in third-party code outside /repo; the model must show it
        raise MachineryError("as-implemented monitor never differs from the corrected one: transcription lost")
    ck.validated(agree)
    ck.cov["simulations"] = sims
    ck.cov["formulas"] = len(forms)
    ck.cov["traces_per_formula"] = ntr
    ck.cov["simulations_by_placement_offset_ending"] = dict(sorted(by_config.items()))
    ck.cov["parse_check"] = parse_stats
    ck.cov["exhaustive"] = False
    ck.cov["explanation"] = (
        f"TLC exhaustive over all traces of length <= {maxlen} for every formula of the batch; formulas: "
        + ("depth <= 1 exhaustive, depth 2 and 3 sampled" if tier == "quick" else "depth <= 2 exhaustive, depth 3 sampled")
    )
    return ck.finish()


def replay(path):
    """Re-run the failing trace of a replay file and print observed vs expected."""
    import scenic

    d = json.load(open(path))
    print(json.dumps({k: d[k] for k in d if k not in ("reads",)}, indent=1)[:3000])
    helper()
    if d.get("kind") != "verdict":
        try:
            scenic.scenarioFromString(d["program"])
            print("compiles now")
        except Exception as e:
            print("still fails:", type(e).__name__, e)
        return 0
    V = helper()
    sc = scenic.scenarioFromString(d["program"])
    place, cf = d["place"], d.get("config")
    if place == "rep":
        place, cf = "ctop", {"k": 0, "s": 0, "post": 0, "mode": "cf"}
    print("observed now:", run_one(V, sc, place, d["trace"], cf))
    return 0


if __name__ == "__main__":
    sys.exit(main(sys.argv[1] if len(sys.argv) > 1 else "quick"))
