"""C12 — simulation steps run in the documented order and stop at the documented step.

Spec: spec/Dynamics.tla (the ten-step procedure, one action per numbered step; coroutine machine
for the statements).  TLC checks PhaseOrder, ClockOnlyInTick, NothingAfterEnding,
EachAgentOncePerStep, OneEntryPerStep on every case and emits the expected event log.
Binding: M1 replay — the generated Scenic program logs its own user-level events, a logging
Simulator subclass logs create/sched/exec/simstep/read and returns the schedules of the case;
the observed event sequence, ending, action-log and trajectory lengths must equal the expected."""

import json
import os
import sys

from common import Check, MachineryError, pmap, run_tlc, scratch, seed
import dyn
import gen_dynamic

_SCRATCH = None


def _run(item):
    case, text = item
    return dyn.run_case(case, text, _SCRATCH)


def run_batch(ck, cases, spec_name="Dynamics", need_actions=(), run_real=True, ideal_invariants=False):
    """TLC on all cases, real code on all cases; returns list of (case, text, expected outputs, real)."""
    global _SCRATCH
    _SCRATCH = scratch()
    dyn.install_helper(_SCRATCH)  # once, in the parent: forked workers inherit it (no write race)
    for c in cases:
        c.setdefault("impl", 0)
        # When a behaviour's invariants are checked while it runs a sub-behaviour under do-for/do-until/try is
        # decided by C13 (known finding invariant-checked-inside-sub-behaviour).  The other dynamic checks run the
        # cases that satisfy that deviation's trigger under the named as-implemented semantics (invimpl = 1), so
        # that the finding does not mask the property they are about.
        if not ideal_invariants and "invimpl" not in c and dyn.runs_sub_under_wrapper(c):
            c["invimpl"] = 1
    texts = [dyn.to_scenic(c) for c in cases]
    exp = {}
    seen = set()
    for base in range(0, len(cases), 1500):
        chunk = cases[base : base + 1500]
        path = os.path.join(scratch(), f"cases{base}.json")
        with open(path, "w") as f:
            json.dump(chunk, f)
        # (TLC's -coverage instrumentation is pathologically slow on the mutually recursive
        #  Micro/ScenStep operators, so action coverage is derived from the emitted behaviours)
        res = run_tlc(spec_name, dyn.CFG, env={"CASES": path}, timeout=3000)
        ck.add_tlc(spec_name, res)
        for o in res.outputs:
            exp.setdefault(base + o["cid"] - 1, []).append(o)
            kinds = {e[0] for e in o["ev"]}
            seen |= {"Setup"} if "create" in kinds else set()
            seen |= {"ScenarioStep", "Record", "MonitorResume"} if o["ntraj"] > 0 else set()
            seen |= {"TerminationChecks", "BehaviorResume"} if "sched" in kinds else set()
            seen |= {"ExecuteActions"} if "exec" in kinds else set()
            seen |= {"SimulatorStep", "Tick"} if "simstep" in kinds else set()
            seen |= {"UpdateObjects"} if "read" in kinds else set()
            seen |= {"Pick"} if o["ws"] else set()
            seen |= {"Finish"}
    missing = [a for a in need_actions if a not in seen]
    if missing:
        raise MachineryError(f"Dynamics actions never taken (vacuous model): {missing}")
    ck.cov["actions_exercised"] = sorted(seen)
    real = pmap(_run, list(zip(cases, texts))) if run_real else [None] * len(cases)
    return [(cases[i], texts[i], exp.get(i, []), real[i]) for i in range(len(cases))]


def main(tier):
    ck = Check("C12", tier, "model_checking")
    ck.cov["rule"] = (
        "cases = (program of the core dynamic fragment, truth table of its conditions, agent schedule, time step); "
        "exhaustive duration core (every duration construct x n in 0..3 x unit x time step) plus seeded random programs "
        "(4 tables/schedules each); non-trivial = the expected run executes at least two steps; distinct by (program text, table, schedule)"
    )
    ck.assumptions += [
        "core fragment: one top-level scenario (no compose block), up to 3 objects, behaviours with take/wait/log/require/"
        "if/while/do/do-for/do-until/wait-for/wait-until/terminate/terminate simulation, one monitor, records, "
        "terminate when / terminate simulation when / terminate after, step limit; time steps 1, 1/2, 1/4, 2",
        "conditions are pure look-ups in a step-indexed table; how often a condition is evaluated is not observed",
        "the case -> Scenic text printer (dyn.to_scenic) is trusted glue",
        "programs in which a behaviour with invariants runs a sub-behaviour under do-for/do-until/try are run under the "
        "named as-implemented invariant timing (Dynamics.tla invimpl = 1): that deviation is decided by C13",
    ]
    core = gen_dynamic.duration_core()
    n = 240 if tier == "quick" else 1500
    rand = gen_dynamic.generate(seed() * 104729 + 12, n, "core")
    ncore = gen_dynamic.nested_core()
    if tier == "quick":
        ncore = ncore[seed() % 2 :: 2]
    nested = gen_dynamic.generate_nested(seed() * 7753 + 12, 120 if tier == "quick" else 800)
    dcore = gen_dynamic.dynobj_core()
    if tier == "quick":
        dcore = dcore[seed() % 2 :: 2]
    icore = gen_dynamic.idle_core()   # steps with an empty action dict
    ck.cov["idle_core_cases"] = len(icore)
    cases = core + rand + ncore + dcore + icore + nested
    need = ["Setup", "ScenarioStep", "Record", "MonitorResume", "TerminationChecks", "BehaviorResume",
            "ExecuteActions", "SimulatorStep", "Tick", "UpdateObjects", "Finish"]
    rows = run_batch(ck, cases, need_actions=need)
    for case, text, exps, real in rows:
        if len(exps) != 1:
            raise MachineryError(f"expected exactly one behaviour of Dynamics.tla for a deterministic case, got {len(exps)}")
        exp = dyn.expected_of(exps[0])
        steps = exps[0]["nexec"]
        ck.case((text, json.dumps(case["table"], sort_keys=True), json.dumps(case["sched"]), case["dt"]), steps >= 2)
        if "error" in real and real["error"].startswith("compile:"):
            ck.violation(f"well-formed program does not compile: {real['error']}",
                         {"property": "C12", "program": text, "case": case, "error": real})
            continue
        real = dyn.settle(case, text, _SCRATCH, real)
        diff = dyn.compare(exp, real)
        if diff:
            ck.violation(diff, {"property": "C12", "program": text, "case": case, "expected": exp, "observed": real, "first_difference": diff})
        else:
            ck.validated()
        ck.sample({"program": text, "dt": case["dt"], "sched": case["sched"], "ending": exp["ending"],
                   "events": exp["events"][:40]}, limit=3)
    return ck.finish()


if __name__ == "__main__":
    sys.exit(main(sys.argv[1] if len(sys.argv) > 1 else "quick"))
