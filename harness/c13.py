"""C13 — interrupts pre-empt and resume as documented; guards are checked when promised.

Spec: the try/interrupt and guard part of spec/Dynamics.tla (Walk / EnterBlock / Unwind /
StartBeh / InvOK).  TLC runs every generated case (program of the interrupt fragment x truth
table of its interrupt conditions and guards) and emits the expected event log and ending.
Binding: M1 replay on the real code, once with rejections (default) and once with
raiseGuardViolations=True, comparing the action/event sequence and how the run ends."""

import json
import sys

from common import Check, MachineryError, pmap, seed
import c12
import dyn
import gen_dynamic


def _run_both(item):
    case, text = item
    a = dyn.run_case(case, text, c12._SCRATCH, raise_guards=False)
    b = dyn.run_case(case, text, c12._SCRATCH, raise_guards=True)
    return a, b


def flow_triggers(case):
    """Trigger predicates of the known findings, computed from the program tree:
    'return' = a return lexically inside two nested try/interrupt statements;
    'loopflow' = a break/continue that leaves two nested try/interrupt statements with no loop
    in between (the generated code does not compile)."""
    found = set()

    def walk(stmts, tries, tries_since_loop):
        for s in stmts:
            k = s[0]
            if k == "return" and tries >= 2:
                found.add("return")
            elif k in ("break", "continue") and tries_since_loop >= 2:
                found.add("loopflow")
            elif k == "if":
                walk(s[2], tries, tries_since_loop)
                walk(s[3], tries, tries_since_loop)
            elif k == "while":
                walk(s[2], tries, 0)
            elif k == "try":
                walk(s[1], tries + 1, tries_since_loop + 1)
                for _c, h in s[2]:
                    walk(h, tries + 1, tries_since_loop + 1)

    for df in case["defs"]:
        walk(df["body"], 0, 0)
    return found


def nested_flow_core():
    """Targeted core: return / break / continue / abort in the handler (or body) of a try/interrupt
    nested in the body (or a handler) of another one, inside a loop, for several tables."""
    cases = []
    for kind in ("return", "break", "continue", "abort"):
        for where in ("handler", "body"):
            for outer_where in ("body", "handler"):
                for k in range(0, 4):
                    if where == "handler":
                        inner = ["try", [["take", 1], ["take", 2], ["take", 3]], [["a", [["take", 8], [kind]]]]]
                    else:
                        if kind == "abort":
                            continue
                        inner = ["try", [["take", 1], [kind]], [["a", [["take", 8]]]]]
                    if outer_where == "body":
                        outer = ["try", [inner, ["log", "afterinner"], ["take", 5]], [["b", [["take", 9]]]]]
                        tb = [False]
                    else:
                        outer = ["try", [["take", 7], ["take", 7]], [["b", [["take", 9], inner, ["log", "afterinner"]]]]]
                        tb = [i == 1 for i in range(8)]
                    body = [["while", "T", [["take", 0], outer, ["log", "afterouter"], ["take", 4]]],
                            ["log", "afterloop"], ["take", 6]]
                    cases.append({
                        "defs": [{"pre": [], "inv": [], "body": body}], "agents": [1], "monitors": [], "records": [],
                        "termWhen": [], "termSimWhen": [], "termAfter": [], "maxSteps": 8, "dt": [1, 1],
                        "table": {"T": [True], "F": [False], "a": [i == k + 1 for i in range(9)], "b": tb},
                        "sched": [[1]],
                    })
    return cases


def interrupt_core():
    """Small exhaustive core: one try statement, 1-2 handlers, every truth table of the two
    conditions over 4 steps, handlers ending normally / with abort, inside a loop or not."""
    import itertools

    cases = []
    bodies = [
        [["take", 1], ["take", 2], ["take", 3]],
        [["do", 2]],
    ]
    handlers = [
        [["take", 8]],
        [["take", 8], ["take", 9]],
        [["take", 8], ["abort"]],
        [["abort"]],
    ]
    tables = list(itertools.product([False, True], repeat=4))
    sub = {"pre": [], "inv": [], "body": [["take", 5], ["log", "s1"], ["take", 6], ["log", "s2"]]}
    for body in bodies:
        for h1 in handlers:
            for h2 in [None] + handlers[:3]:
                hs = [["a", h1]] + ([["b", h2]] if h2 else [])
                main = [["try", body, hs], ["log", "after"], ["take", 4]]
                tabs = tables[::3] if h2 else tables
                for ta in tabs:
                    for tb in (tables[1::5] if h2 else [tables[0]]):
                        cases.append({
                            "defs": [{"pre": [], "inv": [], "body": main}, sub],
                            "agents": [1], "monitors": [], "records": [],
                            "termWhen": [], "termSimWhen": [], "termAfter": [],
                            "maxSteps": 7, "dt": [1, 1],
                            "table": {"T": [True], "F": [False], "a": list(ta), "b": list(tb)},
                            "sched": [[1]],
                        })
    return cases


def invariant_core():
    """A behaviour with an invariant that runs a sub-behaviour directly, under do-for / do-until and inside a
    try/interrupt block, with tables that break the invariant while the sub-behaviour runs and restore it (or
    not) before it returns, and with a handler that pre-empts while it is broken."""
    cases = []
    sub = {"pre": [], "inv": [], "body": [["take", 5], ["take", 6], ["take", 6], ["log", "s"]]}
    mains = [
        [["do", 2], ["log", "after"], ["take", 4]],
        [["dofor", 2, 2, "steps"], ["log", "after"], ["take", 4]],
        [["dofor", 2, 5, "steps"], ["log", "after"], ["take", 4]],
        [["dountil", 2, "u"], ["log", "after"], ["take", 4]],
        [["try", [["do", 2], ["take", 7]], [["a", [["take", 8]]]]], ["log", "after"], ["take", 4]],
        [["take", 1], ["try", [["take", 7], ["do", 2]], [["a", [["take", 8], ["abort"]]]]], ["log", "after"], ["take", 4]],
    ]
    inv_rows = [[True], [True, False, False, True], [True, False, True], [True, False], [True, True, True, False, True], [False]]
    for main in mains:
        for inv in inv_rows:
            for u in ([False, False, True], [False]):
                for a in ([False], [False, False, True, False], [False, True, False]):
                    if main[0][0] != "dountil" and u != [False]:
                        continue
                    if not any(st[0] == "try" for st in main) and a != [False]:
                        continue
                    cases.append({
                        "defs": [{"pre": [], "inv": ["i"], "body": main}, sub],
                        "agents": [1], "monitors": [], "records": [],
                        "termWhen": [], "termSimWhen": [], "termAfter": [],
                        "maxSteps": 7, "dt": [1, 1],
                        "table": {"T": [True], "F": [False], "i": inv, "u": u, "a": a},
                        "sched": [[1]],
                    })
    return cases


def guard_rejection_core(picks=False):
    """Guards that RAISE a rejection instead of yielding a truth value (rtable): preconditions and invariants of
    the agent's behaviour, of sub-behaviours started by do / do-for / choose / shuffle (the guards of ALL items
    are evaluated), invariants re-checked after actions, under try/interrupt and do-until, preconditions of
    sub-scenarios and guards of the agents they create.  A rejection raised inside a guard rejects the simulation
    also when raiseGuardViolations is set; a guard listed before it that is false wins."""
    cases = []
    rrows = [[True], [False, True], [False, False, True, False], [False]]
    frows = [[True], [True, False], [False]]
    sub = {"pre": ["r", "f"], "inv": [], "body": [["take", 5], ["take", 6]]}
    sub2 = {"pre": ["f", "r"], "inv": [], "body": [["take", 7]]}
    sub3 = {"pre": [], "inv": ["r"], "body": [["take", 8], ["take", 8], ["take", 8]]}
    mains = [
        ({"pre": ["r"], "inv": [], "body": [["take", 1]]}, []),
        ({"pre": [], "inv": ["r"], "body": [["take", 1], ["take", 2], ["take", 3]]}, []),
        ({"pre": [], "inv": [], "body": [["take", 1], ["do", 2], ["take", 4]]}, [sub]),
        ({"pre": [], "inv": [], "body": [["take", 1], ["do", 2], ["take", 4]]}, [sub2]),
        ({"pre": [], "inv": [], "body": [["take", 1], ["dofor", 2, 2, "steps"], ["take", 4]]}, [sub3]),
        ({"pre": [], "inv": [], "body": [["take", 1], ["choose", [[2, 1], [3, 1]]], ["take", 4]]}, [sub2, {"pre": [], "inv": [], "body": [["take", 9]]}]),
        ({"pre": [], "inv": [], "body": [["shuffle", [[2, 1], [3, 1]]], ["take", 4]]}, [sub3, {"pre": ["f"], "inv": [], "body": [["take", 9]]}]),
        ({"pre": [], "inv": ["r"], "body": [["try", [["take", 1], ["take", 1], ["take", 1]], [["a", [["take", 2]]]]], ["take", 4]]}, []),
        ({"pre": [], "inv": ["f", "r"], "body": [["take", 1], ["dountil", 2, "a"], ["take", 4]]}, [{"pre": [], "inv": [], "body": [["take", 9], ["take", 9], ["take", 9]]}]),
    ]
    for mi, (main, subs) in enumerate(mains):
        if (mi in (5, 6)) != picks:       # the choose / shuffle programs are random: they belong to C19's law check
            continue
        for rr in rrows:
            for fr in frows:
                cases.append({
                    "defs": [main] + subs, "agents": [1], "monitors": [], "records": [],
                    "termWhen": [], "termSimWhen": [], "termAfter": [],
                    "maxSteps": 6, "dt": [1, 1],
                    "table": {"T": [True], "F": [False], "r": [True], "f": fr, "a": [False, False, True, False]},
                    "rtable": {"r": rr}, "sched": [[1]],
                })
    # scenario-level guards
    beh = {"pre": [], "inv": [], "body": [["while", "T", [["take", 1]]]]}
    agent = {"pre": ["r"], "inv": [], "body": [["take", 3], ["take", 3]]}

    def sd(**kw):
        d = {"pre": [], "termWhen": [], "termSimWhen": [], "termAfter": [], "records": [], "monitors": [],
             "hascompose": False, "compose": [], "objs": []}
        d.update(kw)
        return d

    for variant in range(4):
        if (variant == 2) != picks:
            continue
        for rr in rrows:
            for fr in frows[:2]:
                if variant == 0:     # the top-level scenario's own precondition raises
                    sdefs = [sd(pre=["r"], hascompose=True, compose=[["wait"], ["wait"]])]
                elif variant == 1:   # a sub-scenario's precondition raises / is false first
                    sdefs = [sd(hascompose=True, compose=[["wait"], ["sdo", [2]], ["wait"]]), sd(pre=["f", "r"], termAfter=[2, "steps"])]
                elif variant == 2:   # choose over sub-scenarios: the guards of all items are evaluated
                    sdefs = [sd(hascompose=True, compose=[["wait"], ["schoose", [[2, 1], [3, 1]]], ["wait"]]),
                             sd(pre=["f"], termAfter=[2, "steps"]), sd(pre=["r"], termAfter=[1, "steps"])]
                else:                # the guard of an agent created by a sub-scenario raises
                    sdefs = [sd(hascompose=True, compose=[["wait"], ["sdo", [2]], ["wait"]]), sd(objs=[2], termAfter=[2, "steps"])]
                cases.append({
                    "defs": [beh, agent], "agents": [1], "sdefs": sdefs, "top": 1,
                    "monitors": [], "records": [], "termWhen": [], "termSimWhen": [], "termAfter": [],
                    "maxSteps": 5, "dt": [1, 1],
                    "table": {"T": [True], "F": [False], "r": [True], "f": fr},
                    "rtable": {"r": rr}, "sched": [[1, 2]], "impl": 0,
                })
    return cases


def reentry_core():
    """A `do` statement inside a loop whose block is abandoned (abort / break / continue in a handler, a do-for /
    do-until limit) while the sub-behaviour runs, and which is reached again afterwards: printed with one
    behaviour object per statement (shared), so the second start needs the first run to have been stopped."""
    cases = []
    sub = {"pre": [], "inv": [], "body": [["take", 5], ["log", "s1"], ["take", 6], ["take", 6], ["log", "s2"]]}
    mains = [
        [["while", "T", [["try", [["do", 2], ["take", 7]], [["a", [["take", 8], ["abort"]]]]], ["take", 4]]]],
        [["while", "T", [["try", [["take", 1], ["take", 1]], [["a", [["do", 2]]], ["b", [["take", 9], ["break"]]]]], ["take", 4]]]],
        [["while", "T", [["try", [["do", 2]], [["a", [["take", 8], ["continue"]]]]], ["take", 4]]]],
        [["while", "T", [["dofor", 2, 2, "steps"], ["take", 4]]]],
        [["while", "T", [["dountil", 2, "a"], ["take", 4]]]],
        [["while", "T", [["do", 2], ["take", 4]]]],
    ]
    atabs = [[False, True, False, False, True, False, False], [False, False, True, False, False, False, True], [True, False, True, False]]
    btabs = [[False, False, True, False, False, True, False], [False]]
    for main in mains:
        for ta in atabs:
            for tb in btabs:
                for shared in (True, False):
                    cases.append({
                        "defs": [{"pre": [], "inv": [], "body": main}, sub],
                        "agents": [1], "monitors": [], "records": [],
                        "termWhen": [], "termSimWhen": [], "termAfter": [],
                        "maxSteps": 9, "dt": [1, 1],
                        "table": {"T": [True], "F": [False], "a": ta, "b": tb},
                        "sched": [[1]], "shared": shared,
                    })
    return cases


def compose_interrupt_core():
    """try/interrupt in a COMPOSE block whose blocks invoke sub-scenarios: a pre-empted `do A()` must resume
    exactly where it stopped even when the handler invoked scenarios itself; while it is suspended A's compose
    block does not run but its monitors and records go on; sub-scenarios under an abandoned block (abort,
    do-for limit) are stopped."""
    cases = []
    beh = {"pre": [], "inv": [], "body": [["while", "T", [["take", 1]]]]}
    mon = {"pre": [], "inv": [], "body": [["while", "T", [["log", "m"], ["wait"]]]]}

    def sd(**kw):
        d = {"pre": [], "termWhen": [], "termSimWhen": [], "termAfter": [], "records": [], "monitors": [],
             "hascompose": False, "compose": [], "objs": []}
        d.update(kw)
        return d

    A = sd(hascompose=True, compose=[["log", "a0"], ["wait"], ["log", "a1"], ["wait"], ["log", "a2"], ["wait"], ["log", "a3"], ["wait"], ["log", "a4"]],
           records=[["rec", "ra"]], monitors=[2])
    A2 = sd(termAfter=[4, "steps"], records=[["rec", "ra"]])
    B = sd(hascompose=True, compose=[["log", "b0"], ["wait"], ["log", "b1"], ["wait"]], records=[["rec", "rb"]])
    bodies = [
        [["sdo", [2]], ["log", "afterA"]],
        [["sdofor", [2], 3, "steps"], ["log", "afterA"]],
        [["log", "pre"], ["wait"], ["sdo", [2, 3]], ["log", "afterAB"]],
    ]
    handlers = [
        [["sdo", [3]], ["log", "hd"]],
        [["abort"]],
        [["wait"], ["log", "hw"], ["wait"]],
        [["sdo", [3]], ["abort"]],
        [["sdofor", [3], 1, "steps"]],
    ]
    atabs = [[False, False, True, False], [False, True, True, False, False], [True, False], [False, False, False, True, True, True, False],
             [False]]
    btabs = [[False], [False, False, False, True, False]]
    for ai, Adef in enumerate((A, A2)):
        for body in bodies:
            for h1 in handlers:
                for h2 in (None, handlers[2], handlers[1]):
                    for ta in atabs:
                        for tb in (btabs if h2 else btabs[:1]):
                            if (len(cases) + ai) % 2 and h2:      # thin the two-handler block
                                continue
                            hs = [["a", h1]] + ([["b", h2]] if h2 else [])
                            top = [["try", body, hs], ["log", "after"], ["wait"], ["wait"]]
                            cases.append({
                                "defs": [beh, mon], "agents": [1], "sdefs": [sd(hascompose=True, compose=top), Adef, B], "top": 1,
                                "monitors": [2], "records": [], "termWhen": [], "termSimWhen": [], "termAfter": [],
                                "maxSteps": 10, "dt": [1, 1],
                                "table": {"T": [True], "F": [False], "a": ta, "b": tb}, "sched": [[1]], "impl": 0,
                            })
    return cases


_runs_sub_under_wrapper = dyn.runs_sub_under_wrapper


def main(tier):
    ck = Check("C13", tier, "model_checking")
    ck.cov["rule"] = (
        "cases = (program of the interrupt fragment: nested try/interrupt, handlers that take actions / invoke "
        "sub-behaviours / abort / break / continue / return, inside loops and sub-behaviours, behaviours with "
        "preconditions and invariants; step-indexed truth table of all interrupt conditions and guards); "
        "small exhaustive core (all tables of two conditions over 4 steps) plus seeded random programs x 4 tables; "
        "each case is run with and without raiseGuardViolations; non-trivial = a handler pre-empts or a guard fails "
        "(measured: the expected run differs from the run of the same program with all conditions false... "
        "approximated by: the expected log has >= 2 executed steps); distinct by (program text, table)"
    )
    ck.assumptions += [
        "only productive programs (every handler / loop body begins with a step-taking statement or abort)",
        "invariants of a behaviour that runs a sub-behaviour under do-for/do-until/try are kept true by the RANDOM "
        "generator; the targeted invariant core breaks and restores them there (the reference says they are not "
        "checked while a sub-behaviour runs; the implementation re-checks them at every step: named deviation "
        "invimpl, known finding invariant-checked-inside-sub-behaviour)",
        "conditions and guards are pure table look-ups",
    ]
    core = interrupt_core()
    if tier == "quick":
        core = core[seed() % 2 :: 2]
    n = 250 if tier == "quick" else 1500
    rand = gen_dynamic.generate(seed() * 7907 + 13, n, "interrupt")
    ccore = compose_interrupt_core()
    if tier == "quick":
        ccore = ccore[seed() % 3 :: 3]
    cases = core + nested_flow_core() + invariant_core() + ccore + rand
    # every third case of the behaviour-level cores again, with each `do` statement invoking ONE behaviour object
    # (created when the invoking behaviour starts): the expectation is the same -- a sub-behaviour that finished,
    # or was stopped because its block was abandoned or its limit reached, can be started again
    shared = [dict(c, shared=True) for c in (core + nested_flow_core() + invariant_core())[seed() % 3 :: 3] if "sdefs" not in c]
    cases = cases + shared + reentry_core() + guard_rejection_core()
    global_rows = c12.run_batch(ck, cases, need_actions=["Setup", "BehaviorResume", "ExecuteActions", "Finish"], ideal_invariants=True)
    # as-implemented twins (spec deviation UnwindReturnImpl) for the cases that satisfy its trigger
    trig = [flow_triggers(c) for c in cases]
    twin_ids = [i for i, tr in enumerate(trig) if "return" in tr]
    impl_exp = {}
    inv_exp = {}
    import os
    from common import run_tlc, scratch

    if twin_ids:
        twins = [dict(cases[i], impl=1) for i in twin_ids]
        path = os.path.join(scratch(), "twins.json")
        with open(path, "w") as f:
            json.dump(twins, f)
        res = run_tlc("Dynamics", dyn.CFG, env={"CASES": path}, timeout=3000)
        ck.add_tlc("Dynamics(as-implemented return)", res)
        for o in res.outputs:
            impl_exp[twin_ids[o["cid"] - 1]] = o
    # as-implemented twins (spec deviation invimpl) for the cases that satisfy ITS trigger
    inv_ids = [i for i, c in enumerate(cases) if _runs_sub_under_wrapper(c)]
    if inv_ids:
        twins = [dict(cases[i], invimpl=1) for i in inv_ids]
        path = os.path.join(scratch(), "invtwins.json")
        with open(path, "w") as f:
            json.dump(twins, f)
        res = run_tlc("Dynamics", dyn.CFG, env={"CASES": path}, timeout=3000)
        ck.add_tlc("Dynamics(as-implemented invariant checks)", res)
        for o in res.outputs:
            inv_exp[inv_ids[o["cid"] - 1]] = o
    ck.cov["invariant_deviation_cases"] = len(inv_ids)
    # second pass with raiseGuardViolations on the real code only (the spec's expectation is derived)
    texts = [r[1] for r in global_rows]
    real2 = pmap(_run_both, list(zip(cases, texts)))
    for idx, ((case, text, exps, _real), (ra, rb)) in enumerate(zip(global_rows, real2)):
        if len(exps) != 1:
            raise MachineryError(f"expected one behaviour per deterministic case, got {len(exps)}")
        steps = exps[0]["nexec"]
        ck.case((text, json.dumps(case["table"], sort_keys=True)), steps >= 2)
        bad = False
        for raise_guards, real in ((False, ra), (True, rb)):
            exp = dyn.expected_of(exps[0], raise_guards)
            real = dyn.settle(case, text, c12._SCRATCH, real, raise_guards)
            if "error" in real and real["error"].startswith("compile:"):
                known = None
                if "no binding for nonlocal" in real["error"] and "_Scenic_interrupt" in real["error"]:
                    known = "nested-try-nonlocal"
                elif ("'break' outside loop" in real["error"] or "'continue' not properly in loop" in real["error"]) \
                        and "loopflow" in trig[idx]:
                    known = "nested-try-break-outside-loop"
                bad = True
                ck.violation(f"well-formed program does not compile: {real['error']}",
                             {"property": "C13", "program": text, "case": case, "error": real}, known_key=known)
                break
            diff = dyn.compare(exp, real)
            if diff:
                bad = True
                known = None
                if idx in impl_exp and dyn.compare(dyn.expected_of(impl_exp[idx], raise_guards), real) is None:
                    known = "nested-try-return-leaks"   # matches the named deviation under its trigger
                elif idx in inv_exp and dyn.compare(dyn.expected_of(inv_exp[idx], raise_guards), real) is None:
                    known = "invariant-checked-inside-sub-behaviour"
                ck.violation(f"raiseGuardViolations={raise_guards}: {diff}",
                             {"property": "C13", "program": text, "case": case, "raiseGuardViolations": raise_guards,
                              "expected": exp, "observed": real, "first_difference": diff}, known_key=known)
                break
        if not bad:
            ck.validated(2)
        ck.sample({"program": text, "table": case["table"], "ending": exps[0]["ending"], "events": exps[0]["ev"][:40]}, limit=3)
    return ck.finish()


if __name__ == "__main__":
    sys.exit(main(sys.argv[1] if len(sys.argv) > 1 else "quick"))
