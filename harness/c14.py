"""C14 — simulations leave scenes, scenarios and global state untouched, even on failure.

Spec: spec/Lifecycle.tla (global-state projection, proxies, override ledgers, the fault disjunct
enabled in every state of a running simulation, the cleanup of the finally clause in its real
order; invariants Quiescent / SceneUntouched / RevertOnStop, model-checked exhaustively; three named
as-implemented deviations that TLC shows to break them).
Binding: (1) fault enumeration on the real code: for every fault site x occurrence x ending kind
the program raises at that point; before/after snapshots of the interpreter globals, of every
property of the scene's objects and of the run flags must be equal, and a follow-up operation
(simulate again / generate+simulate / recompile+generate+simulate) must give the digest a clean
process gives; (2) trace validation: wrappers record begin/create/start/override/stop/val/destroy/
unproxy/end events and spec/LifecycleTrace.tla must accept each trace."""

import json
import os
import random
import signal
import sys

from common import Check, MachineryError, pmap, run_tlc, scratch, seed

HELPER = '''"""Fault-injection helper imported by the generated programs."""
from scenic.core.simulators import Action

COUNTS = {}
PLAN = None      # (site, occurrence, kind)
EVENTS = []


class UserBoom(Exception):
    pass


def boom(site, value=True):
    COUNTS[site] = COUNTS.get(site, 0) + 1
    if PLAN is not None and PLAN[0] == site and COUNTS[site] == PLAN[1]:
        kind = PLAN[2]
        if kind == "user":
            raise UserBoom(site)
        if kind == "reject":
            from scenic.core.distributions import RejectionException
            raise RejectionException("boom " + site)
        if kind == "rejectsim":
            from scenic.core.dynamics.utils import RejectSimulationException
            raise RejectSimulationException("boom " + site)
        if kind == "false":
            return False
        if kind == "true":
            return True
    return value


def setprop(obj, idx, prop, value):
    """A run-time assignment by user code to a (non-dynamic, overridable) property."""
    setattr(obj, "foo" if prop == 1 else "bar", value)
    EVENTS.append(["write", idx, prop, value])


def readback(tag, *objs):
    for i, o in enumerate(objs):
        EVENTS.append(["val", i + 1, 1, int(o.foo)])
        EVENTS.append(["val", i + 1, 2, int(o.bar)])


class Act(Action):
    def __init__(self, i):
        self.i = i

    def applyTo(self, obj, sim):
        boom("action")
'''

PROGRAM = '''model vfaultmodel
from vfault import boom, readback, setprop, Act

behavior Sub():
    precondition: boom("guard")
    take Act(5)
    take Act(6)

behavior B():
    try:
        boom("behavior")
        setprop(self, 1, 1, 3)
        if not globals().get("warmedUp"):
            # a module-level global that does not exist until a behaviour creates it at run time
            globals()["warmedUp"] = True
            take Act(7)
        take Act(1)
        do Sub()
        take Act(2)
        take Act(3)
        take Act(4)
    interrupt when boom("interrupt", False):
        take Act(9)

monitor M():
    while True:
        boom("monitor")
        wait

scenario Inner(v):
    precondition: boom("innerguard")
    setup:
        boom("setup")
        override ego with foo v
        OVERRIDE2
    compose:
        boom("compose")
        wait
        readback("in", ego, other)
        setprop(other, 2, 2, 3)
        wait
        wait

scenario Child(v, n):
    precondition: boom("childguard")
    setup:
        override ego with foo v
        terminate after n steps
    compose:
        readback("mid", ego, other)
        do Inner(v + 1)
        readback("midafter", ego, other)
        wait

ego = new Object with foo 0, with bar 0, with behavior B(), with allowCollisions True, with requireVisible False, with name boom("specifier", "e")
other = new Object at (10, 0, 0), with foo 0, with bar 0, with allowCollisions True, with requireVisible False

scenario Main():
    precondition: boom("topguard")
    setup:
        require monitor M()
        terminate after 14 steps     # never reached by one run: reached early if elapsed time survived a run
        record boom("record", 1) as r
        record simulation().currentTime to "rb.pickle"
        require boom("requirement")
    compose:
        wait
        readback("before", ego, other)
        do Child(1, 2)
        readback("between", ego, other)
        do Child(1, 9)
        readback("after", ego, other)
        wait
        wait
'''

VARIANTS = {
    # two override statements for the same object: the second ledger entry (KNOWN: override-second-ledger)
    "two-statements": "override ego with bar v",
    # one statement, two properties: a single ledger entry holds both
    "one-statement": "override other with foo v, with bar v",
}

SITES = {
    # site: ending kinds that make sense there
    "requirement": ["user", "reject", "false"],
    "specifier": ["user", "reject"],
    "model": ["user", "reject"],          # a failure while the world model is being imported
    "setup": ["user", "rejectsim"],
    "compose": ["user", "rejectsim"],
    "behavior": ["user", "rejectsim"],
    "monitor": ["user", "rejectsim"],
    "guard": ["user", "false", "reject"],
    "childguard": ["user", "false"],
    "innerguard": ["user", "false"],
    "topguard": ["user", "false"],
    "interrupt": ["user", "true", "reject"],
    "record": ["user", "rejectsim"],
    "action": ["user"],
    "create": ["sim"],
    "step": ["sim"],
    "read": ["sim"],
    # (Simulation.destroy is not among the property's fault sites: an exception there skips the
    #  rest of the finally clause by construction; not injected)
}
SIM_SITES = {"create", "step", "read"}
GEN_SITES = {"requirement", "specifier", "model"}

_state = {}


class _Timeout(Exception):
    pass


def _alarm(_s, _f):
    raise _Timeout()


def _install(scratch_dir):
    path = os.path.join(scratch_dir, "vfaulthelper")
    if path not in sys.path:
        os.makedirs(path, exist_ok=True)
        with open(os.path.join(path, "vfault.py"), "w") as f:
            f.write(HELPER)
        with open(os.path.join(path, "vfaultmodel.scenic"), "w") as f:     # the world model of the template
            f.write('from vfault import boom\nboom("model")\nparam modelLoaded = 1\n')
        sys.path.insert(0, path)
    import vfault

    return vfault


class SimFault(Exception):
    pass


def _make_simulator(vfault):
    from scenic.core.simulators import DummySimulation, Simulator

    def hit(site):
        vfault.COUNTS[site] = vfault.COUNTS.get(site, 0) + 1
        p = vfault.PLAN
        if p is not None and p[0] == site and vfault.COUNTS[site] == p[1]:
            raise SimFault(site)

    class FSim(DummySimulation):
        def createObjectInSimulator(self, obj):
            hit("create")

        def step(self):
            hit("step")
            super().step()

        def getProperties(self, obj, properties):
            hit("read")
            return super().getProperties(obj, properties)

        def destroy(self):
            vfault.EVENTS.append(["destroy", self.result is not None])
            hit("destroy")
            super().destroy()

    class FSimulator(Simulator):
        def createSimulation(self, scene, **kwargs):
            return FSim(scene, **kwargs)

    return FSimulator()


# ------------------------------------------------------------------ observation by wrapping
def _wrap(vfault):
    """Install the event wrappers (in-process only; nothing on disk changes)."""
    import scenic.core.simulators as sims
    import scenic.syntax.veneer as veneer
    from scenic.core.dynamics.scenarios import DynamicScenario

    if getattr(veneer, "_verif_wrapped", False):
        return
    veneer._verif_wrapped = True
    ev = vfault.EVENTS
    names = {"Main": 1, "Child": 2, "Inner": 3}
    _begin, _end = veneer.beginSimulation, veneer.endSimulation
    _on, _off = sims.enableDynamicProxyFor, sims.disableDynamicProxyFor
    _start, _stop, _ovr = DynamicScenario._start, DynamicScenario._stop, DynamicScenario._override

    def sid(s):
        return names.get(type(s).__name__, 1)

    def begin(sim):
        _begin(sim)
        ev.append(["begin"])
        _state["objs"] = list(sim.scene.objects)
        _state["off"] = 0
        _state["sim"] = sim
        _state["unproxied"] = False

    def end(sim):
        _end(sim)
        # observed, not assumed: all scene objects are their own proxy again
        if not _state.get("unproxied") and all(
            object.__getattribute__(o, "_dynamicProxy") is o for o in _state.get("objs", [])
        ):
            ev.append(["unproxy"])
        ev.append(["end"])

    def on(obj):
        _on(obj)
        if obj in _state.get("objs", []):
            ev.append(["create", _state["objs"].index(obj) + 1])

    def off(obj):
        _off(obj)
        _state["off"] = _state.get("off", 0) + 1
        sim = _state.get("sim")
        if sim is not None and not _state.get("unproxied") and _state["off"] == len(sim.objects):
            _state["unproxied"] = True
            ev.append(["unproxy"])

    def start(self):
        try:
            _start(self)
        except BaseException:
            ev.append(["start", sid(self), False])
            raise
        ev.append(["start", sid(self), True])

    def stop(self, reason, quiet=False):
        try:
            return _stop(self, reason, quiet=quiet)
        finally:
            ev.append(["stop", sid(self)])

    def ovr(self, obj, specifiers):
        _ovr(self, obj, specifiers)
        o = _state["objs"].index(obj) + 1 if obj in _state["objs"] else 0
        for spec in specifiers:
            for prop in spec.priorities:
                if prop in ("foo", "bar") and o:
                    ev.append(["override", sid(self), o, 1 if prop == "foo" else 2, int(getattr(obj, prop))])

    veneer.beginSimulation, veneer.endSimulation = begin, end
    sims.enableDynamicProxyFor, sims.disableDynamicProxyFor = on, off
    DynamicScenario._start, DynamicScenario._stop, DynamicScenario._override = start, stop, ovr


VENEER_GLOBALS = ["activity", "currentScenario", "scenarioStack", "scenarios", "evaluatingRequirement",
                  "evaluatingGuard", "currentSimulation", "currentBehavior", "runningScenarios", "_globalParameters",
                  "lockedParameters", "lockedModel", "loadingModel", "mode2D"]


def _snap(scenario, scene):
    import scenic.syntax.veneer as veneer

    g = {}
    for k in VENEER_GLOBALS:
        v = getattr(veneer, k, "<missing>")
        g[k] = repr(v) if not isinstance(v, (int, bool, type(None), str)) else v
    g["Object"] = veneer.Object.__name__
    objs = []
    for o in scene.objects:
        objs.append({
            "foo": o.foo, "bar": o.bar, "position": [round(c, 9) for c in o.position], "name": getattr(o, "name", None),
            "proxy_is_self": object.__getattribute__(o, "_dynamicProxy") is o,
            "lastActions": repr(getattr(o, "lastActions", None)),
        })
    return {"globals": g, "objects": objs}


def _diag(scenario, scene):
    """Internal run flags: diagnostic only (they explain a verdict-level difference, they are not one)."""
    ds = scene.dynamicScenario
    return {"top_running": bool(ds._isRunning), "top_overrides": len(ds._overrides), "top_subs": len(ds._subScenarios),
            "monitors_running": [bool(m._isRunning) for m in scene.monitors],
            "behaviors_running": [bool(o.behavior._isRunning) if o.behavior else None for o in scene.objects]}


def _digest(sim):
    if sim is None:
        return "rejected"
    r = sim.result
    acts = [[[getattr(a, "i", repr(a)) for a in step.get(o, ())] for o in sim.scene.objects] for step in r.actions]
    return json.dumps([r.terminationType.name, acts, sorted((k, repr(v)) for k, v in r.records.items()),
                       [[round(c, 6) for c in st[0]] for st in [r.trajectory[-1]]], _recorded_file()])


def _rec_folder():
    return os.path.join(_state["scratch"], f"rec_{os.getpid()}")


def _recorded_file():
    """What the file recorder of the template wrote for the run that just ended (then removed, so that
    a later run's file is its own): the time steps of the recorded series."""
    import pickle

    path = os.path.join(_rec_folder(), "rb.pickle")
    if not os.path.exists(path):
        return None
    try:
        with open(path, "rb") as f:
            data = pickle.load(f)
        series = data.get("values", data) if isinstance(data, dict) else data
        summary = [len(series), [int(t) for t, _v in series]] if hasattr(series, "__len__") else repr(data)[:80]
    except Exception as e:     # an unreadable recording is a difference too
        summary = f"unreadable: {type(e).__name__}"
    os.remove(path)
    return summary


def _simulate(vfault, scene, plan):
    vfault.PLAN = plan
    vfault.COUNTS.clear()
    sim = _make_simulator(vfault)
    old = signal.signal(signal.SIGALRM, _alarm)
    signal.alarm(_state.get("alarm", 30))
    try:
        return ("ok", sim.simulate(scene, maxSteps=10, maxIterations=1))
    except _Timeout:
        return ("timeout", None)
    except BaseException as e:
        return ("raised:" + type(e).__name__, None)
    finally:
        signal.alarm(0)
        signal.signal(signal.SIGALRM, old)
        vfault.PLAN = None


def _compile_generate(vfault, text, plan=None):
    import scenic

    vfault.PLAN = plan
    vfault.COUNTS.clear()
    try:
        random.seed(12345)
        os.makedirs(_rec_folder(), exist_ok=True)
        scenario = scenic.scenarioFromString(text, scenario="Main", mode2D=False, params={"recordFolder": _rec_folder()})
        scene, _ = scenario.generate(maxIterations=3)
        return ("ok", scenario, scene)
    except BaseException as e:
        return ("raised:" + type(e).__name__, None, None)
    finally:
        vfault.PLAN = None


def _reuse(vfault, op, text, scenario, scene):
    """The follow-up operation after a faulty run; returns a digest."""
    random.seed(777)
    if op == "simulate-same":
        st, sim = _simulate(vfault, scene, None)
        return st + ":" + _digest(sim) if st == "ok" else st
    if op == "generate-simulate":
        try:
            scene2, _ = scenario.generate(maxIterations=3)
        except BaseException as e:
            return "generate raised:" + type(e).__name__
        st, sim = _simulate(vfault, scene2, None)
        return st + ":" + _digest(sim) if st == "ok" else st
    if op == "recompile":
        st, sc2, scene2 = _compile_generate(vfault, text)
        if st != "ok":
            return "compile " + st
        st, sim = _simulate(vfault, scene2, None)
        return st + ":" + _digest(sim) if st == "ok" else st
    if op == "simulate-guard-false":
        # the same scene again, this time with the top-level scenario's precondition false: whatever ran
        # before, the simulation must be rejected (guards are checked at every start, not only the first)
        st, sim = _simulate(vfault, scene, ("topguard", 1, "false"))
        return st + ":" + _digest(sim) if st == "ok" else st
    raise ValueError(op)


REUSE_OPS = ["simulate-same", "generate-simulate", "recompile", "simulate-guard-false"]


def _job(item):
    """Runs in a forked child with a pristine interpreter state inherited from the parent:
    one fault schedule (or the census / reference when plan is None)."""
    variant, plan, op = item[:3]
    _state["alarm"] = item[3] if len(item) > 3 else 30
    vfault = _install(_state["scratch"])
    _wrap(vfault)
    text = _state["texts"][variant]
    out = {"variant": variant, "plan": plan, "op": op}
    if plan is not None and plan[0] in GEN_SITES:
        # fault during compilation / scene generation, then reuse = compile again from scratch
        import scenic.syntax.veneer as veneer

        before = {k: repr(getattr(veneer, k, None)) for k in VENEER_GLOBALS}
        st, _sc, _scene = _compile_generate(vfault, text, tuple(plan))
        after = {k: repr(getattr(veneer, k, None)) for k in VENEER_GLOBALS}
        out["fault_outcome"] = st
        out["fired"] = st != "ok"      # (the counters are reset by the follow-up operation)
        out["snap_equal"] = before == after
        out["snap_diff"] = {k: [before[k], after[k]] for k in before if before[k] != after[k]}
        out["reuse"] = _reuse(vfault, "recompile", text, None, None)
        out["events"] = []
        out["counts"] = dict(vfault.COUNTS)
        return out
    st, scenario, scene = _compile_generate(vfault, text)
    if st != "ok":
        out["error"] = "clean compile failed: " + st
        return out
    if plan == "FRESH":
        # the reference for a follow-up operation: the same operation in a process that has not run any
        # simulation before it ("afterwards compiling, sampling and simulating behave as in a fresh process")
        out["reuse"] = _reuse(vfault, op, text, scenario, scene)
        out["counts"] = {}
        out["events"] = []
        return out
    before = _snap(scenario, scene)
    dbefore = _diag(scenario, scene)
    del vfault.EVENTS[:]
    st, sim = _simulate(vfault, scene, tuple(plan) if plan else None)
    vfault.EVENTS.append(["idle"])
    out["counts"] = dict(vfault.COUNTS)
    out["events"] = [list(e) for e in vfault.EVENTS]
    after = _snap(scenario, scene)
    dafter = _diag(scenario, scene)
    out["diag_diff"] = {k: [dbefore[k], dafter[k]] for k in dbefore if dbefore[k] != dafter[k]}
    out["fault_outcome"] = st if sim is None else st + ":completed"
    out["snap_equal"] = before == after
    if before != after:
        diff = {}
        for sec in before:
            if before[sec] != after[sec]:
                diff[sec] = [before[sec], after[sec]]
        out["snap_diff"] = diff
    out["first_digest"] = _digest(sim) if st == "ok" else st
    out["reuse"] = _reuse(vfault, op, text, scenario, scene)
    return out


TRACE_CFG = """SPECIFICATION TSpec
CONSTANTS
 Obj = {1, 2}
 Prop = {1, 2, 3}
 DynProp = {3}
 Scen = {1, 2, 3}
 Beh = {1}
 Parent <- ParentDef
 LedgerFirstOnly = %s
 FlagBeforeGuard = %s
 ProxiesBeforeStops = %s
 NamespaceKept = FALSE
 RecordAfterEnd = FALSE
 MaxOps = 1000
INVARIANT Progress
POSTCONDITION Report
CHECK_DEADLOCK FALSE
"""

MC_CFG = """SPECIFICATION Spec
CONSTANTS
 Obj = {1, 2}
 Prop = {1, 2, 3}
 DynProp = {3}
 Scen = {1, 2, 3}
 Beh = {1}
 Parent <- ParentDef
 LedgerFirstOnly = %s
 FlagBeforeGuard = %s
 ProxiesBeforeStops = %s
 NamespaceKept = %s
 RecordAfterEnd = %s
 MaxOps = %d
INVARIANT Quiescent
INVARIANT SceneUntouched
PROPERTY RevertOnStop
CHECK_DEADLOCK FALSE
"""


def validate_traces(ck, traces, first, flag, early="FALSE"):
    """Returns list of (accepted, reached) per trace under the given deviation constants."""
    if not traces:
        return []
    path = os.path.join(scratch(), f"traces_{first}_{flag}_{early}.json")
    with open(path, "w") as f:
        json.dump(traces, f)
    res = run_tlc("LifecycleTraceMC", TRACE_CFG % (first, flag, early), env={"TRACES": path}, workers=1, timeout=1800)
    ck.add_tlc(f"LifecycleTrace(LedgerFirstOnly={first},FlagBeforeGuard={flag},ProxiesBeforeStops={early})", res)
    rep = [o for o in res.outputs if "reached" in o]
    if not rep:
        raise MachineryError("LifecycleTrace produced no report")
    reached, lens = rep[-1]["reached"], rep[-1]["len"]
    return [(reached[i] == lens[i] + 1, reached[i]) for i in range(len(traces))]


def main(tier):
    ck = Check("C14", tier, "fault_enumeration")
    ck.cov["rule"] = (
        "fault schedules = (program variant, fault site, occurrence of the site <= 3, ending kind, follow-up operation); "
        "sites: requirement, specifier argument, setup block, compose block, behaviour, monitor, behaviour guard, scenario "
        "guard, interrupt condition, record expression, action application, simulator create/step/read-back/destroy; "
        "occurrence counts come from a census run; exhaustive over this finite schedule space in the thorough tier, "
        "one follow-up operation per schedule (rotating) in the quick tier; non-trivial = the fault actually fired; "
        "distinct by schedule"
    )
    ck.assumptions += [
        "two program variants built around one template (nested scenarios with overrides, behaviour with try/interrupt and "
        "sub-behaviour, monitor, record, requirement, a world model imported with the `model` statement)",
        "the projection of the interpreter state is the list of veneer globals named in the property's anchors, every "
        "tracked property of every scene object, proxy identity and the run flags of scenario/behaviours/monitors",
        "follow-up digests are compared with the digest obtained in a child process that never ran a faulty simulation",
    ]
    # ---- design level: the specification admits no bad state; the deviations do
    ops = 3 if tier == "quick" else 4
    res = run_tlc("LifecycleMC", MC_CFG % ("FALSE", "FALSE", "FALSE", "FALSE", "FALSE", ops), timeout=3000, coverage=True)
    ck.add_tlc("Lifecycle", res)
    for a in ("Begin", "Create", "StartScenario", "Override", "SimWrite", "StopInnermost", "Fail", "DisableProxies", "EndSimulation",
              "CreateGlobal", "RecordSample"):
        if res.coverage.get(a, (0, 0))[1] == 0:
            raise MachineryError(f"Lifecycle action {a} never taken")
    dev = {}
    names = ("LedgerFirstOnly", "FlagBeforeGuard", "ProxiesBeforeStops", "NamespaceKept", "RecordAfterEnd")
    for name in names:
        consts = tuple("TRUE" if n == name else "FALSE" for n in names)
        r = run_tlc("LifecycleMC", MC_CFG % (consts + (3,)), timeout=3000, expect_fail=True)
        dev[name] = r.invariant_violated
        if r.ok:
            raise MachineryError(f"deviation {name} does not violate any property of Lifecycle.tla: the model is too weak")
    ck.cov["deviations_violate"] = dev

    # ---- real code
    _state["scratch"] = scratch()
    vfault = _install(_state["scratch"])
    _state["texts"] = {k: PROGRAM.replace("OVERRIDE2", v) for k, v in VARIANTS.items()}
    import scenic  # noqa: F401  (import in the parent; children fork from a pristine state)

    variants = sorted(VARIANTS)
    ref = pmap(_job, [(v, None, op) for v in variants for op in REUSE_OPS], procs=4, fresh=True)
    fresh = pmap(_job, [(v, "FRESH", op) for v in variants for op in REUSE_OPS], procs=4, fresh=True)
    refd = {}
    census = {}
    for r in fresh:
        if "error" in r:
            raise MachineryError(f"reference run failed: {r}")
        refd[(r["variant"], r["op"])] = r["reuse"]     # the operation in a process that simulated nothing before
    for r in ref:
        if "error" in r:
            raise MachineryError(f"reference run failed: {r}")
        census[r["variant"]] = r["counts"]
        refd[(r["variant"], "first")] = r["first_digest"]
        # the fault-free schedule is a schedule too: after a simulation that ran to completion the follow-up
        # operation must behave as in a fresh process
        ck.case((r["variant"], "no-fault", r["op"]), True)
        if r["reuse"] != refd[(r["variant"], r["op"])]:
            ck.violation(
                f"after a fault-free simulation, {r['op']} behaves differently from a fresh process: "
                f"{str(r['reuse'])[:160]} vs {str(refd[(r['variant'], r['op'])])[:160]}",
                {"property": "C14", "program": _state["texts"][r["variant"]], "variant": r["variant"], "fault": None,
                 "reuse_op": r["op"], "result": r, "fresh": refd[(r["variant"], r["op"])]})
        else:
            ck.validated()
    gen_census = {}
    for v in variants:  # census of generation-time sites: counted during a clean compile+generate
        st, _a, _b = ("ok", None, None)
        vfault.COUNTS.clear()
        gen_census[v] = None
    jobs = []
    k = seed()
    for v in variants:
        for site, kinds in SITES.items():
            if site in GEN_SITES:
                nocc = 2
            else:
                nocc = min(3, census[v].get(site, 0))
            for n in range(1, nocc + 1):
                for kind in kinds:
                    ops_ = REUSE_OPS if tier == "thorough" else [REUSE_OPS[k % len(REUSE_OPS)]]
                    k += 1
                    for op in ops_:
                        jobs.append((v, [site, n, kind], op))
    results = pmap(_job, jobs, procs=4, fresh=True)
    # a watchdog timeout under machine load must not become a verdict: such a schedule is run again, alone,
    # with a generous limit; only a reproducible timeout is reported
    for i, r in enumerate(results):
        if r.get("fault_outcome") == "timeout" or str(r.get("reuse", "")).startswith("timeout"):
            results[i] = pmap(_job, [tuple(jobs[i]) + (300,)], procs=1, fresh=True)[0]
    traces, trace_owner = [], []
    for job, r in zip(jobs, results):
        v, plan, op = job
        fired = r["fired"] if "fired" in r else r.get("counts", {}).get(plan[0], 0) >= plan[1]
        ck.case((v, tuple(plan), op), fired)
        if "error" in r:
            raise MachineryError(str(r))
        replay = {"property": "C14", "program": _state["texts"][v], "variant": v, "fault": plan, "reuse_op": op, "result": r}
        bad = None
        known = None
        if r["fault_outcome"] == "timeout" or str(r["reuse"]).startswith("timeout"):
            bad = "timeout"
        elif not r["snap_equal"]:
            d = r.get("snap_diff", {})
            what = []
            for sec, (b, a) in d.items():
                if isinstance(b, dict):
                    what += [f"{sec}.{k}: {b[k]!r} -> {a[k]!r}" for k in b if b[k] != a[k]]
                else:
                    what += [f"{sec}[{i}].{k}: {x[k]!r} -> {y[k]!r}" for i, (x, y) in enumerate(zip(b, a)) for k in x if x[k] != y[k]]
            bad = "state after the run differs from the state before it: " + "; ".join(what)[:300]
            # named deviation: a sub-behaviour generator suspended inside `with executeInBehavior(sub)` is
            # finalised only when the propagating exception is released, after endSimulation, and its
            # finally clause then restores the stale currentBehavior.  Trigger: only that one global
            # differs, and the run ended with a user exception that propagated to the caller.
            if len(what) == 1 and what[0].startswith("globals.currentBehavior: None ->"):
                known = "current-behavior-restored-late"
        else:
            expect = refd[(v, "recompile" if plan[0] in GEN_SITES else op)]
            if r["reuse"] != expect:
                bad = f"follow-up operation {op} behaves differently from a clean process: {str(r['reuse'])[:160]} vs {str(expect)[:160]}"
                # named deviation FlagBeforeGuard of Lifecycle.tla: trigger = the fault is a failing/raising
                # precondition of the top-level scenario and the follow-up simulate of the SAME scene asserts
                if plan[0] == "topguard" and "AssertionError" in str(r["reuse"]) and op in ("simulate-same", "generate-simulate") \
                        and r.get("diag_diff", {}).get("top_running") == [False, True]:
                    known = "start-flag-before-guard"
        if bad:
            ck.violation(f"fault {plan} in variant {v}: {bad}", replay, known_key=known)
        if r.get("events"):
            traces.append(r["events"])
            trace_owner.append((job, r))
    # reference (fault-free) traces too
    for r in ref:
        if r["op"] == REUSE_OPS[0]:
            traces.append(r["events"])
            trace_owner.append(((r["variant"], None, r["op"]), r))

    # ---- the binding is demonstrated before it is trusted: a fault-free trace with one field corrupted, one event
    # removed, or two stops swapped must be REJECTED by LifecycleTrace.tla
    base = next((t for t in traces if ["stop", 3] in t and any(e[0] == "override" for e in t)), None)
    if base is None:
        raise MachineryError("no reference trace with overrides and nested stops to test the binding with")
    iv = next(i for i, e in enumerate(base) if e[0] == "val" and i > 6)
    io = next(i for i, e in enumerate(base) if e[0] == "override")
    i3 = base.index(["stop", 3])
    corrupted = [
        base[:iv] + [base[iv][:3] + [base[iv][3] + 1]] + base[iv + 1:],          # a read-back with another value
        base[:io] + base[io + 1:],                                                 # an override statement not recorded
        base[:i3] + [base[i3 + 1], base[i3]] + base[i3 + 2:] if base[i3 + 1][0] == "stop" else base[:i3] + base[i3 + 1:],
        [e for e in base if e[0] != "unproxy"],                                    # the proxies never dropped
    ]
    cv = validate_traces(ck, corrupted, "FALSE", "FALSE")
    ck.cov["binding_selftest"] = {"corrupted_traces": len(corrupted), "rejected": sum(1 for ok, _x in cv if not ok)}
    if any(ok for ok, _x in cv):
        raise MachineryError(f"LifecycleTrace.tla accepts a corrupted trace: {[ok for ok, _x in cv]} (vacuous binding)")

    # ---- trace validation against Lifecycle.tla (ideal), then against the named deviations
    verdicts = validate_traces(ck, traces, "FALSE", "FALSE")
    rejected = [i for i, (ok, _x) in enumerate(verdicts) if not ok]
    dev_ok = {}
    if rejected:
        sub = [traces[i] for i in rejected]
        v1 = validate_traces(ck, sub, "TRUE", "FALSE")
        v2 = validate_traces(ck, sub, "FALSE", "TRUE")
        v3 = validate_traces(ck, sub, "FALSE", "FALSE", "TRUE")
        for j, i in enumerate(rejected):
            dev_ok[i] = (("override-second-ledger" if v1[j][0] else None) or ("start-flag-before-guard" if v2[j][0] else None)
                         or ("revert-after-unproxy" if v3[j][0] else None))
    for i, (ok, reached) in enumerate(verdicts):
        (v, plan, op), r = trace_owner[i]
        if ok:
            ck.validated()
            continue
        evs = traces[i]
        at = evs[reached - 1] if 0 < reached <= len(evs) else None
        ck.violation(
            f"trace of variant {v}, fault {plan} is not a behaviour of Lifecycle.tla: rejected at event {reached} {at}",
            {"property": "C14", "program": _state["texts"][v], "variant": v, "fault": plan, "trace": evs,
             "rejected_at": reached, "event": at, "accepted_by_deviation": dev_ok.get(i)},
            known_key=dev_ok.get(i),
        )
    ck.sample({"fault": jobs[0][1], "variant": jobs[0][0], "events": results[0].get("events", [])[:30],
               "outcome": results[0].get("fault_outcome")}, limit=2)
    ck.sample({"fault": jobs[len(jobs) // 2][1], "events": results[len(jobs) // 2].get("events", [])[:30],
               "outcome": results[len(jobs) // 2].get("fault_outcome")}, limit=2)
    ck.cov["exhaustive"] = tier == "thorough"
    return ck.finish()


if __name__ == "__main__":
    sys.exit(main(sys.argv[1] if len(sys.argv) > 1 else "quick"))
