"""C15 — same program, options and seed give identical scenes and runs, every time.

Spec: spec/Determinism.tla — self-composition of the sampler machine (two copies, same program,
same RNG stream, different environments: dependency-collection order, requirement-check order,
internal randomness, prior history).  TLC: the insertion-ordered model must satisfy
Deterministic/PrefixConsistent/StreamUntouched/FlagsFresh; the set-ordered model (the
as-implemented deviation, trigger: at least two requirement-only random roots) must FAIL
DeterministicScene (counterexample recorded in the evidence); the model without RestoreRng
must fail too.

Binding: cross-process trace validation.  Every generated program is compiled and sampled in N
FRESH interpreters (harness/c15_worker.py) with the same seeds and different perturbations
(PYTHONHASHSEED, junk allocation before compilation, jittering requirement-checker clock, scenes
generated before re-seeding).  VERDICT: the canonical dumps must be identical.  DIAGNOSTIC:
spec/DeterminismTrace.tla must accept the N draw traces with ONE value of the unlogged
dependency order; per-process acceptance tells whether each process on its own is a behaviour of
the sampler under some order (the named deviation), and which two nodes flipped."""

import itertools
import json
import os
import random
import subprocess
import sys
import time
from concurrent.futures import ThreadPoolExecutor
from fractions import Fraction

from common import PY, VERIF, Check, MachineryError, run_tlc, scratch, seed
import gen_discrete as G

WORKER = os.path.join(VERIF, "harness", "c15_worker.py")
KNOWN_KEY = "requirement-deps-set-order"

MYPRELUDE = """import random as c15_random
import numpy as c15_numpy
def vnoise(x):
    c15_random.random()
    return x
def vnoisen(x):
    c15_numpy.random.random()
    return x
"""

# dynamic programs: the static part stays in the fragment (so the spec still explains scene
# generation); two agents whose behaviours draw at run time, one global used only by them
DYN_BEHAVIOR = """behavior Walker(base):
    take base
    while True:
        x = DiscreteRange(0, 3)
        if x == 0:
            take Uniform(10, 20)
        elif x == 1:
            take x + g1
        else:
            take c15_random.randint(0, 100)
"""
DYN_OTHER = "other = new Object at (20, 20), with behavior Walker(3)\n"

CFG = """SPECIFICATION DSpec
CONSTANTS
  OrderedDeps = {ordered}
  RestoreRng = {restore}
  FullPairs = {full}
  MaxPrior = {prior}
  R = {R}
INVARIANT DTypeOK
{more}INVARIANT EmitPair
VIEW DView
CHECK_DEADLOCK FALSE
"""
ALL_INVS = ("INVARIANT Deterministic\nINVARIANT DeterministicScene\nINVARIANT PrefixConsistent\n"
            "INVARIANT StreamUntouched\nINVARIANT FlagsFresh\n")

TRACE_CFG = """SPECIFICATION TraceSpec
CONSTANTS
  OrderedDeps = TRUE
  RestoreRng = TRUE
  FullPairs = TRUE
  MaxPrior = 0
  R = 2
INVARIANT TraceTypeOK
INVARIANT EmitAccepted
INVARIANT EmitProgress
CHECK_DEADLOCK FALSE
"""


# ------------------------------------------------------------------ programs
def V(n):
    return ("var", n)


def L(v):
    return ("lit", v)


def _strip_expr(e, cnt):
    t = e[0]
    if t == "call" and e[1] in ("vnoise", "vnoisen"):
        cnt[0] += 1
        return _strip_expr(e[2][0], cnt)
    if t in ("lit", "var"):
        return e
    if t == "drange":
        return ("drange", _strip_expr(e[1], cnt), _strip_expr(e[2], cnt))
    if t == "uniform":
        return ("uniform", [_strip_expr(x, cnt) for x in e[1]])
    if t == "discrete":
        return ("discrete", [(_strip_expr(x, cnt), w) for x, w in e[1]])
    if t == "resample":
        return ("resample", _strip_expr(e[1], cnt))
    if t == "bin":
        return ("bin", e[1], _strip_expr(e[2], cnt), _strip_expr(e[3], cnt))
    if t == "un":
        return ("un", e[1], _strip_expr(e[2], cnt))
    if t == "call":
        return ("call", e[1], [_strip_expr(x, cnt) for x in e[2]], [(k, _strip_expr(x, cnt)) for k, x in e[3]])
    raise ValueError(e)


def _strip_cond(c, cnt):
    if c[0] == "cmp":
        return ("cmp", c[1], _strip_expr(c[2], cnt), _strip_expr(c[3], cnt))
    if c[0] in ("and", "or"):
        return (c[0], _strip_cond(c[1], cnt), _strip_cond(c[2], cnt))
    return ("not", _strip_cond(c[1], cnt))


def describe(prog, n):
    nd = prog["nodes"][n - 1]
    k = nd["k"]
    if k == "const":
        return str(nd["c"][0])
    if k == "drange":
        return f"DiscreteRange({describe(prog, nd['a'][0])}, {describe(prog, nd['a'][1])})"
    if k == "wsel":
        return f"selector{nd['c']}"
    if k == "mux":
        return "Options[" + describe(prog, nd["a"][0]) + "](" + ", ".join(describe(prog, a) for a in nd["a"][1:]) + ")"
    return k + "(" + ", ".join(describe(prog, a) for a in nd["a"]) + ")"


def make_case(ast, max_iter, dynamic=False):
    """(text, prog, info) from one AST; vnoise calls are internal RNG consumers: identity for
    the values (stripped for the spec's node DAG), counted per requirement as `ic`.
    dynamic: the object gets a behaviour; as soon as a module defines a behaviour every random
    value bound to a module-level name is a behaviour dependency (Scenario.__init__), appended
    after the requirement dependencies in namespace order: broots."""
    ast2, ics = [], []
    for s in ast:
        if s[0] == "require":
            cnt = [0]
            ast2.append(("require", s[1], _strip_cond(s[2], cnt)))
            ics.append(cnt[0])
        else:
            ast2.append(s)
    prog, info = G.to_prog(ast2, max_iter)
    nodes = prog["nodes"]
    # name -> node (programs of this check never rebind a name)
    names = [st[1] for st in ast2 if st[0] == "let"]
    if len(set(names)) != len(names):
        raise G.IllFormed("rebinding")
    aug, _ = G.to_prog(ast2 + [("param", f"zz{i}", V(nm)) for i, nm in enumerate(names)], max_iter)
    if aug["nodes"][: len(nodes)] != nodes:
        raise G.IllFormed("name lookup changed the DAG")
    node_of = dict(zip(names, aug["outs"][len(prog["outs"]):]))
    israndom = lambda n: n <= len(nodes) and nodes[n - 1]["k"] != "const"  # noqa: E731

    def reachable(roots):
        seen = set()

        def visit(n):
            if n in seen:
                return
            seen.add(n)
            for m in nodes[n - 1]["a"]:
                visit(m)

        for n in roots:
            visit(n)
        return seen

    outs = set(prog["outs"])
    froots = [n for n in prog["roots"] if n in outs]
    reach = reachable(froots)
    froots = [n for n in prog["roots"] if n in reach]
    # the dependencies of a requirement are the values bound to the NAMES it mentions
    # (PendingRequirement saves the bindings of the names; the expression itself is evaluated
    # at check time), in order of first mention
    mentioned = []

    def vars_of(t):
        if isinstance(t, tuple) and t and t[0] == "var":
            if t[1] not in mentioned:
                mentioned.append(t[1])
        elif isinstance(t, (tuple, list)):
            for x in t:
                vars_of(x)

    for st in ast2:
        if st[0] == "require":
            vars_of(st[2])
    rroots = []
    for nm in mentioned:
        n = node_of[nm]
        if israndom(n) and n not in reach and n not in rroots:
            rroots.append(n)
    broots = []
    if dynamic:
        for nm in names:
            n = node_of[nm]
            if israndom(n) and n not in broots:
                broots.append(n)
    # the operands of the conditions are computed (no draw) once everything they need is sampled
    eroots = [n for n in prog["roots"] if n not in reach and n not in rroots]
    prims = lambda ns: {n for n in reachable(ns) if nodes[n - 1]["k"] in ("drange", "wsel")}  # noqa: E731
    if not prims(eroots) <= prims(froots + rroots + broots):
        raise G.IllFormed("anonymous random value inside a requirement")
    prog["froots"], prog["rroots"], prog["broots"], prog["eroots"] = froots, rroots, broots, eroots
    for r, ic in zip(prog["reqs"], ics):
        r["ic"] = ic
    text = G.to_scenic(ast).replace(G.PRELUDE, G.PRELUDE + MYPRELUDE + (DYN_BEHAVIOR if dynamic else ""), 1)
    if dynamic:
        if text.count("ego = new Object with foo ") != 1:
            raise G.IllFormed("dynamic program needs exactly one object")
        lines = text.split("\n")
        for li, ln in enumerate(lines):
            if ln.startswith("ego = new Object with foo "):
                lines[li] = "ego = new Object at (0, 0), with foo " + ln[len("ego = new Object with foo "):] + ", with behavior Walker(2)"
        text = "\n".join(lines) + DYN_OTHER
        info["mode"] = "dynamic"
    info["ast"] = repr(ast)
    info["nreq"] = len(prog["reqs"])
    info["nrr"] = len(rroots)
    info["noise"] = sum(ics)
    return text, prog, info


def family(tier="thorough"):
    """Exhaustive core for TLC (every program is also a valid Scenic program): k = 0..3
    requirement-only values, 1..3 requirements (hard/soft, with/without internal randomness),
    same/distinct/chained supports.  The quick tier keeps 7 of the 18 programs with k = 3."""
    out = []
    for k in range(0, 4):
        for sup in ("same", "distinct", "chain"):
            if k == 0 and sup != "same":
                continue
            if sup == "chain" and k < 2:
                continue
            lets = []
            lo = {}
            for i in range(1, k + 1):
                a = 0 if sup != "distinct" else 2 * i
                lo[i] = a
                if sup == "chain" and i > 1:
                    lets.append(("let", f"r{i}", ("drange", V(f"r{i - 1}"), L(1))))
                else:
                    lets.append(("let", f"r{i}", ("drange", L(a), L(a + 1))))
            R_ = {i: (V(f"r{i}") if lo[i] == 0 else ("bin", "sub", V(f"r{i}"), L(lo[i]))) for i in lo}
            P = V("q")
            reqsets = {
                0: [[(None, ("cmp", "eq", P, L(1)))], [(Fraction(1, 2), ("cmp", "eq", P, L(1)))]],
                1: [[(None, ("cmp", "eq", R_.get(1), L(1)))],
                    [(None, ("cmp", "eq", R_.get(1), L(1))), (None, ("cmp", "eq", P, L(1)))],
                    [(Fraction(1, 2), ("cmp", "eq", R_.get(1), L(1))), (None, ("cmp", "le", P, R_.get(1)))]],
                2: [[(None, ("cmp", "lt", R_.get(1), R_.get(2)))],
                    [(None, ("cmp", "eq", R_.get(1), L(1))), (None, ("cmp", "eq", R_.get(2), L(0)))],
                    [(Fraction(1, 2), ("cmp", "eq", R_.get(1), L(1))), (None, ("cmp", "eq", R_.get(2), L(0))),
                     (None, ("cmp", "eq", P, L(1)))],
                    [(None, ("cmp", "le", R_.get(1), R_.get(2))), (Fraction(1, 2), ("cmp", "ne", P, R_.get(2)))]],
                3: [[(None, ("cmp", "lt", R_.get(1), R_.get(2))), (None, ("cmp", "le", R_.get(2), R_.get(3)))],
                    [(None, ("cmp", "eq", R_.get(1), L(1))), (None, ("cmp", "eq", R_.get(2), L(0))),
                     (None, ("cmp", "eq", R_.get(3), L(1)))],
                    [(None, ("and", ("cmp", "le", R_.get(1), R_.get(2)), ("cmp", "lt", R_.get(2), R_.get(3))))]],
            }[k]
            for ri, rs in enumerate(reqsets):
                for noise in (False, True):
                    if tier == "quick" and k == 3 and (sup == "distinct" or (noise and (sup, ri) != ("same", 0))):
                        continue
                    ast = list(lets) + [("let", "q", ("drange", L(0), L(1)))]
                    for i, (pr, c) in enumerate(rs):
                        if noise and i % 2 == 0:
                            c = _noisy(c)
                        ast.append(("require", pr, c))
                    ast.append(("param", "p", P))
                    out.append(make_case(ast, 2))
                    if k == 2 and sup == "same" and not noise and ri < 2:
                        # the same with a behaviour: every named random value is also a behaviour
                        # dependency (appended after the requirement dependencies), g1 only that
                        dyn = [("let", "g1", ("drange", L(0), L(1)))] + ast + [("object", V("q"))]
                        out.append(make_case(dyn, 2, dynamic=True))
    return out


def _noisy(c, fn="vnoise"):
    if c[0] == "cmp":
        return ("cmp", c[1], ("call", fn, [c[2]], []), c[3])
    if c[0] in ("and", "or"):
        return (c[0], _noisy(c[1], fn), c[2])
    return ("not", _noisy(c[1], fn))


def random_case(rng, max_iter, dynamic=False):
    """A random program weighted towards random values referenced ONLY from requirements and
    towards two or more requirements."""
    k = rng.choice([0, 1, 1, 2, 2, 3, 3, 3])
    ast = []
    rnames, snames = [], []

    def leaf():
        kind = rng.choice(["drange", "drange", "drange", "uniform", "discrete"])
        if kind == "drange":
            lo = rng.randint(0, 3)
            return ("drange", L(lo), L(lo + rng.randint(1, 3)))
        if kind == "uniform":
            return ("uniform", [L(v) for v in rng.sample(range(0, 6), rng.randint(2, 3))])
        vs = rng.sample(range(0, 6), rng.randint(2, 3))
        return ("discrete", [(L(v), rng.randint(1, 3)) for v in vs])

    for i in range(k):
        nm = f"r{i + 1}"
        if rnames and rng.random() < 0.25:
            e = ("drange", V(rng.choice(rnames)), L(rng.randint(3, 5)))  # chained
        elif rnames and rng.random() < 0.15:
            e = ("bin", rng.choice(["add", "sub"]), V(rng.choice(rnames)), leaf())  # anonymous inner value
        else:
            e = leaf()
        ast.append(("let", nm, e))
        rnames.append(nm)
    for i in range(rng.choice([0, 1, 1, 2])):
        nm = f"s{i + 1}"
        ast.append(("let", nm, leaf()))
        snames.append(nm)
    body = []
    npar = rng.choice([1, 1, 2])
    for i in range(npar):
        if snames and rng.random() < 0.7:
            e = V(rng.choice(snames))
            if rng.random() < 0.3:
                e = ("bin", "add", e, L(rng.randint(1, 3)))
        else:
            e = leaf()
        body.append(("param", f"p{i}", e))
    if dynamic:
        ast.append(("let", "g1", leaf()))
    if dynamic or rng.random() < 0.3:
        body.append(("object", V(rng.choice(snames)) if snames and rng.random() < 0.6 else leaf()))
    nreq = rng.choice([1, 2, 2, 2, 3, 3]) if k else rng.choice([1, 2])
    pool = rnames + snames
    must = list(rnames)
    rng.shuffle(must)
    probs = []
    for i in range(nreq):
        def operand():
            if must:
                return V(must.pop())
            if pool and rng.random() < 0.75:
                return V(rng.choice(pool))
            return L(rng.randint(0, 4))

        a = operand()
        b = operand() if rng.random() < 0.6 else L(rng.randint(1, 4))
        if a[0] == "lit" and b[0] == "lit":
            if not pool:
                continue
            a = V(rng.choice(pool))
        c = ("cmp", rng.choice(["lt", "le", "ne", "ge", "gt", "le", "ge"]), a, b)
        if must and rng.random() < 0.5:
            c = (rng.choice(["and", "or"]), c, ("cmp", rng.choice(["le", "ge", "ne"]), V(must.pop()), L(rng.randint(1, 4))))
        if rng.random() < 0.35:
            c = _noisy(c, rng.choice(["vnoise", "vnoise", "vnoisen"]))
        pr = None
        if rng.random() < 0.3:
            pr = rng.choice([Fraction(1, 4), Fraction(1, 2), Fraction(3, 4)])
            if probs:
                pr = probs[0]
            probs.append(pr)
        body.append(("require", pr, c))
    while must:  # every requirement-only value is mentioned by some requirement
        body.append(("require", None, ("cmp", rng.choice(["le", "ge", "ne"]), V(must.pop()), L(rng.randint(1, 4)))))
    rng.shuffle(body)
    ast += body
    if not any(s[0] == "param" for s in ast):
        ast.append(("param", "p0", leaf()))
    return make_case(ast, max_iter, dynamic)


def canary():
    """The smallest program on which the set-ordered collection is visible: three
    requirement-only values, two requirements chained through the middle one."""
    D = lambda a, b: ("drange", L(a), L(b))  # noqa: E731
    return make_case([("let", "r1", D(0, 9)), ("let", "r2", D(10, 19)), ("let", "r3", D(20, 29)),
                      ("param", "p", D(0, 9)),
                      ("require", None, ("cmp", "lt", ("bin", "add", V("r1"), L(10)), V("r2"))),
                      ("require", None, ("cmp", "lt", ("bin", "add", V("r2"), L(10)), V("r3")))], 20)


class _Rej(Exception):
    pass


def accept_rate(ast, rng, n=150):
    """Generator-side estimate of the acceptance probability of one attempt (plain sampling of
    the AST; used only to prefer programs that sometimes reject and sometimes accept)."""
    def ev(e, env):
        t = e[0]
        if t == "lit":
            return e[1]
        if t == "var":
            return env[e[1]]
        if t == "drange":
            lo, hi = ev(e[1], env), ev(e[2], env)
            if hi < lo:
                raise _Rej()
            return rng.randint(lo, hi)
        if t == "uniform":
            return ev(rng.choice(e[1]), env)
        if t == "discrete":
            return ev(rng.choices([x for x, _w in e[1]], [w for _x, w in e[1]])[0], env)
        if t == "bin":
            a, b = ev(e[2], env), ev(e[3], env)
            return a + b if e[1] == "add" else a - b if e[1] == "sub" else a * b
        if t == "un":
            a = ev(e[2], env)
            return -a if e[1] == "neg" else abs(a)
        if t == "call" and e[1] in ("vnoise", "vnoisen"):
            return ev(e[2][0], env)
        raise ValueError(e)

    def cond(c, env):
        if c[0] == "cmp":
            a, b = ev(c[2], env), ev(c[3], env)
            return {"lt": a < b, "le": a <= b, "eq": a == b, "ne": a != b, "gt": a > b, "ge": a >= b}[c[1]]
        if c[0] == "and":
            return cond(c[1], env) and cond(c[2], env)
        if c[0] == "or":
            return cond(c[1], env) or cond(c[2], env)
        return not cond(c[1], env)

    ok = 0
    for _ in range(n):
        env = {}
        try:
            good = True
            reqs = []
            for s in ast:
                if s[0] == "let":
                    env[s[1]] = ev(s[2], env)
                elif s[0] == "require":
                    reqs.append((s[1], s[2], dict(env)))
            for pr, c, e in reqs:  # a requirement sees the bindings current when it was stated
                e = {k: env[k] if k in e else None for k in e}
                if (pr is None or rng.random() <= pr) and not cond(c, e):
                    good = False
            ok += good
        except _Rej:
            pass
    return ok / n


def gen_programs(sd, count, max_iter, dynamic_every=5):
    """Every `dynamic_every`-th program has objects with behaviours and is simulated."""
    rng = random.Random(sd)
    out, dropped, seen = [], 0, set()
    while len(out) < count:
        try:
            text, prog, info = random_case(rng, max_iter, dynamic=(len(out) % dynamic_every == dynamic_every - 1))
        except G.IllFormed:
            dropped += 1
            continue
        if text in seen or not prog["reqs"] or len(prog["rroots"]) > 3 or info["branches"] > 20000:
            dropped += 1
            continue
        rate = accept_rate(eval(info["ast"], {"Fraction": Fraction}), rng)
        info["accept_rate"] = rate
        # mostly programs that both reject and accept (the order of the draws then matters);
        # one in six may be anything (never rejecting, infeasible)
        if not (0.1 <= rate <= 0.85) and rng.random() < 0.85:
            dropped += 1
            continue
        seen.add(text)
        out.append((text, prog, info))
    return out, dropped


# ------------------------------------------------------------------ fresh processes
def perturbations(rng, n):
    """Process 0 is the plain one; the others differ in hash seed, layout, clock and history."""
    ps = [{"hashseed": 0, "junk_keep": 0, "junk_holes": 0, "jitter_seed": 0, "prior": 0, "env_pad": 0}]
    for i in range(1, n):
        ps.append({
            "hashseed": rng.randint(1, 4000000),
            "junk_keep": rng.choice([0, 1, 2, 3, 5, 7, 11, 16, 23, 40]),
            "junk_holes": rng.choice([0, 0, 1, 2, 4, 9]),
            "jitter_seed": rng.randint(1, 10**6),
            "prior": rng.choice([0, 1, 2, 3]),
            "env_pad": rng.choice([0, 0, 7, 33, 150, 1000]),
        })
    return ps


def run_worker(job):
    d = scratch()
    jp = os.path.join(d, f"job-{job['id']}.json")
    op = os.path.join(d, f"out-{job['id']}.json")
    with open(jp, "w") as f:
        json.dump(job, f)
    # a fixed, minimal environment: what the caller's shell exports must not decide the layout
    env = {k: os.environ[k] for k in ("HOME", "LANG", "OMP_NUM_THREADS", "OPENBLAS_NUM_THREADS", "MKL_NUM_THREADS",
                                      "NUMEXPR_NUM_THREADS", "VERIF_REPO") if k in os.environ}
    env["PATH"] = "/usr/local/bin:/usr/bin:/bin"
    env["PYTHONHASHSEED"] = str(job["perturb"]["hashseed"])
    if job["perturb"].get("env_pad"):
        env["C15_PAD"] = "x" * int(job["perturb"]["env_pad"])  # one more way of moving the heap
    err = None
    for _attempt in range(2):  # a worker that dies or times out is machinery trouble: retried once
        if os.path.exists(op):
            os.remove(op)
        try:
            p = subprocess.run([PY, WORKER, jp, op], env=env, capture_output=True, text=True, timeout=job.get("timeout", 300) + 60)
        except subprocess.TimeoutExpired:
            err = "worker timed out"
            continue
        if not os.path.exists(op):
            err = f"worker died rc={p.returncode}: {p.stderr[-800:]}"
            continue
        with open(op) as f:
            return json.load(f)
    return {"ok": False, "infra": True, "error": err}


def run_processes(items, nproc, mutant=None, rng_seed=0, mode="static"):
    """items: (text, prog, info).  Returns per program: list of (perturbation, worker result)."""
    jobs = []
    for i, (text, prog, info) in enumerate(items):
        prng = random.Random(rng_seed * 1000003 + i)
        for pi, pert in enumerate(perturbations(prng, nproc)):
            jobs.append({
                "id": f"{i:04d}-{pi:02d}", "prog": i, "proc": pi, "text": text, "seed": 1000 + 17 * i + rng_seed,
                "max_iter": prog["maxIter"], "outnames": info["outnames"], "mode": info.get("mode", mode),
                "steps": info.get("steps", 4), "perturb": pert, "mutant": mutant, "timeout": 300,
            })
    with ThreadPoolExecutor(6) as ex:
        results = list(ex.map(run_worker, jobs))
    per = [[] for _ in items]
    for job, r in zip(jobs, results):
        per[job["prog"]].append((job, r))
    return per


def tlc_events(draws, ngen):
    """User-visible draws of Scenario.generate in the form DeterminismTrace reads (no floats:
    random() in 1e-6 units).  Draws made later, by the simulation, are not part of the trace."""
    evs = []
    for d in draws[:ngen]:
        if d["internal"]:
            continue
        fn = d["fn"]
        if fn == "random":
            evs.append({"fn": "random", "args": [], "res": int(d["res"] * 1000000)})
        elif fn == "randint":
            evs.append({"fn": "randint", "args": [int(x) for x in d["args"]], "res": int(d["res"])})
        elif fn == "choices":
            evs.append({"fn": "choices", "args": [int(x) for x in d["args"]], "res": int(d["res"][0])})
        else:
            evs.append({"fn": fn, "args": [], "res": 0})
    return evs


def run_trace_tlc(ck, items, per, label="DeterminismTrace"):
    """One joint case per program (all processes, ONE order) + one case per process.
    Returns (joint[i] = list of accepting orders, single[i][p] = list of accepting orders)."""
    progs = [p for _t, p, _i in items]
    cases = []
    index = []
    for i, runs in enumerate(per):
        procs = []
        for _job, r in runs:
            procs.append({"evs": tlc_events(r["draws"], r.get("n_generate_draws", len(r["draws"]))), "iter": r["dump"]["iterations"],
                          "pc": r["dump"]["status"], "out": [int(x) for x in r["out"]]})
        cases.append({"prog": i + 1, "procs": procs})
        index.append(("joint", i, None))
        for pi, pr in enumerate(procs):
            cases.append({"prog": i + 1, "procs": [pr]})
            index.append(("single", i, pi))
    entries, vindex = expand_variants(progs)
    pp = os.path.join(scratch(), f"trace-progs-{len(ck.cov['tlc_runs'])}.json")
    cp = os.path.join(scratch(), f"trace-cases-{len(ck.cov['tlc_runs'])}.json")
    with open(pp, "w") as f:
        json.dump(entries, f)
    with open(cp, "w") as f:
        json.dump(cases, f)
    res = run_tlc("DeterminismTrace", TRACE_CFG, env={"PROGS": pp, "CASES": cp, "PRINT_PAIRS": "0", "PRINT_PROGRESS": "1"},
                  coverage=True, timeout=1500)
    ck.add_tlc(label, res)
    joint = [[] for _ in items]
    single = [[[] for _ in runs] for runs in per]
    progress = {}
    for o in res.outputs:
        kind, i, pi = index[o["cid"] - 1]
        if o["t"] == "acc":
            (joint[i] if kind == "joint" else single[i][pi]).append(vindex[o["pid"] - 1][1])
        elif o["t"] == "prog" and kind == "single":
            key = (i, pi)
            progress[key] = max(progress.get(key, 0), o["ei"])
    for a in ("TDraw", "TActivate", "NextProc"):
        if res.coverage.get(a, (0, 0))[1] == 0:
            raise MachineryError(f"DeterminismTrace action {a} never taken (vacuous trace validation)")
    return joint, single, progress


def flipped_pair(prog, orders_a, orders_b):
    """Two requirement-only nodes whose relative order differs between two processes, taking
    the closest pair of explaining orders."""
    best = None
    for oa in orders_a:
        for ob in orders_b:
            ra = [prog["rroots"][x - 1] for x in oa]
            rb = [prog["rroots"][x - 1] for x in ob]
            inv = [(x, y) for x, y in itertools.combinations(ra, 2) if rb.index(x) > rb.index(y)]
            if best is None or len(inv) < len(best[0]):
                best = (inv, ra, rb)
    if not best or not best[0]:
        return None
    x, y = best[0][0]
    return {"first": {"node": x, "value": describe(prog, x)}, "second": {"node": y, "value": describe(prog, y)},
            "order_a": best[1], "order_b": best[2]}


def judge(ck, items, per, joint, single, progress, mutant=None, stats=None):
    """The verdict (dump equality) and the diagnosis (trace validation) for every program."""
    stats = stats if stats is not None else {}
    for key in ("programs", "processes", "identical", "differing", "differing_scene", "differing_rng_state_only",
                "differing_known", "reordered_same_dump", "programs_with_reordered_dependencies", "differing_lt2", "unexplained_traces", "programs_ge2", "errors"):
        stats.setdefault(key, 0)
    for i, ((text, prog, info), runs) in enumerate(zip(items, per)):
        stats["programs"] += 1
        stats["processes"] += len(runs)
        bad = [(job, r) for job, r in runs if not r.get("ok")]
        if any(r.get("infra") for _j, r in bad):
            raise MachineryError(f"worker process failed twice: {[r for _j, r in bad if r.get('infra')][0]['error']}")
        if bad:
            stats["errors"] += 1
            if len(bad) == len(runs) and len({r.get("error") for _j, r in bad}) == 1:
                # every process refuses the program in the same way: the generator's problem
                ck.cov["dropped_by_generator"] += 1
                continue
            ck.violation(f"{len(bad)} of {len(runs)} processes failed on the same program and seed: {bad[0][1].get('error')}",
                         {"property": "C15", "program": text, "perturbations": [j["perturb"] for j, _r in runs],
                          "errors": [r.get("error") for _j, r in runs]})
            continue
        nrr = len(prog["rroots"])
        if nrr >= 2:
            stats["programs_ge2"] += 1
        if len({json.dumps(r.get("dep_order")) for _j, r in runs}) > 1:
            stats["programs_with_reordered_dependencies"] += 1
        dumps = [json.dumps(r["dump"], sort_keys=True) for _j, r in runs]
        same = all(d == dumps[0] for d in dumps)
        explained = [bool(single[i][p]) for p in range(len(runs))]
        ck.case(text, nontrivial=(nrr >= 2 or info["nreq"] >= 2))
        ck.validated(sum(explained))
        stats["unexplained_traces"] += len(explained) - sum(explained)
        groups = {}
        for p, d in enumerate(dumps):
            groups.setdefault(d, []).append(p)
        if i < 3:  # what a case looks like (the first programs of the run, whatever their verdict)
            ck.sample({"program": text.replace(G.PRELUDE + MYPRELUDE, ""), "seed": runs[0][0]["seed"],
                       "requirement_only_roots": [describe(prog, n) for n in prog["rroots"]],
                       "perturbations": [j["perturb"] for j, _r in runs],
                       "distinct_dumps": len(groups), "dump_of_process_0": runs[0][1]["dump"],
                       "user_visible_draws_of_process_0": [[d["fn"], d["args"], d["res"]] for d in runs[0][1]["draws"]
                                                            if not d["internal"]][:40],
                       "internal_draws_of_process_0": sum(1 for d in runs[0][1]["draws"] if d["internal"]),
                       "dependency_orders_explaining_all_processes": joint[i],
                       "dependency_orders_explaining_each_process": single[i]}, limit=3)
        flip = None
        if not joint[i] and all(explained):
            reps = [g[0] for g in groups.values()] if not same else list(range(len(runs)))
            for a, b in itertools.combinations(reps, 2):
                if not any(o in single[i][b] for o in single[i][a]):
                    flip = flipped_pair(prog, single[i][a], single[i][b])
                    if flip:
                        flip["process_a"], flip["process_b"] = a, b
                        break
        if same:
            stats["identical"] += 1
            if not joint[i] and all(explained):
                # the draws were reordered but the dump happens not to show it: an observation
                stats["reordered_same_dump"] += 1
                ck.sample({"observation": "draw order differs across processes, dumps identical",
                           "program": text.replace(G.PRELUDE + MYPRELUDE, ""), "flipped": flip}, limit=9)
            elif not all(explained):
                ck.sample({"diagnostic": "a draw trace is not a behaviour of the sampler under any dependency order "
                                         "(dumps identical, no verdict-level consequence)",
                           "program": text.replace(G.PRELUDE + MYPRELUDE, ""),
                           "progress": {str(p): progress.get((i, p)) for p in range(len(runs)) if not explained[p]}}, limit=9)
            continue
        stats["differing"] += 1
        scene_part = {json.dumps({k: v for k, v in r["dump"].items() if not k.startswith("rng_")}, sort_keys=True) for _j, r in runs}
        stats["differing_scene" if len(scene_part) > 1 else "differing_rng_state_only"] += 1
        if nrr < 2:
            stats["differing_lt2"] += 1
        # trigger predicate of the named deviation SetOrderedDeps (Determinism.tla, OrderedDeps = FALSE):
        # >= 2 requirement-only random roots, every process on its own IS a behaviour of the sampler
        # (scene, attempt count and draws replayed by DeterminismTrace) under some permutation of
        # those roots, and no single permutation explains them all.
        known = nrr >= 2 and all(explained) and not joint[i]
        a, b = [g[0] for g in list(groups.values())[:2]]
        replay = {
            "property": "C15", "program": text, "seed": runs[0][0]["seed"], "max_iter": prog["maxIter"],
            "outnames": info["outnames"], "mutant": mutant,
            "processes": [{"perturbation": j["perturb"], "job_id": j["id"], "dump": r["dump"], "dependency_order": r.get("dep_order"),
                           "explaining_orders": single[i][p],
                           "user_visible_draws": [[d["fn"], d["args"], d["res"]] for d in r["draws"] if not d["internal"]]}
                          for p, (j, r) in enumerate(runs)],
            "groups_of_equal_dumps": list(groups.values()),
            "requirement_only_roots": [{"node": n, "value": describe(prog, n)} for n in prog["rroots"]],
            "single_order_explaining_all": joint[i], "flipped": flip,
            "first_difference": first_diff(runs[a][1], runs[b][1]),
        }
        msg = (f"dumps differ across {len(runs)} fresh processes with the same seed "
               f"({len(groups)} distinct dumps; processes {a} and {b}: {replay['first_difference']}); ")
        if known:
            msg += (f"explained by the order of requirement-only values: {flip['first']['value']} / {flip['second']['value']} flipped"
                    if flip else "explained by a permutation of the requirement-only values")
        else:
            msg += "NOT explained by a permutation of requirement-only values"
        if ck.violation(msg, replay, known_key=KNOWN_KEY if known else None) is False:
            stats["differing_known"] += 1
            ck.sample({"known_finding": KNOWN_KEY, "program": text.replace(G.PRELUDE + MYPRELUDE, ""),
                       "flipped": flip, "dumps": [json.loads(d) for d in list(groups)[:2]],
                       "perturbations": [runs[a][0]["perturb"], runs[b][0]["perturb"]]}, limit=9)
    return stats


def first_diff(ra, rb):
    da, db = ra["dump"], rb["dump"]
    for key in sorted(set(da) | set(db)):
        if da.get(key) != db.get(key):
            return {key: [da.get(key), db.get(key)]}
    return None


# ------------------------------------------------------------------ TLC on the model
def write_progs(progs, name):
    path = os.path.join(scratch(), name)
    with open(path, "w") as f:
        json.dump(progs, f)
    return path


def expand_variants(progs):
    """One entry of Progs per permutation of the requirement-only roots (Determinism.tla: a
    dependency order is a variant of the program).  Returns (entries, [(base index, perm)])."""
    entries, index = [], []
    for b, p in enumerate(progs):
        n = len(p["rroots"])
        for perm in itertools.permutations(range(1, n + 1)):
            e = dict(p)
            e["base"] = b + 1
            e["perm"] = list(perm)
            e["ref"] = list(perm) == list(range(1, n + 1))
            e["roots"] = p["froots"] + [p["rroots"][x - 1] for x in perm] + p["broots"] + p["eroots"]
            entries.append(e)
            index.append((b, list(perm)))
    return entries, index


def model_check(ck, progs, tier):
    """The exhaustive runs on Determinism.tla."""
    R_ = 2
    full = "TRUE" if tier == "thorough" else "FALSE"
    entries, index = expand_variants(progs)
    path = write_progs(entries, "model-progs.json")
    env = {"PROGS": path, "PRINT_HIST": "0", "PRINT_PAIRS": "0"}
    # (A) ideal model: insertion ordered -> the property holds in every environment
    res = run_tlc("Determinism", CFG.format(ordered="TRUE", restore="TRUE", full=full, prior=2, R=R_, more=ALL_INVS), env=env,
                  coverage=True, timeout=2400)
    ck.add_tlc("Determinism[OrderedDeps]", res)
    need = ["PriorScene", "Reseed", "DActivate", "DDraw", "Reused", "SaveRng", "CheckAny",
            "CheckDone", "RestoreRngStep", "Handover"]
    missing = [a for a in need if res.coverage.get(a, (0, 0))[1] == 0]
    if missing:
        raise MachineryError(f"Determinism actions never taken (vacuous model): {missing}")
    # (B) as-implemented deviation: set ordered -> must FAIL
    res = run_tlc("Determinism", CFG.format(ordered="FALSE", restore="TRUE", full=full, prior=2, R=R_, more="INVARIANT DeterministicScene\n"), env=env,
                  expect_fail=True, timeout=2400)
    if res.invariant_violated != "DeterministicScene":
        raise MachineryError("the set-ordered model did not violate Deterministic: the spec cannot exhibit the "
                             f"defect (violated: {res.invariant_violated}; {res.error})")
    ck.add_tlc("Determinism[SetOrderedDeps, expected to fail]", res)
    ck.cov["set_ordered_model"] = {"violated": res.invariant_violated}
    cex = [o for o in res.outputs if o.get("t") == "cex"]
    if cex:
        c = cex[0]
        b, _perm = index[c["pid1"] - 1]
        ck.cov["set_ordered_model"]["counterexample"] = {
            "program_nodes": progs[b]["nodes"], "requirements": progs[b]["reqs"],
            "requirement_only_roots": [{"node": n, "value": describe(progs[b], n)} for n in progs[b]["rroots"]],
            "dependencies_copy1": c["roots1"], "dependencies_copy2": c["roots2"],
            "prior_scenes": [c["np1"], c["np2"]], "stream": c["stream"],
            "observable_copy1": c["obs1"], "observable_copy2": c["obs2"]}
    # (C) spec-level mutant: without RestoreRng the property fails (the section is load-bearing)
    noisy = [p for p in progs if any(r["ic"] for r in p["reqs"])]
    nentries, _ = expand_variants(noisy)
    res = run_tlc("Determinism", CFG.format(ordered="TRUE", restore="FALSE", full=full, prior=2, R=R_, more="INVARIANT DeterministicScene\n"),
                  env=dict(env, PROGS=write_progs(nentries, "model-noisy.json")), expect_fail=True, timeout=2400)
    if res.invariant_violated != "DeterministicScene":
        raise MachineryError(f"the model without RestoreRng did not fail (violated: {res.invariant_violated}; {res.error})")
    ck.add_tlc("Determinism[no RestoreRng, expected to fail]", res)
    ck.cov["no_restore_model"] = {"violated": res.invariant_violated}
    ck.cov["model_programs"] = len(progs)
    ck.cov["model_program_variants"] = len(entries)


# ------------------------------------------------------------------ main
def main(tier, mutant=None, ck=None, items=None, nproc=None):
    own = ck is None
    ck = ck or Check("C15", tier, "model_checking")
    ck.cov["rule"] = (
        "a case is one generated program of the finite-discrete fragment compiled and sampled in N fresh "
        "interpreters with the same seeds and different perturbations (hash seed, junk allocation before "
        "compilation, jittering checker clock, 0-3 scenes before re-seeding); non-trivial = at least two "
        "requirement-only random values or at least two requirements; distinct by program text")
    ck.assumptions += [
        "finite-discrete fragment (DiscreteRange/Uniform/Discrete, lifted operators, params, one object property, "
        "hard and soft requirements, requirements that consume the global generators while being checked)",
        "a process instance = a fresh /venv/bin/python interpreter; layouts are perturbed by allocation before "
        "compilation and by PYTHONHASHSEED, not enumerated (the enumeration over all orders is TLC's, on the model)",
        "the draw log is taken by wrapping the functions of the `random` module; draws made while "
        "Scenario.checker.checkRequirements runs are internal",
        "the printer pair gen_discrete.to_scenic / to_prog (+ c15.make_case) is trusted glue",
    ]
    nproc = nproc or int(os.environ.get("C15_NPROC", 0)) or (5 if tier == "quick" else 8)
    if items is None:
        nprog = int(os.environ.get("C15_NPROG", 0)) or (30 if tier == "quick" else 200)  # overrides: smoke tests only
        items, dropped = gen_programs(seed() * 104729 + 15, nprog - 1, 20)
        items = [canary()] + items
        ck.cov["dropped_by_generator"] = dropped

    t0 = time.time()
    # the processes run while TLC checks the model
    with ThreadPoolExecutor(1) as bg:
        fut = bg.submit(run_processes, items, nproc, mutant, seed())
        if own:
            fam = [p for _t, p, _i in family(tier)]
            small = [dict(p, maxIter=2) for _t, p, i in items if i["nprims"] <= 4 and i["branches"] <= 300][: (6 if tier == "quick" else 60)]
            model_check(ck, fam + small, tier)
        per = fut.result()
    ck.cov["processes_wall_s"] = round(time.time() - t0, 1)
    okper = [[(j, r) for j, r in runs if r.get("ok")] for runs in per]
    if sum(len(r) for r in okper) == 0:
        raise MachineryError(f"no worker process succeeded: {per[0][0][1]}")
    # trace validation only for programs whose processes all ran
    full_items = [(it, runs) for it, runs in zip(items, per) if all(r.get("ok") for _j, r in runs)]
    joint, single, progress = run_trace_tlc(ck, [it for it, _ in full_items], [runs for _it, runs in full_items])
    jmap, smap, pmap_ = {}, {}, {}
    fi = 0
    for i, (it, runs) in enumerate(zip(items, per)):
        if all(r.get("ok") for _j, r in runs):
            jmap[i], smap[i] = joint[fi], single[fi]
            for (a, b), v in progress.items():
                if a == fi:
                    pmap_[(i, b)] = v
            fi += 1
        else:
            jmap[i], smap[i] = [], [[] for _ in runs]
    stats = judge(ck, items, per, [jmap[i] for i in range(len(items))], [smap[i] for i in range(len(items))], pmap_, mutant)
    ck.cov["binding"] = stats
    if stats["processes"] and ck.cov["traces_validated_against_impl"] == 0:
        raise MachineryError("no draw trace of the real code was accepted by DeterminismTrace (vacuous binding)")
    ck.cov["exhaustive"] = False
    ck.cov["explanation"] = ("TLC exhaustive over all environments (dependency orders, check orders, internal consumption, "
                             "0-2 prior scenes) and all RNG streams for the model programs; real code: seeded random programs x "
                             "perturbed fresh processes")
    if not own:
        return stats
    print(f"[C15] programs={stats['programs']} processes={stats['processes']} identical={stats['identical']} "
          f"differing={stats['differing']} (known={stats['differing_known']}) reordered_same_dump={stats['reordered_same_dump']} "
          f"unexplained_traces={stats['unexplained_traces']}", flush=True)
    return ck.finish()


def replay(path):
    """Re-run the processes of a replay file and show whether the dumps differ again."""
    rp = json.load(open(path))
    if "processes" not in rp:
        print(open(path).read())
        return 0
    prog = {"maxIter": rp["max_iter"]}
    info = {"outnames": rp["outnames"]}
    jobs = []
    for pi, pr in enumerate(rp["processes"]):
        # the same job id: even the length of argv moves the heap (and with it the set order)
        jobs.append({"id": pr.get("job_id", f"0000-{pi:02d}"), "prog": 0, "proc": pi, "text": rp["program"], "seed": rp["seed"],
                     "max_iter": prog["maxIter"], "outnames": info["outnames"], "mode": "static", "perturb": pr["perturbation"],
                     "mutant": rp.get("mutant")})
    with ThreadPoolExecutor(6) as ex:
        results = list(ex.map(run_worker, jobs))
    dumps = [json.dumps(r.get("dump"), sort_keys=True) for r in results]
    print(rp["program"].replace(G.PRELUDE + MYPRELUDE, ""))
    for pi, (pr, r) in enumerate(zip(rp["processes"], results)):
        again = "same as recorded" if r.get("dump") == pr["dump"] else "DIFFERS from the recorded run"
        print(f"process {pi} {pr['perturbation']}: deps={r.get('dep_order')} dump={dumps[pi][:160]} [{again}]")
    if len(set(dumps)) > 1:
        print(f"VIOLATION property=C15 replay={path}")
        return 1
    return 0


# ------------------------------------------------------------------ sensitivity self-test
class DryCheck(Check):
    """Collects verdicts without writing replays or evidence; the known-finding line is taken
    as present, so that only disagreements the known finding does not explain count."""

    def __init__(self):
        super().__init__("C15", "selftest", "model_checking")
        self.reported = []

    def violation(self, key, replay, known_key=None):
        self.reported.append(("known" if known_key else "violation", key))
        if known_key:
            return False
        self.violations.append((key, None))
        return True


def targeted_programs():
    """Programs aimed at the mutants: >= 2 random params (collection order of params), noisy
    requirements with moderate rejection (restore of the generators), soft requirements."""
    D = lambda a, b: ("drange", L(a), L(b))  # noqa: E731
    asts = [
        [("let", "a", D(0, 5)), ("let", "b", D(0, 5)), ("let", "c", D(0, 5)),
         ("param", "pa", V("a")), ("param", "pb", V("b")), ("param", "pc", V("c")),
         ("require", None, ("cmp", "lt", V("a"), V("b")))],
        [("let", "a", D(0, 9)), ("let", "b", D(0, 9)), ("param", "pb", V("b")), ("param", "pa", V("a")),
         ("require", None, ("cmp", "ne", V("a"), V("b")))],
        [("let", "a", D(0, 5)), ("let", "b", D(0, 5)), ("param", "pa", V("a")), ("param", "pb", V("b")),
         ("require", None, ("cmp", "le", ("call", "vnoise", [V("a")], []), L(3))),
         ("require", None, ("cmp", "ge", V("b"), L(2))),
         ("require", None, ("cmp", "ne", ("call", "vnoise", [V("a")], []), V("b")))],
        [("let", "a", D(0, 7)), ("let", "b", D(0, 7)), ("param", "pa", V("a")), ("param", "pb", ("bin", "add", V("b"), L(1))),
         ("require", None, ("cmp", "lt", ("call", "vnoisen", [V("a")], []), V("b"))),
         ("require", None, ("cmp", "ge", ("call", "vnoise", [V("b")], []), L(3))),
         ("require", Fraction(1, 2), ("cmp", "le", V("a"), L(4)))],
        [("let", "a", D(0, 5)), ("param", "pa", V("a")), ("param", "pz", D(1, 4)),
         ("require", Fraction(1, 2), ("cmp", "ge", V("a"), L(2))),
         ("require", Fraction(1, 4), ("cmp", "le", ("call", "vnoise", [V("a")], []), L(4))),
         ("require", None, ("cmp", "ne", ("call", "vnoisen", [V("a")], []), L(3)))],
        [("let", "a", D(0, 5)), ("let", "b", D(0, 5)), ("object", V("a")), ("param", "pb", V("b")), ("param", "pa2", ("bin", "mul", V("a"), L(2))),
         ("require", None, ("cmp", "gt", ("call", "vnoise", [V("b")], []), L(1))),
         ("require", None, ("cmp", "lt", ("call", "vnoise", [V("a")], []), L(5)))],
        # low acceptance, three requirements of which two consume NumPy randomness: which one
        # rejects first (hence how much is consumed) depends on the checker's clock
        [("let", "a", D(0, 9)), ("let", "b", D(0, 9)), ("param", "pa", V("a")), ("param", "pb", V("b")),
         ("require", None, ("cmp", "le", ("call", "vnoisen", [V("a")], []), L(6))),
         ("require", None, ("cmp", "ge", V("b"), L(6))),
         ("require", None, ("cmp", "ne", ("call", "vnoisen", [V("b")], []), V("a")))],
        [("let", "a", D(0, 9)), ("let", "b", D(0, 9)), ("let", "c", D(0, 9)), ("param", "pa", V("a")), ("param", "pc", V("c")),
         ("require", None, ("cmp", "lt", ("call", "vnoisen", [V("b")], []), L(7))),
         ("require", None, ("cmp", "gt", ("call", "vnoise", [V("a")], []), L(4))),
         ("require", None, ("cmp", "ge", V("c"), L(5)))],
        # two soft requirements that are rarely satisfied: which random() activates which matters
        [("let", "a", D(0, 9)), ("let", "b", D(0, 9)), ("param", "pa", V("a")), ("param", "pb", V("b")),
         ("require", Fraction(1, 2), ("cmp", "ge", V("a"), L(7))),
         ("require", Fraction(1, 4), ("cmp", "ge", V("b"), L(7))),
         ("require", None, ("cmp", "ne", ("call", "vnoise", [V("a")], []), V("b")))],
    ]
    return [make_case(a, 40) for a in asts]


def selftest(names=None):
    """Run the binding on the unchanged code and under each in-process mutant (installed in the
    worker processes only).  Prints one line per configuration."""
    names = names or ["none", "setdeps", "norestore", "np-norestore", "setparams", "hashparams",
                      "timeout-reject", "activation-in-check-order", "tiebreak-random"]
    gen, _ = gen_programs(seed() * 104729 + 15, 8, 20)
    rows = []
    for m in names:
        ck = DryCheck()
        t0 = time.time()
        items = targeted_programs() + ([canary()] + gen if m in ("none", "fix-ordered", "setdeps") else [])
        stats = main("quick", mutant=None if m == "none" else m, ck=ck, items=items, nproc=5)
        nv = sum(1 for kind, _ in ck.reported if kind == "violation")
        nk = sum(1 for kind, _ in ck.reported if kind == "known")
        rows.append((m, nv, nk, stats))
        print(f"[selftest] mutant={m:26s} programs={stats['programs']} violations={nv} known-finding cases={nk} "
              f"differing={stats['differing']} unexplained_traces={stats['unexplained_traces']} wall={time.time() - t0:.0f}s", flush=True)
        for kind, msg in ck.reported[:2]:
            print(f"    {kind}: {msg[:230]}", flush=True)
    return rows


if __name__ == "__main__":
    if len(sys.argv) > 1 and sys.argv[1] == "selftest":
        selftest(sys.argv[2:] or None)
    else:
        sys.exit(main(sys.argv[1] if len(sys.argv) > 1 else "quick"))
