"""C15 — same program, options and seed give identical scenes and runs, every time.

Spec: spec/Determinism.tla — self-composition of the sampler machine (two copies, same program,
same RNG stream, different environments: dependency-collection order, requirement-check order,
internal randomness, prior history).  TLC: the insertion-ordered model must satisfy
Deterministic/PrefixConsistent/StreamUntouched/FlagsFresh; the set-ordered model (the
as-implemented deviation, trigger: at least two requirement-only random roots) must FAIL
DeterministicScene (counterexample recorded in the evidence); the model without RestoreRng
must fail too.

Binding: cross-process trace validation.  Every generated program is compiled and sampled in N
FRESH interpreters (harness/c15_worker.py) with the same seeds and different perturbations
(PYTHONHASHSEED, junk allocation before compilation, jittering requirement-checker clock, scenes
generated before re-seeding).  VERDICT: the canonical dumps must be identical.  DIAGNOSTIC:
spec/DeterminismTrace.tla must accept the N draw traces with ONE value of the unlogged
dependency order; per-process acceptance tells whether each process on its own is a behaviour of
the sampler under some order (the named deviation), and which two nodes flipped."""

import itertools
import json
import os
import random
import subprocess
import sys
import time
from concurrent.futures import ThreadPoolExecutor
from fractions import Fraction

from common import PY, VERIF, Check, MachineryError, run_tlc, scratch, seed
import gen_discrete as G

WORKER = os.path.join(VERIF, "harness", "c15_worker.py")
KNOWN_KEY = "requirement-deps-set-order"

MYPRELUDE = """import random as c15_random
import numpy as c15_numpy
def vnoise(x):
    c15_random.random()
    return x
def vnoisen(x):
    c15_numpy.random.random()
    return x
"""

# dynamic programs: the static part stays in the fragment (so the spec still explains scene
# generation); two agents whose behaviours draw at run time, one global used only by them
DYN_BEHAVIOR = """behavior Walker(base):
    take base
    while True:
        x = DiscreteRange(0, 3)
        if x == 0:
            take Uniform(10, 20)
        elif x == 1:
            take x + g1
        else:
            take c15_random.randint(0, 100)
"""
DYN_OTHER = "other = new Object at (20, 20), with behavior Walker(3)\n"

CFG = """SPECIFICATION DSpec
CONSTANTS
  OrderedDeps = {ordered}
  RestoreRng = {restore}
  FullPairs = {full}
  BlanketSkips = {skips}
  MaxPrior = {prior}
  R = {R}
INVARIANT DTypeOK
{more}INVARIANT EmitPair
VIEW DView
CHECK_DEADLOCK FALSE
"""
ALL_INVS = ("INVARIANT Deterministic\nINVARIANT DeterministicScene\nINVARIANT PrefixConsistent\n"
            "INVARIANT StreamUntouched\nINVARIANT FlagsFresh\n")

TRACE_CFG = """SPECIFICATION TraceSpec
CONSTANTS
  OrderedDeps = TRUE
  RestoreRng = "always"
  FullPairs = TRUE
  BlanketSkips = FALSE
  MaxPrior = 0
  R = 2
INVARIANT TraceTypeOK
INVARIANT EmitAccepted
INVARIANT EmitProgress
CHECK_DEADLOCK FALSE
"""


# ------------------------------------------------------------------ programs
def V(n):
    return ("var", n)


def L(v):
    return ("lit", v)


def _strip_expr(e, cnt):
    t = e[0]
    if t == "call" and e[1] in ("vnoise", "vnoisen"):
        cnt[0] += 1
        return _strip_expr(e[2][0], cnt)
    if t in ("lit", "var"):
        return e
    if t == "drange":
        return ("drange", _strip_expr(e[1], cnt), _strip_expr(e[2], cnt))
    if t == "uniform":
        return ("uniform", [_strip_expr(x, cnt) for x in e[1]])
    if t == "discrete":
        return ("discrete", [(_strip_expr(x, cnt), w) for x, w in e[1]])
    if t == "resample":
        return ("resample", _strip_expr(e[1], cnt))
    if t == "bin":
        return ("bin", e[1], _strip_expr(e[2], cnt), _strip_expr(e[3], cnt))
    if t == "un":
        return ("un", e[1], _strip_expr(e[2], cnt))
    if t == "call":
        return ("call", e[1], [_strip_expr(x, cnt) for x in e[2]], [(k, _strip_expr(x, cnt)) for k, x in e[3]])
    raise ValueError(e)


def _strip_cond(c, cnt):
    if c[0] == "cmp":
        return ("cmp", c[1], _strip_expr(c[2], cnt), _strip_expr(c[3], cnt))
    if c[0] in ("and", "or"):
        return (c[0], _strip_cond(c[1], cnt), _strip_cond(c[2], cnt))
    return ("not", _strip_cond(c[1], cnt))


def describe(prog, n):
    nd = prog["nodes"][n - 1]
    k = nd["k"]
    if k == "const":
        return str(nd["c"][0])
    if k == "drange":
        return f"DiscreteRange({describe(prog, nd['a'][0])}, {describe(prog, nd['a'][1])})"
    if k == "wsel":
        return f"selector{nd['c']}"
    if k == "mux":
        return "Options[" + describe(prog, nd["a"][0]) + "](" + ", ".join(describe(prog, a) for a in nd["a"][1:]) + ")"
    return k + "(" + ", ".join(describe(prog, a) for a in nd["a"]) + ")"


def make_case(ast, max_iter, dynamic=False, modular=False):
    """(text, prog, info) from one AST; vnoise calls are internal RNG consumers: identity for
    the values (stripped for the spec's node DAG), counted per requirement as `ic`.
    dynamic: the object gets a behaviour; as soon as a module defines a behaviour every random
    value bound to a module-level name is a behaviour dependency (Scenario.__init__), appended
    after the requirement dependencies in namespace order: broots.
    modular: the program is the setup block of a modular scenario; a requirement there captures a
    snapshot of ALL the locals of the block (DynamicScenario._makeLocalsSnapshot, built from a set
    of names), so every random local not already sampled with an object is in the unordered group."""
    ast2, ics = [], []
    for s in ast:
        if s[0] == "require":
            cnt = [0]
            ast2.append(("require", s[1], _strip_cond(s[2], cnt)))
            ics.append(cnt[0])
        else:
            ast2.append(s)
    prog, info = G.to_prog(ast2, max_iter)
    nodes = prog["nodes"]
    # name -> node (programs of this check never rebind a name)
    names = [st[1] for st in ast2 if st[0] == "let"]
    if len(set(names)) != len(names):
        raise G.IllFormed("rebinding")
    aug, _ = G.to_prog(ast2 + [("param", f"zz{i}", V(nm)) for i, nm in enumerate(names)], max_iter)
    if aug["nodes"][: len(nodes)] != nodes:
        raise G.IllFormed("name lookup changed the DAG")
    node_of = dict(zip(names, aug["outs"][len(prog["outs"]):]))
    israndom = lambda n: n <= len(nodes) and nodes[n - 1]["k"] != "const"  # noqa: E731

    def reachable(roots):
        seen = set()

        def visit(n):
            if n in seen:
                return
            seen.add(n)
            for m in nodes[n - 1]["a"]:
                visit(m)

        for n in roots:
            visit(n)
        return seen

    outs = set(prog["outs"])
    froots = [n for n in prog["roots"] if n in outs]
    reach = reachable(froots)
    froots = [n for n in prog["roots"] if n in reach]
    # the dependencies of a requirement are the values bound to the NAMES it mentions
    # (PendingRequirement saves the bindings of the names; the expression itself is evaluated
    # at check time), in order of first mention
    mentioned = []

    def vars_of(t):
        if isinstance(t, tuple) and t and t[0] == "var":
            if t[1] not in mentioned:
                mentioned.append(t[1])
        elif isinstance(t, (tuple, list)):
            for x in t:
                vars_of(x)

    for st in ast2:
        if st[0] == "require":
            vars_of(st[2])
    rroots = []
    for nm in mentioned:
        n = node_of[nm]
        if israndom(n) and n not in reach and n not in rroots:
            rroots.append(n)
    if modular:
        if any(st[0] == "param" for st in ast2) or not prog["reqs"]:
            raise G.IllFormed("modular programs: object properties and requirements only")
        rroots = []
        for nm in names:
            n = node_of[nm]
            if israndom(n) and n not in reach and n not in rroots:
                rroots.append(n)
    broots = []
    if dynamic:
        for nm in names:
            n = node_of[nm]
            if israndom(n) and n not in broots:
                broots.append(n)
    # the operands of the conditions are computed (no draw) once everything they need is sampled
    eroots = [n for n in prog["roots"] if n not in reach and n not in rroots]
    prims = lambda ns: {n for n in reachable(ns) if nodes[n - 1]["k"] in ("drange", "wsel")}  # noqa: E731
    if not prims(eroots) <= prims(froots + rroots + broots):
        raise G.IllFormed("anonymous random value inside a requirement")
    prog["froots"], prog["rroots"], prog["broots"], prog["eroots"] = froots, rroots, broots, eroots
    prog["pre"], prog["post"] = froots, broots + eroots
    info["group_kind"] = "random values referenced only from requirements"
    for r, ic in zip(prog["reqs"], ics):
        r["ic"] = ic
    text = G.to_scenic(ast).replace(G.PRELUDE, G.PRELUDE + MYPRELUDE + (DYN_BEHAVIOR if dynamic else ""), 1)
    if dynamic:
        if text.count("ego = new Object with foo ") != 1:
            raise G.IllFormed("dynamic program needs exactly one object")
        lines = text.split("\n")
        for li, ln in enumerate(lines):
            if ln.startswith("ego = new Object with foo "):
                lines[li] = "ego = new Object at (0, 0), with foo " + ln[len("ego = new Object with foo "):] + ", with behavior Walker(2)"
        text = "\n".join(lines) + DYN_OTHER
        info["mode"] = "dynamic"
    if modular:
        head = G.PRELUDE + MYPRELUDE
        body = text[len(head):]
        text = head + "scenario Main():\n    setup:\n" + "".join("        " + ln + "\n" for ln in body.split("\n") if ln.strip())
        info["mode"] = "modular"
        info["group_kind"] = "random locals of the scenario's setup block"
        info["depsets"] = [names + ["ego"]]  # _locals holds every local name of the block
    info["ast"] = repr(ast)
    info["nreq"] = len(prog["reqs"])
    info["nrr"] = len(rroots)
    info["noise"] = sum(ics)
    return text, prog, info


def family(tier="thorough"):
    """Exhaustive core for TLC (every program is also a valid Scenic program): k = 0..3
    requirement-only values, 1..3 requirements (hard/soft, with/without internal randomness),
    same/distinct/chained supports.  The quick tier keeps 7 of the 18 programs with k = 3."""
    out = []
    for k in range(0, 4):
        for sup in ("same", "distinct", "chain"):
            if k == 0 and sup != "same":
                continue
            if sup == "chain" and k < 2:
                continue
            lets = []
            lo = {}
            for i in range(1, k + 1):
                a = 0 if sup != "distinct" else 2 * i
                lo[i] = a
                if sup == "chain" and i > 1:
                    lets.append(("let", f"r{i}", ("drange", V(f"r{i - 1}"), L(1))))
                else:
                    lets.append(("let", f"r{i}", ("drange", L(a), L(a + 1))))
            R_ = {i: (V(f"r{i}") if lo[i] == 0 else ("bin", "sub", V(f"r{i}"), L(lo[i]))) for i in lo}
            P = V("q")
            reqsets = {
                0: [[(None, ("cmp", "eq", P, L(1)))], [(Fraction(1, 2), ("cmp", "eq", P, L(1)))]],
                1: [[(None, ("cmp", "eq", R_.get(1), L(1)))],
                    [(None, ("cmp", "eq", R_.get(1), L(1))), (None, ("cmp", "eq", P, L(1)))],
                    [(Fraction(1, 2), ("cmp", "eq", R_.get(1), L(1))), (None, ("cmp", "le", P, R_.get(1)))]],
                2: [[(None, ("cmp", "lt", R_.get(1), R_.get(2)))],
                    [(None, ("cmp", "eq", R_.get(1), L(1))), (None, ("cmp", "eq", R_.get(2), L(0)))],
                    [(Fraction(1, 2), ("cmp", "eq", R_.get(1), L(1))), (None, ("cmp", "eq", R_.get(2), L(0))),
                     (None, ("cmp", "eq", P, L(1)))],
                    [(None, ("cmp", "le", R_.get(1), R_.get(2))), (Fraction(1, 2), ("cmp", "ne", P, R_.get(2)))]],
                3: [[(None, ("cmp", "lt", R_.get(1), R_.get(2))), (None, ("cmp", "le", R_.get(2), R_.get(3)))],
                    [(None, ("cmp", "eq", R_.get(1), L(1))), (None, ("cmp", "eq", R_.get(2), L(0))),
                     (None, ("cmp", "eq", R_.get(3), L(1)))],
                    [(None, ("and", ("cmp", "le", R_.get(1), R_.get(2)), ("cmp", "lt", R_.get(2), R_.get(3))))]],
            }[k]
            for ri, rs in enumerate(reqsets):
                for noise in (False, True):
                    if tier == "quick" and k == 3 and (sup != "same" or (noise and ri != 0)):
                        continue
                    ast = list(lets) + [("let", "q", ("drange", L(0), L(1)))]
                    for i, (pr, c) in enumerate(rs):
                        if noise and i % 2 == 0:
                            c = _noisy(c)
                        ast.append(("require", pr, c))
                    ast.append(("param", "p", P))
                    out.append(make_case(ast, 2))
                    if k == 2 and sup == "same" and not noise and ri < 2:
                        # the same with a behaviour: every named random value is also a behaviour
                        # dependency (appended after the requirement dependencies), g1 only that
                        dyn = [("let", "g1", ("drange", L(0), L(1)))] + ast + [("object", V("q"))]
                        out.append(make_case(dyn, 2, dynamic=True))
    # classes: the permuted group is the object's random properties, at the FRONT of the dependencies
    for ti in ((0, 2, 4) if tier == "quick" else range(len(CLASS_TEMPLATES))):
        out.append(class_case(CLASS_TEMPLATES[ti], 2))
    out.append(class_case(CLASS_TEMPLATES[0], 2, soft=Fraction(1, 2)))
    # one param statement with several random parameters (group at the front, nothing before it);
    # setup block of a modular scenario (group = its random locals, after the object)
    out.append(param_case(PARAM_TEMPLATES[0], 2))
    out.append(param_case(PARAM_TEMPLATES[3], 2))
    m = modular_cases()[2]
    m[1]["maxIter"] = 2
    out.append(m)
    return out


def _noisy(c, fn="vnoise"):
    if c[0] == "cmp":
        return ("cmp", c[1], ("call", fn, [c[2]], []), c[3])
    if c[0] in ("and", "or"):
        return (c[0], _noisy(c[1], fn), c[2])
    return ("not", _noisy(c[1], fn))


def random_case(rng, max_iter, dynamic=False):
    """A random program weighted towards random values referenced ONLY from requirements and
    towards two or more requirements."""
    k = rng.choice([0, 1, 1, 2, 2, 3, 3, 3])
    ast = []
    rnames, snames = [], []

    def leaf():
        kind = rng.choice(["drange", "drange", "drange", "uniform", "discrete"])
        if kind == "drange":
            lo = rng.randint(0, 3)
            return ("drange", L(lo), L(lo + rng.randint(1, 3)))
        if kind == "uniform":
            return ("uniform", [L(v) for v in rng.sample(range(0, 6), rng.randint(2, 3))])
        vs = rng.sample(range(0, 6), rng.randint(2, 3))
        return ("discrete", [(L(v), rng.randint(1, 3)) for v in vs])

    for i in range(k):
        nm = f"r{i + 1}"
        if rnames and rng.random() < 0.25:
            e = ("drange", V(rng.choice(rnames)), L(rng.randint(3, 5)))  # chained
        elif rnames and rng.random() < 0.15:
            e = ("bin", rng.choice(["add", "sub"]), V(rng.choice(rnames)), leaf())  # anonymous inner value
        else:
            e = leaf()
        ast.append(("let", nm, e))
        rnames.append(nm)
    for i in range(rng.choice([0, 1, 1, 2])):
        nm = f"s{i + 1}"
        ast.append(("let", nm, leaf()))
        snames.append(nm)
    body = []
    npar = rng.choice([1, 1, 2])
    for i in range(npar):
        if snames and rng.random() < 0.7:
            e = V(rng.choice(snames))
            if rng.random() < 0.3:
                e = ("bin", "add", e, L(rng.randint(1, 3)))
        else:
            e = leaf()
        body.append(("param", f"p{i}", e))
    if dynamic:
        ast.append(("let", "g1", leaf()))
    if dynamic or rng.random() < 0.3:
        body.append(("object", V(rng.choice(snames)) if snames and rng.random() < 0.6 else leaf()))
    nreq = rng.choice([1, 2, 2, 2, 3, 3]) if k else rng.choice([1, 2])
    pool = rnames + snames
    must = list(rnames)
    rng.shuffle(must)
    probs = []
    for i in range(nreq):
        def operand():
            if must:
                return V(must.pop())
            if pool and rng.random() < 0.75:
                return V(rng.choice(pool))
            return L(rng.randint(0, 4))

        a = operand()
        b = operand() if rng.random() < 0.6 else L(rng.randint(1, 4))
        if a[0] == "lit" and b[0] == "lit":
            if not pool:
                continue
            a = V(rng.choice(pool))
        c = ("cmp", rng.choice(["lt", "le", "ne", "ge", "gt", "le", "ge"]), a, b)
        if must and rng.random() < 0.5:
            c = (rng.choice(["and", "or"]), c, ("cmp", rng.choice(["le", "ge", "ne"]), V(must.pop()), L(rng.randint(1, 4))))
        if rng.random() < 0.35:
            c = _noisy(c, rng.choice(["vnoise", "vnoise", "vnoisen"]))
        pr = None
        if rng.random() < 0.3:
            pr = rng.choice([Fraction(1, 4), Fraction(1, 2), Fraction(3, 4)])
            if probs:
                pr = probs[0]
            probs.append(pr)
        body.append(("require", pr, c))
    reqs_now = [b for b in body if b[0] == "require"]
    if reqs_now and all(_strip_cond(b[2], [0]) != b[2] for b in reqs_now) and pool:
        # every requirement consumes randomness: add a silent one that can reject on its own,
        # so that the amount consumed on a rejected sample depends on the order of the checks
        body.append(("require", None, ("cmp", rng.choice(["le", "ge"]), V(rng.choice(pool)), L(rng.randint(1, 3)))))
    while must:  # every requirement-only value is mentioned by some requirement
        body.append(("require", None, ("cmp", rng.choice(["le", "ge", "ne"]), V(must.pop()), L(rng.randint(1, 4)))))
    rng.shuffle(body)
    ast += body
    if not any(s[0] == "param" for s in ast):
        ast.append(("param", "p0", leaf()))
    return make_case(ast, max_iter, dynamic)


# ---- classes whose property defaults depend on several random properties
# (name, expression) in declaration order; V(x) inside an expression means self.x
def _D(a, b):
    return ("drange", L(a), L(b))


CLASS_TEMPLATES = [
    # the shape of the seeded-change demo: derived default declared BEFORE the two it needs
    dict(props=[("footprint", ("bin", "mul", V("width"), V("length"))), ("width", _D(1, 2)), ("length", _D(2, 4))],
         param="footprint", req=("cmp", "ge", V("footprint"), L(4))),
    dict(props=[("width", _D(1, 2)), ("length", _D(2, 4)), ("footprint", ("bin", "mul", V("width"), V("length")))],
         param="footprint", req=("cmp", "le", V("footprint"), L(6))),
    # three random properties, one default needing all of them
    dict(props=[("total", ("bin", "add", ("bin", "add", V("alpha"), V("beta")), V("gamma"))),
                ("alpha", _D(0, 3)), ("beta", _D(2, 4)), ("gamma", _D(1, 5))],
         param="total", req=("cmp", "ge", V("total"), L(7))),
    # shared dependency: two defaults both need `beta`
    dict(props=[("area", ("bin", "mul", V("alpha"), V("beta"))), ("alpha", _D(1, 3)),
                ("slack", ("bin", "sub", V("beta"), V("gamma"))), ("beta", _D(2, 5)), ("gamma", _D(0, 2))],
         param="area", req=("cmp", "ge", V("slack"), L(2))),
    # dependency chain: a random property whose bound is another random property, then a default over both ends
    dict(props=[("span", ("bin", "mul", V("hi"), V("depth"))), ("lo", _D(0, 2)), ("hi", ("drange", V("lo"), L(4))), ("depth", _D(1, 3))],
         param="span", req=("cmp", "ge", V("span"), L(3))),
    # default of a default
    dict(props=[("bulk", ("bin", "add", V("area"), V("tall"))), ("area", ("bin", "mul", V("wide"), V("deep"))),
                ("wide", _D(1, 3)), ("deep", _D(1, 2)), ("tall", _D(0, 4))],
         param="bulk", req=("cmp", "le", V("bulk"), L(6))),
    # one of the needed properties given by an explicit specifier at the instance
    dict(props=[("cost", ("bin", "sub", ("bin", "mul", V("p"), V("q")), V("r"))), ("p", _D(1, 3)), ("q", _D(1, 3)), ("r", _D(0, 2))],
         param="cost", req=("cmp", "ge", V("cost"), L(2)), override=("q", ("uniform", [L(1), L(2), L(4)]))),
    # non-range distributions, single-letter names
    dict(props=[("k", ("bin", "add", V("a"), V("b"))), ("a", ("uniform", [L(0), L(2), L(5)])),
                ("b", ("discrete", [(L(1), 1), (L(3), 2)])), ("c", _D(0, 1))],
         param="k", req=("cmp", "ne", V("k"), L(3))),
]


def _rename(e, f):
    if isinstance(e, tuple) and e and e[0] == "var":
        return ("var", f(e[1]))
    if isinstance(e, tuple):
        return tuple(_rename(x, f) for x in e)
    if isinstance(e, list):
        return [_rename(x, f) for x in e]
    return e


def _vars(e, acc):
    if isinstance(e, tuple) and e and e[0] == "var":
        if e[1] not in acc:
            acc.append(e[1])
    elif isinstance(e, (tuple, list)):
        for x in e:
            _vars(x, acc)
    return acc


def class_case(tpl, max_iter=20, soft=None):
    """A class with the template's property defaults, one instance, one requirement on a derived
    property.  The spec sees the same values as a let-program; the order in which the object's
    random properties are sampled (it comes out of specifier resolution) is the unlogged group."""
    props = list(tpl["props"])
    override = tpl.get("override")
    exprs = dict(props)
    if override:
        exprs[override[0]] = override[1]
    # let-program in a dependency-respecting order
    done, lets = [], []

    def emit(nm):
        if nm in done:
            return
        for d in _vars(exprs[nm], []):
            emit(d)
        done.append(nm)
        lets.append(("let", nm, exprs[nm]))

    for nm, _e in props:
        emit(nm)
    names = [nm for nm, _e in props]
    ast = lets + [("param", "shown", V(tpl["param"])), ("require", soft, tpl["req"])]
    prog, info = G.to_prog(ast, max_iter)
    nodes = prog["nodes"]
    aug, _ = G.to_prog(ast + [("param", f"zz{i}", V(nm)) for i, nm in enumerate(names)], max_iter)
    if aug["nodes"][: len(nodes)] != nodes:
        raise G.IllFormed("name lookup changed the DAG")
    node_of = dict(zip(names, aug["outs"][len(prog["outs"]):]))
    group = [node_of[nm] for nm in names if nodes[node_of[nm] - 1]["k"] in ("drange", "mux")]
    derived = [node_of[nm] for nm in names if node_of[nm] not in group]
    post = derived + [n for n in prog["roots"] if n not in group and n not in derived]
    prog["outs"] = prog["outs"] + [node_of[nm] for nm in names]
    info["outnames"] = info["outnames"] + [["prop", nm] for nm in names]
    prog["froots"], prog["rroots"], prog["broots"], prog["eroots"] = [], group, [], post
    prog["pre"], prog["post"] = [], post
    prog["reqs"][0]["ic"] = 0
    body = "\n".join(f"    {nm}: {G.expr_text(_rename(e, lambda x: 'self.' + x))}" for nm, e in props)
    inst = "ego = new Crate at (0, 0, 0.5)"
    if override:
        inst += f", with {override[0]} {G.expr_text(override[1])}"
    reqtext = ("require " if soft is None else f"require[{float(soft)}] ") + G.cond_text(_rename(tpl["req"], lambda x: "ego." + x))
    text = (G.PRELUDE + MYPRELUDE + f"class Crate(Object):\n{body}\n{inst}\nparam shown = ego.{tpl['param']}\n{reqtext}\n")
    info.update(ast=repr(ast), nreq=1, nrr=len(group), noise=0, mode="class", group_kind="random properties of the object",
                depsets=[_vars(e, []) for _nm, e in props if len(_vars(e, [])) >= 2], accept_rate=None)
    return text, prog, info


# ---- requirement checks that consume the global generators by themselves (no helper): an object
# in a ring-shaped mesh arena (the containment check samples the mesh volume with NumPy), a
# rejecting user requirement, and a NumPy-drawn visible value (the position in the arena)
GEOM_TEXT = """import trimesh, shapely.geometry as sg
ring = sg.Point(0, 0).buffer({outer}, 8).difference(sg.Point(0, 0).buffer({inner}, 8))
arena = MeshVolumeRegion(trimesh.creation.extrude_polygon(ring, 4), centerMesh=False)
workspace = Workspace(arena)
x = Range(0, 1)
param x = x
ego = new Object in arena, with width {size}, with length {size}, with height 1.5
require x > {thr}
"""


def geom_case(k):
    pars = [dict(outer=10, inner=6, size=1.5, thr=0.6), dict(outer=9, inner=5, size=1.2, thr=0.5),
            dict(outer=12, inner=8, size=1.5, thr=0.7), dict(outer=10, inner=7, size=1.0, thr=0.4)][k % 4]
    info = {"mode": "geom", "outnames": [], "nreq": 1, "nrr": 0, "noise": 1, "nscenes": 3, "max_iter": 2000,
            "group_kind": "-", "nprims": 99, "branches": 10**9}
    return GEOM_TEXT.format(**pars), None, info


# ---- several independent random parameters defined by ONE param statement (their order in the
# table of global parameters is the order of sampling), optionally with a world model that
# defines parameters too (those the scenario already set are not overridden)
PARAM_TEMPLATES = [
    dict(names=["a", "b", "c"], exprs=[_D(0, 3), _D(10, 13), ("uniform", [L(20), L(22), L(25)])]),
    dict(names=["weather", "friction", "gust", "timeOfDay"], exprs=[("uniform", [L(1), L(2), L(3)]), _D(10, 14), _D(20, 23), _D(30, 35)]),
    dict(names=["x", "y"], exprs=[_D(0, 5), _D(10, 15)], model=dict(names=["mm", "x", "zz"], exprs=[_D(50, 53), L(7), _D(60, 63)])),
    dict(names=["p1", "p2", "p3"], exprs=[V("shared"), _D(10, 13), _D(20, 24)], lets=[("shared", _D(0, 3))],
         req=("cmp", "ge", V("shared"), L(2))),
    dict(names=["speedLimit", "gap", "lane", "k"], exprs=[_D(0, 2), _D(10, 12), ("discrete", [(L(20), 1), (L(21), 3)]), _D(30, 31)]),
    dict(names=["alpha", "beta"], exprs=[_D(0, 3), _D(10, 13)], extra=[("zeta", L(9))],
         model=dict(names=["gamma", "delta"], exprs=[_D(50, 51), _D(60, 62)])),
]


def param_case(tpl, max_iter=20):
    lets = [("let", nm, e) for nm, e in tpl.get("lets", [])]
    pairs = list(zip(tpl["names"], tpl["exprs"])) + list(tpl.get("extra", []))
    model = tpl.get("model")
    mpairs = [(nm, e) for nm, e in zip(model["names"], model["exprs"]) if nm not in dict(pairs)] if model else []
    ast = lets + [("param", nm, e) for nm, e in pairs + mpairs]
    if tpl.get("req"):
        ast.append(("require", None, tpl["req"]))
    prog, info = G.to_prog(ast, max_iter)
    nodes = prog["nodes"]
    group = []
    for n in prog["outs"]:
        if nodes[n - 1]["k"] != "const" and n not in group:
            group.append(n)
    post = [n for n in prog["roots"] if n not in group]
    prog["froots"], prog["rroots"], prog["broots"], prog["eroots"] = [], group, [], post
    prog["pre"], prog["post"] = [], post
    for r in prog["reqs"]:
        r["ic"] = 0
    text = G.PRELUDE + MYPRELUDE + "".join(f"{nm} = {G.expr_text(e)}\n" for nm, e in tpl.get("lets", []))
    text += "param " + ", ".join(f"{nm} = {G.expr_text(e)}" for nm, e in zip(tpl["names"], tpl["exprs"])) + "\n"
    for nm, e in tpl.get("extra", []):
        text += f"param {nm} = {G.expr_text(e)}\n"
    files = {}
    if model:
        text += "model c15model\n"
        files["c15model.scenic"] = "param " + ", ".join(f"{nm} = {G.expr_text(e)}" for nm, e in zip(model["names"], model["exprs"])) + "\n"
    if tpl.get("req"):
        text += "require " + G.cond_text(tpl["req"]) + "\n"
    depsets = [list(tpl["names"])] + ([list(model["names"])] if model else [])
    info.update(ast=repr(ast), nreq=len(prog["reqs"]), nrr=len(group), noise=0, mode="param", files=files,
                group_kind="random global parameters", depsets=[d for d in depsets if len(d) >= 2], accept_rate=None)
    return text, prog, info


def modular_cases():
    """Setup blocks of modular scenarios with several independent random locals used only in
    requirements (plus an unused one, a shared one feeding the object, noise, a soft requirement)."""
    D = lambda a, b: ("drange", L(a), L(b))  # noqa: E731
    asts = [
        [("let", "alpha", D(0, 3)), ("let", "bravo", D(10, 13)), ("let", "charlie", D(20, 23)), ("let", "delta", D(30, 33)),
         ("let", "s", D(0, 5)), ("object", V("s")),
         ("require", None, ("cmp", "le", ("bin", "add", V("alpha"), L(10)), V("bravo"))),
         ("require", None, ("cmp", "le", ("bin", "add", V("charlie"), L(10)), V("delta")))],
        [("let", "a", D(0, 3)), ("let", "b", D(2, 5)), ("let", "c", ("uniform", [L(1), L(4), L(6)])), ("let", "unused", D(7, 9)),
         ("object", D(0, 4)),
         ("require", None, ("cmp", "lt", V("a"), V("b"))),
         ("require", Fraction(1, 2), ("cmp", "ne", ("call", "vnoise", [V("c")], []), L(4)))],
        [("let", "speedLimit", D(3, 6)), ("let", "gap", D(1, 4)), ("let", "lane", ("discrete", [(L(0), 1), (L(2), 2)])),
         ("let", "shown", D(0, 3)), ("object", ("bin", "add", V("shown"), L(1))),
         ("require", None, ("and", ("cmp", "ge", V("speedLimit"), V("gap")), ("cmp", "le", V("lane"), V("shown"))))],
    ]
    return [make_case(a, 20, modular=True) for a in asts]


# ---- accept/reject must not depend on the order of the checks either: a small box around (and
# possibly wholly inside) an L-shaped, hence non-convex, solid.  The optional blanket collision
# check is surface-only; the pairwise intersection check decides.  6 scenes from one stream.
ENGULF_TEXT = """import trimesh, shapely.geometry as sg
outline = sg.Polygon([(-4, -4), (4, -4), (4, 0), (0, 0), (0, 4), (-4, 4)])
solid = trimesh.creation.extrude_polygon(outline, 2)
block = new Object at (0, 0, 0), with shape MeshShape(solid),
    with width 8, with length 8, with height 2
ego = new Object at (Range(-{r}, {r}), Range(-{r}, {r}), 0),
    with width {w}, with length {w}, with height 0.5
"""


def engulf_case(k):
    pars = [dict(r=3.5, w=0.5), dict(r=3.8, w=0.4), dict(r=3.2, w=0.6)][k % 3]
    info = {"mode": "geom", "outnames": [], "nreq": 2, "nrr": 0, "noise": 0, "nscenes": 6, "max_iter": 1000,
            "group_kind": "-", "nprims": 99, "branches": 10**9}
    return ENGULF_TEXT.format(**pars), None, info


def leak_probes():
    """Finite-discrete counterparts of the ring-arena program: ONE requirement that consumes a
    global generator and never rejects, ONE that consumes nothing and rejects about half of the
    samples.  Checked in declaration order the first runs (and consumes) before the second rejects;
    checked in the opposite order it does not run at all: the two scripted clock profiles make the
    amount consumed on rejected samples differ, which must not be visible."""
    D = lambda a, b: ("drange", L(a), L(b))  # noqa: E731
    out = []
    for fn in ("vnoise", "vnoisen"):
        out.append(make_case([("let", "a", D(0, 9)), ("let", "b", D(0, 9)), ("param", "pa", V("a")), ("param", "pb", V("b")),
                              ("require", None, ("cmp", "ge", ("call", fn, [V("a")], []), L(0))),
                              ("require", None, ("cmp", "ge", V("b"), L(5)))], 40))
        out[-1][2]["nscenes"] = 3  # two more scenes from the same stream: a leak has more chances to show
    return out


def canary():
    """The smallest program on which the set-ordered collection is visible: three
    requirement-only values, two requirements chained through the middle one."""
    D = lambda a, b: ("drange", L(a), L(b))  # noqa: E731
    return make_case([("let", "r1", D(0, 9)), ("let", "r2", D(10, 19)), ("let", "r3", D(20, 29)),
                      ("param", "p", D(0, 9)),
                      ("require", None, ("cmp", "lt", ("bin", "add", V("r1"), L(10)), V("r2"))),
                      ("require", None, ("cmp", "lt", ("bin", "add", V("r2"), L(10)), V("r3")))], 20)


class _Rej(Exception):
    pass


def accept_rate(ast, rng, n=150):
    """Generator-side estimate of the acceptance probability of one attempt (plain sampling of
    the AST; used only to prefer programs that sometimes reject and sometimes accept)."""
    def ev(e, env):
        t = e[0]
        if t == "lit":
            return e[1]
        if t == "var":
            return env[e[1]]
        if t == "drange":
            lo, hi = ev(e[1], env), ev(e[2], env)
            if hi < lo:
                raise _Rej()
            return rng.randint(lo, hi)
        if t == "uniform":
            return ev(rng.choice(e[1]), env)
        if t == "discrete":
            return ev(rng.choices([x for x, _w in e[1]], [w for _x, w in e[1]])[0], env)
        if t == "bin":
            a, b = ev(e[2], env), ev(e[3], env)
            return a + b if e[1] == "add" else a - b if e[1] == "sub" else a * b
        if t == "un":
            a = ev(e[2], env)
            return -a if e[1] == "neg" else abs(a)
        if t == "call" and e[1] in ("vnoise", "vnoisen"):
            return ev(e[2][0], env)
        raise ValueError(e)

    def cond(c, env):
        if c[0] == "cmp":
            a, b = ev(c[2], env), ev(c[3], env)
            return {"lt": a < b, "le": a <= b, "eq": a == b, "ne": a != b, "gt": a > b, "ge": a >= b}[c[1]]
        if c[0] == "and":
            return cond(c[1], env) and cond(c[2], env)
        if c[0] == "or":
            return cond(c[1], env) or cond(c[2], env)
        return not cond(c[1], env)

    ok = 0
    for _ in range(n):
        env = {}
        try:
            good = True
            reqs = []
            for s in ast:
                if s[0] == "let":
                    env[s[1]] = ev(s[2], env)
                elif s[0] == "require":
                    reqs.append((s[1], s[2], dict(env)))
            for pr, c, e in reqs:  # a requirement sees the bindings current when it was stated
                e = {k: env[k] if k in e else None for k in e}
                if (pr is None or rng.random() <= pr) and not cond(c, e):
                    good = False
            ok += good
        except _Rej:
            pass
    return ok / n


def gen_programs(sd, count, max_iter, dynamic_every=5):
    """Every `dynamic_every`-th program has objects with behaviours and is simulated."""
    rng = random.Random(sd)
    out, dropped, seen = [], 0, set()
    while len(out) < count:
        try:
            text, prog, info = random_case(rng, max_iter, dynamic=(len(out) % dynamic_every == dynamic_every - 1))
        except G.IllFormed:
            dropped += 1
            continue
        if text in seen or not prog["reqs"] or len(prog["rroots"]) > 3 or info["branches"] > 20000:
            dropped += 1
            continue
        rate = accept_rate(eval(info["ast"], {"Fraction": Fraction}), rng)
        info["accept_rate"] = rate
        # mostly programs that both reject and accept (the order of the draws then matters);
        # one in six may be anything (never rejecting, infeasible)
        if not (0.1 <= rate <= 0.85) and rng.random() < 0.85:
            dropped += 1
            continue
        seen.add(text)
        out.append((text, prog, info))
    return out, dropped


# ------------------------------------------------------------------ fresh processes
def hash_orders(namesets, seeds):
    """Iteration order of each set of property names under each PYTHONHASHSEED (one tiny
    interpreter per seed, no scenic): used to pick hash seeds that order the names differently."""
    code = "import json,sys; print(json.dumps([list(set(ns)) for ns in json.loads(sys.argv[1])]))"

    def one(hs):
        out = subprocess.run([PY, "-c", code, json.dumps(namesets)], env={"PYTHONHASHSEED": str(hs), "PATH": "/usr/bin:/bin"},
                             capture_output=True, text=True, timeout=60)
        return json.loads(out.stdout)

    with ThreadPoolExecutor(8) as ex:
        return dict(zip(seeds, ex.map(one, seeds)))


def pick_hashseeds(depsets, n, orders):
    """n hash seeds out of 0..15 covering as many distinct orderings of the name sets as possible
    (first the seeds that bring a new ordering, then 0..7 in order)."""
    sig = {hs: json.dumps([orders[hs][k] for k in depsets]) for hs in orders}
    chosen, seen = [], set()
    for hs in sorted(orders):
        if sig[hs] not in seen and len(chosen) < n:
            seen.add(sig[hs])
            chosen.append(hs)
    for hs in sorted(orders):
        if hs not in chosen and len(chosen) < n:
            chosen.append(hs)
    return chosen, len(seen)


def perturbations(rng, n, i=0, hashseeds=None, pure_pair=False):
    """Process 0 is the plain one (scripted clock profile "asc"), process 1 checks the
    requirements in the opposite order ("desc"); the others differ in hash seed, layout, clock
    profile (asc / desc / jitter), history, import order and whether the process is reused.
    Hash seeds: given (class programs: chosen to order the property names differently), else 0,
    two of 1..7 (rotating with the program number) and random large ones."""
    if hashseeds is None:
        hashseeds = [0, 1 + (2 * i) % 7, 1 + (2 * i + 1) % 7] + [rng.randint(8, 4000000) for _ in range(max(0, n - 3))]
        hashseeds = [hashseeds[0], hashseeds[3] if n > 3 else hashseeds[1]] + hashseeds[1:3] + hashseeds[4:]
    ps = [{"hashseed": hashseeds[0], "junk_keep": 0, "junk_holes": 0, "clock": "asc", "jitter_seed": None, "prior": 0,
           "env_pad": 0, "warmup": 0, "import_order": 0}]
    for k in range(1, n):
        if k == 1 and pure_pair:  # differs from process 0 in the timing profile ONLY
            ps.append(dict(ps[0], clock="desc"))
            continue
        clock = "desc" if k == 1 else rng.choice(["asc", "desc", "jitter", "jitter"])
        ps.append({
            "hashseed": hashseeds[k % len(hashseeds)],
            "junk_keep": rng.choice([0, 1, 2, 3, 5, 7, 11, 16, 23, 40]),
            "junk_holes": rng.choice([0, 0, 1, 2, 4, 9]),
            "clock": clock,
            "jitter_seed": rng.randint(1, 10**6) if clock == "jitter" else None,
            "prior": rng.choice([0, 1, 2, 3]),
            "env_pad": rng.choice([0, 0, 7, 33, 150, 1000]),
            "warmup": rng.choice([0, 0, 1, 2]),
            "import_order": rng.choice([0, 1, 2, 3]),
        })
    return ps


def run_worker(job):
    d = scratch()
    jp = os.path.join(d, f"job-{job['id']}.json")
    op = os.path.join(d, f"out-{job['id']}.json")
    with open(jp, "w") as f:
        json.dump(job, f)
    # a fixed, minimal environment: what the caller's shell exports must not decide the layout
    env = {k: os.environ[k] for k in ("HOME", "LANG", "OMP_NUM_THREADS", "OPENBLAS_NUM_THREADS", "MKL_NUM_THREADS",
                                      "NUMEXPR_NUM_THREADS", "VERIF_REPO") if k in os.environ}
    env["PATH"] = "/usr/local/bin:/usr/bin:/bin"
    if os.environ.get("PYTHONPATH"):  # the tree under test may be given this way (seeded-change runs)
        env["PYTHONPATH"] = os.environ["PYTHONPATH"]
    env["PYTHONHASHSEED"] = str(job["perturb"]["hashseed"])
    if job["perturb"].get("env_pad"):
        env["C15_PAD"] = "x" * int(job["perturb"]["env_pad"])  # one more way of moving the heap
    err = None
    for _attempt in range(2):  # a worker that dies or times out is machinery trouble: retried once
        if os.path.exists(op):
            os.remove(op)
        try:
            p = subprocess.run([PY, WORKER, jp, op], env=env, capture_output=True, text=True, timeout=job.get("timeout", 300) + 60)
        except subprocess.TimeoutExpired:
            err = "worker timed out"
            continue
        if not os.path.exists(op):
            err = f"worker died rc={p.returncode}: {p.stderr[-800:]}"
            continue
        with open(op) as f:
            return json.load(f)
    return {"ok": False, "infra": True, "error": err}


def plan_processes(items, nproc, rng_seed=0):
    """The perturbations of every process of every program (deterministic in the seed)."""
    depsets = sorted({tuple(ds) for _t, _p, info in items for ds in info.get("depsets", [])})
    orders = hash_orders([list(ds) for ds in depsets], list(range(16))) if depsets else {}
    orders = {hs: {ds: o for ds, o in zip(depsets, os_)} for hs, os_ in orders.items()}
    plan = []
    for i, (_text, _prog, info) in enumerate(items):
        prng = random.Random(rng_seed * 1000003 + i)
        mode = info.get("mode", "static")
        if mode in ("class", "param", "modular"):
            seeds, ndist = pick_hashseeds([tuple(ds) for ds in info["depsets"]], nproc + 1, orders)
            info["hash_orderings_covered"] = ndist
            plan.append(perturbations(prng, nproc + 1, i, hashseeds=seeds))
        elif mode == "geom":
            plan.append(perturbations(prng, max(4, nproc - 1), i, pure_pair=True))
        else:
            plan.append(perturbations(prng, nproc, i))
    return plan


def run_processes(items, nproc, mutant=None, rng_seed=0, mode="static"):
    """items: (text, prog, info).  Returns per program: list of (job, worker result)."""
    jobs = []
    for i, ((text, prog, info), perts) in enumerate(zip(items, plan_processes(items, nproc, rng_seed))):
        for pi, pert in enumerate(perts):
            jobs.append({
                "id": f"{i:04d}-{pi:02d}", "prog": i, "proc": pi, "text": text, "seed": 1000 + 17 * i + rng_seed,
                "max_iter": info.get("max_iter") or prog["maxIter"], "outnames": info["outnames"], "mode": info.get("mode", mode),
                "nscenes": info.get("nscenes", 1), "files": info.get("files", {}),
                "steps": info.get("steps", 4), "perturb": pert, "mutant": mutant, "timeout": 300,
            })
    with ThreadPoolExecutor(6) as ex:
        results = list(ex.map(run_worker, jobs))
    per = [[] for _ in items]
    for job, r in zip(jobs, results):
        per[job["prog"]].append((job, r))
    return per


def tlc_events(draws, ngen):
    """User-visible draws of Scenario.generate in the form DeterminismTrace reads (no floats:
    random() in 1e-6 units).  Draws made later, by the simulation, are not part of the trace."""
    evs = []
    for d in draws[:ngen]:
        if d["internal"]:
            continue
        fn = d["fn"]
        if fn == "random":
            evs.append({"fn": "random", "args": [], "res": int(d["res"] * 1000000)})
        elif fn == "randint":
            evs.append({"fn": "randint", "args": [int(x) for x in d["args"]], "res": int(d["res"])})
        elif fn == "choices":
            evs.append({"fn": "choices", "args": [int(x) for x in d["args"]], "res": int(d["res"][0])})
        else:
            evs.append({"fn": fn, "args": [], "res": 0})
    return evs


def run_trace_tlc(ck, items, per, label="DeterminismTrace"):
    """Pass 1: one JOINT case per program (all processes, ONE order).  Pass 2, only for the
    programs no single order explains: one case per process.
    Returns (joint[i] = list of accepting orders, single[i][p] = list of accepting orders)."""
    progs = [p for _t, p, _i in items]
    entries, vindex = expand_variants(progs)
    pp = os.path.join(scratch(), f"trace-progs-{len(ck.cov['tlc_runs'])}.json")
    with open(pp, "w") as f:
        json.dump(entries, f)

    def procs_of(runs):
        return [{"evs": tlc_events(r["draws"], r.get("n_generate_draws", len(r["draws"]))), "iter": r["dump"]["iterations"],
                 "pc": r["dump"]["status"], "out": [int(x) for x in r["out"]]} for _job, r in runs]

    def tlc(cases, tag, need):
        cp = os.path.join(scratch(), f"trace-cases-{tag}-{len(ck.cov['tlc_runs'])}.json")
        with open(cp, "w") as f:
            json.dump(cases, f)
        res = run_tlc("DeterminismTrace", TRACE_CFG, env={"PROGS": pp, "CASES": cp, "PRINT_PAIRS": "0",
                                                          "PRINT_PROGRESS": "1" if tag == "single" else "0"},
                      coverage=True, timeout=1500)
        ck.add_tlc(f"{label}[{tag}]", res)
        for a in need:
            if res.coverage.get(a, (0, 0))[1] == 0:
                raise MachineryError(f"DeterminismTrace action {a} never taken (vacuous trace validation)")
        return res

    joint = [[] for _ in items]
    single = [[[] for _ in runs] for runs in per]
    progress = {}
    res = tlc([{"prog": i + 1, "procs": procs_of(runs)} for i, runs in enumerate(per)], "joint", ("TDraw", "TActivate", "NextProc"))
    for o in res.outputs:
        if o["t"] == "acc":
            joint[o["cid"] - 1].append(vindex[o["pid"] - 1][1])
    index = []
    cases = []
    for i, runs in enumerate(per):
        if joint[i]:
            single[i] = [list(joint[i]) for _ in runs]  # an order explaining all explains each
            continue
        for pi, pr in enumerate(procs_of(runs)):
            cases.append({"prog": i + 1, "procs": [pr]})
            index.append((i, pi))
    if cases:
        res = tlc(cases, "single", ("TDraw",))
        for o in res.outputs:
            i, pi = index[o["cid"] - 1]
            if o["t"] == "acc":
                single[i][pi].append(vindex[o["pid"] - 1][1])
            elif o["t"] == "prog":
                progress[(i, pi)] = max(progress.get((i, pi), 0), o["ei"])
    return joint, single, progress


def flipped_pair(prog, orders_a, orders_b):
    """Two requirement-only nodes whose relative order differs between two processes, taking
    the closest pair of explaining orders."""
    best = None
    for oa in orders_a:
        for ob in orders_b:
            ra = [prog["rroots"][x - 1] for x in oa]
            rb = [prog["rroots"][x - 1] for x in ob]
            inv = [(x, y) for x, y in itertools.combinations(ra, 2) if rb.index(x) > rb.index(y)]
            if best is None or len(inv) < len(best[0]):
                best = (inv, ra, rb)
    if not best or not best[0]:
        return None
    x, y = best[0][0]
    return {"first": {"node": x, "value": describe(prog, x)}, "second": {"node": y, "value": describe(prog, y)},
            "order_a": best[1], "order_b": best[2]}


def judge(ck, items, per, joint, single, progress, mutant=None, stats=None):
    """The verdict (dump equality) and the diagnosis (trace validation) for every program."""
    stats = stats if stats is not None else {}
    for key in ("programs", "processes", "identical", "differing", "differing_scene", "differing_rng_state_only",
                "differing_known", "reordered_same_dump", "programs_with_reordered_dependencies", "differing_lt2", "unexplained_traces", "programs_ge2", "errors"):
        stats.setdefault(key, 0)
    for i, ((text, prog, info), runs) in enumerate(zip(items, per)):
        stats["programs"] += 1
        stats["processes"] += len(runs)
        bad = [(job, r) for job, r in runs if not r.get("ok")]
        if any(r.get("infra") for _j, r in bad):
            raise MachineryError(f"worker process failed twice: {[r for _j, r in bad if r.get('infra')][0]['error']}")
        if bad:
            stats["errors"] += 1
            if len(bad) == len(runs) and len({r.get("error") for _j, r in bad}) == 1:
                # every process refuses the program in the same way: the generator's problem
                ck.cov["dropped_by_generator"] += 1
                continue
            ck.violation(f"{len(bad)} of {len(runs)} processes failed on the same program and seed: {bad[0][1].get('error')}",
                         {"property": "C15", "program": text, "perturbations": [j["perturb"] for j, _r in runs],
                          "errors": [r.get("error") for _j, r in runs]})
            continue
        fam = info.get("mode", "static")
        fstat = stats.setdefault("by_family", {}).setdefault(fam, {"programs": 0, "processes": 0, "differing": 0,
                                                                       "hash_seeds": [], "clock_profiles": []})
        fstat["programs"] += 1
        fstat["processes"] += len(runs)
        fstat["hash_seeds"] = sorted(set(fstat["hash_seeds"]) | {j["perturb"]["hashseed"] for j, _r in runs})[:24]
        fstat["clock_profiles"] = sorted(set(fstat["clock_profiles"]) | {j["perturb"]["clock"] for j, _r in runs})
        stats["scenic_paths"] = sorted(set(stats.get("scenic_paths", [])) | {r.get("scenic_path") for _j, r in runs})
        traced = prog is not None
        nrr = len(prog["rroots"]) if traced else 0
        if nrr >= 2:
            stats["programs_ge2"] += 1
        if len({json.dumps(r.get("dep_order")) for _j, r in runs}) > 1:
            stats["programs_with_reordered_dependencies"] += 1
        dumps = [json.dumps(r["dump"], sort_keys=True) for _j, r in runs]
        same = all(d == dumps[0] for d in dumps)
        explained = [bool(single[i][p]) for p in range(len(runs))] if traced else []
        ck.case(text, nontrivial=(nrr >= 2 or info["nreq"] >= 2 or fam == "geom"))
        ck.validated(sum(explained))
        stats["unexplained_traces"] += len(explained) - sum(explained)
        groups = {}
        for p, d in enumerate(dumps):
            groups.setdefault(d, []).append(p)
        if fam not in stats.setdefault("sampled_families", []):  # what a case of each family looks like
            stats["sampled_families"].append(fam)
            ck.sample({"family": fam, "program": text.replace(G.PRELUDE + MYPRELUDE, ""), "seed": runs[0][0]["seed"],
                       "unordered_group": {"kind": info.get("group_kind"),
                                           "roots": [describe(prog, n) for n in prog["rroots"]] if traced else []},
                       "perturbations": [j["perturb"] for j, _r in runs],
                       "distinct_dumps": len(groups), "dump_of_process_0": runs[0][1]["dump"],
                       "user_visible_draws_of_process_0": [[d["fn"], d["args"], d["res"]] for d in runs[0][1]["draws"]
                                                            if not d["internal"]][:40],
                       "internal_draws_of_process_0": sum(1 for d in runs[0][1]["draws"] if d["internal"]),
                       "dependency_orders_explaining_all_processes": joint[i],
                       "dependency_orders_explaining_each_process": single[i]}, limit=5)
        flip = None
        if traced and not joint[i] and all(explained):
            reps = [g[0] for g in groups.values()] if not same else list(range(len(runs)))
            for a, b in itertools.combinations(reps, 2):
                if not any(o in single[i][b] for o in single[i][a]):
                    flip = flipped_pair(prog, single[i][a], single[i][b])
                    if flip:
                        flip["process_a"], flip["process_b"] = a, b
                        break
        if same:
            stats["identical"] += 1
            if not traced:
                continue
            if not joint[i] and all(explained):
                # the draws were reordered but the dump happens not to show it: an observation
                stats["reordered_same_dump"] += 1
                ck.sample({"observation": "draw order differs across processes, dumps identical",
                           "program": text.replace(G.PRELUDE + MYPRELUDE, ""), "flipped": flip}, limit=9)
            elif not all(explained):
                ck.sample({"diagnostic": "a draw trace is not a behaviour of the sampler under any dependency order "
                                         "(dumps identical, no verdict-level consequence)",
                           "program": text.replace(G.PRELUDE + MYPRELUDE, ""),
                           "progress": {str(p): progress.get((i, p)) for p in range(len(runs)) if not explained[p]}}, limit=9)
            continue
        stats["differing"] += 1
        scene_part = {json.dumps({k: v for k, v in r["dump"].items() if not k.startswith("rng_")}, sort_keys=True) for _j, r in runs}
        stats["differing_scene" if len(scene_part) > 1 else "differing_rng_state_only"] += 1
        if nrr < 2:
            stats["differing_lt2"] += 1
        # trigger predicate of the named deviation SetOrderedDeps (Determinism.tla, OrderedDeps = FALSE):
        # >= 2 requirement-only random roots, every process on its own IS a behaviour of the sampler
        # (scene, attempt count and draws replayed by DeterminismTrace) under some permutation of
        # those roots, and no single permutation explains them all.
        fstat["differing"] += 1
        by_group = traced and nrr >= 2 and all(explained) and not joint[i]
        known = by_group and fam in ("static", "dynamic")
        a, b = [g[0] for g in list(groups.values())[:2]]
        replay = {
            "property": "C15", "program": text, "seed": runs[0][0]["seed"], "max_iter": runs[0][0]["max_iter"],
            "outnames": info["outnames"], "mutant": mutant, "mode": fam, "nscenes": info.get("nscenes", 1),
            "scenic_path": runs[0][1].get("scenic_path"),
            "processes": [{"perturbation": j["perturb"], "job_id": j["id"], "dump": r["dump"], "dependency_order": r.get("dep_order"),
                           "explaining_orders": single[i][p],
                           "user_visible_draws": [[d["fn"], d["args"], d["res"]] for d in r["draws"] if not d["internal"]]}
                          for p, (j, r) in enumerate(runs)],
            "groups_of_equal_dumps": list(groups.values()),
            "unordered_group": {"kind": info.get("group_kind"),
                                "roots": [{"node": n, "value": describe(prog, n)} for n in prog["rroots"]] if traced else []},
            "single_order_explaining_all": joint[i], "flipped": flip,
            "first_difference": first_diff(runs[a][1], runs[b][1]),
        }
        msg = (f"dumps differ across {len(runs)} fresh processes with the same seed "
               f"({len(groups)} distinct dumps; processes {a} and {b}: {replay['first_difference']}); ")
        if by_group:
            msg += (f"explained by the order of the {info.get('group_kind')}: {flip['first']['value']} / {flip['second']['value']} flipped"
                    if flip else f"explained by a permutation of the {info.get('group_kind')}")
        elif traced:
            msg += (f"NOT explained by a permutation of the {info.get('group_kind')}"
                    + ("; ONE order explains every draw trace, so the processes drew the same values in the same order and "
                       "parted ways in what the draws do not show (generator state, values drawn from NumPy)" if joint[i] else ""))
        else:
            diff = [(runs[x][0]["perturb"]["clock"], runs[x][0]["perturb"]["hashseed"]) for x in (a, b)]
            msg += f"(no draw-level diagnosis for this family; processes differ in (clock profile, hash seed) {diff[0]} vs {diff[1]})"
        if ck.violation(msg, replay, known_key=KNOWN_KEY if known else None) is False:
            stats["differing_known"] += 1
            ck.sample({"known_finding": KNOWN_KEY, "program": text.replace(G.PRELUDE + MYPRELUDE, ""),
                       "flipped": flip, "dumps": [json.loads(d) for d in list(groups)[:2]],
                       "perturbations": [runs[a][0]["perturb"], runs[b][0]["perturb"]]}, limit=9)
    return stats


def first_diff(ra, rb):
    """Path and values of the first leaf at which two dumps differ."""
    def walk(x, y, path):
        if isinstance(x, dict) and isinstance(y, dict):
            for k in sorted(set(x) | set(y)):
                if x.get(k) != y.get(k):
                    return walk(x.get(k), y.get(k), path + [k])
        if isinstance(x, list) and isinstance(y, list) and len(x) == len(y):
            for k, (a, b) in enumerate(zip(x, y)):
                if a != b:
                    return walk(a, b, path + [k])
        return {"/".join(str(p) for p in path): [x if not isinstance(x, (dict, list)) else "...", y if not isinstance(y, (dict, list)) else "..."]}

    return walk(ra["dump"], rb["dump"], []) if ra["dump"] != rb["dump"] else None


# ------------------------------------------------------------------ TLC on the model
def write_progs(progs, name):
    path = os.path.join(scratch(), name)
    with open(path, "w") as f:
        json.dump(progs, f)
    return path


def expand_variants(progs):
    """One entry of Progs per permutation of the requirement-only roots (Determinism.tla: a
    dependency order is a variant of the program).  Returns (entries, [(base index, perm)])."""
    entries, index = [], []
    for b, p in enumerate(progs):
        n = len(p["rroots"])
        for perm in itertools.permutations(range(1, n + 1)):
            e = dict(p)
            e["base"] = b + 1
            e["perm"] = list(perm)
            e["ref"] = list(perm) == list(range(1, n + 1))
            e["roots"] = p["pre"] + [p["rroots"][x - 1] for x in perm] + p["post"]
            entries.append(e)
            index.append((b, list(perm)))
    return entries, index


def model_check(ck, progs, tier):
    """The exhaustive runs on Determinism.tla."""
    R_ = 2
    W = 8  # the worker processes of the binding run at the same time
    full = "TRUE" if tier == "thorough" else "FALSE"
    entries, index = expand_variants(progs)
    path = write_progs(entries, "model-progs.json")
    env = {"PROGS": path, "PRINT_HIST": "0", "PRINT_PAIRS": "0"}
    # (A) ideal model: insertion ordered -> the property holds in every environment
    res = run_tlc("Determinism", CFG.format(ordered="TRUE", restore='"always"', full=full, skips="FALSE", prior=2, R=R_, more=ALL_INVS), env=env,
                  coverage=True, timeout=2400, workers=W)
    ck.add_tlc("Determinism[OrderedDeps]", res)
    need = ["PriorScene", "Reseed", "DActivate", "DDraw", "Reused", "SaveRng", "CheckAny",
            "CheckDone", "RestoreRngStep", "Handover"]
    missing = [a for a in need if res.coverage.get(a, (0, 0))[1] == 0]
    if missing:
        raise MachineryError(f"Determinism actions never taken (vacuous model): {missing}")
    # (B) as-implemented deviation: set ordered -> must FAIL
    bprogs = [p for p in progs if len(p["rroots"]) >= 2]
    if tier == "quick":  # stops at the first counterexample: the small programs are enough
        bprogs = sorted(bprogs, key=lambda p: (len(p["rroots"]), len(p["nodes"])))[:12]
    bentries, bindex = expand_variants(bprogs)
    res = run_tlc("Determinism", CFG.format(ordered="FALSE", restore='"always"', full=full, skips="FALSE", prior=2, R=R_, more="INVARIANT DeterministicScene\n"),
                  env=dict(env, PROGS=write_progs(bentries, "model-setordered.json")), expect_fail=True, timeout=2400, workers=W)
    if res.invariant_violated != "DeterministicScene":
        raise MachineryError("the set-ordered model did not violate Deterministic: the spec cannot exhibit the "
                             f"defect (violated: {res.invariant_violated}; {res.error})")
    ck.add_tlc("Determinism[SetOrderedDeps, expected to fail]", res)
    ck.cov["set_ordered_model"] = {"violated": res.invariant_violated}
    cex = [o for o in res.outputs if o.get("t") == "cex"]
    if cex:
        c = cex[0]
        b, _perm = bindex[c["pid1"] - 1]
        ck.cov["set_ordered_model"]["counterexample"] = {
            "program_nodes": bprogs[b]["nodes"], "requirements": bprogs[b]["reqs"],
            "unordered_group": [{"node": n, "value": describe(bprogs[b], n)} for n in bprogs[b]["rroots"]],
            "dependencies_copy1": c["roots1"], "dependencies_copy2": c["roots2"],
            "prior_scenes": [c["np1"], c["np2"]], "stream": c["stream"],
            "observable_copy1": c["obs1"], "observable_copy2": c["obs2"]}
    # (C) spec-level mutant: without RestoreRng the property fails (the section is load-bearing)
    noisy = [p for p in progs if any(r["ic"] for r in p["reqs"])]
    if tier == "quick":  # the failing runs stop at the first counterexample: a few small programs are enough
        noisy = sorted(noisy, key=lambda p: (len(p["rroots"]), len(p["nodes"])))[:8]
    nentries, _ = expand_variants(noisy)
    res = run_tlc("Determinism", CFG.format(ordered="TRUE", restore='"never"', full=full, skips="FALSE", prior=2, R=R_, more="INVARIANT DeterministicScene\n"),
                  env=dict(env, PROGS=write_progs(nentries, "model-noisy.json")), expect_fail=True, timeout=2400, workers=W)
    if res.invariant_violated != "DeterministicScene":
        raise MachineryError(f"the model without RestoreRng did not fail (violated: {res.invariant_violated}; {res.error})")
    ck.add_tlc("Determinism[no RestoreRng, expected to fail]", res)
    ck.cov["no_restore_model"] = {"violated": res.invariant_violated}
    # (D) spec-level mutant: restored only when the sample is accepted -> the randomness a rejected
    # sample's checks consumed leaks, and how much depends on the checker's order: must fail too
    res = run_tlc("Determinism", CFG.format(ordered="TRUE", restore='"accepted"', full=full, skips="FALSE", prior=2, R=R_, more="INVARIANT DeterministicScene\n"),
                  env=dict(env, PROGS=write_progs(nentries, "model-noisy.json")), expect_fail=True, timeout=2400, workers=W)
    if res.invariant_violated != "DeterministicScene":
        raise MachineryError(f"the model restoring only accepted samples did not fail (violated: {res.invariant_violated}; {res.error})")
    ck.add_tlc("Determinism[RestoreRng only when accepted, expected to fail]", res)
    cex = [o for o in res.outputs if o.get("t") == "cex"]
    ck.cov["restore_accepted_only_model"] = {"violated": res.invariant_violated,
                                             "counterexample": ({"stream": cex[0]["stream"], "observable_copy1": cex[0]["obs1"],
                                                                 "observable_copy2": cex[0]["obs2"]} if cex else None)}
    # (E) spec-level mutant: a passed requirement 1 makes the checker skip requirement 2 -> whether a
    # sample is accepted depends on the order of the checks: must fail
    two = sorted([p for p in progs if len(p["reqs"]) >= 2 and all(r["p"] == [1, 1] for r in p["reqs"][:2])],
                 key=lambda p: (len(p["rroots"]), len(p["nodes"])))[: (8 if tier == "quick" else 40)]
    tentries, _ = expand_variants(two)
    res = run_tlc("Determinism", CFG.format(ordered="TRUE", restore='"always"', full=full, skips="TRUE", prior=2, R=R_, more="INVARIANT DeterministicScene\n"),
                  env=dict(env, PROGS=write_progs(tentries, "model-two.json")), expect_fail=True, timeout=2400, workers=W)
    if res.invariant_violated != "DeterministicScene":
        raise MachineryError(f"the model skipping a requirement after another passed did not fail (violated: {res.invariant_violated}; {res.error})")
    ck.add_tlc("Determinism[requirement 2 skipped once requirement 1 passed, expected to fail]", res)
    cex = [o for o in res.outputs if o.get("t") == "cex"]
    ck.cov["skip_after_pass_model"] = {"violated": res.invariant_violated,
                                       "counterexample": ({"stream": cex[0]["stream"], "observable_copy1": cex[0]["obs1"],
                                                           "observable_copy2": cex[0]["obs2"]} if cex else None)}
    ck.cov["model_programs"] = len(progs)
    ck.cov["model_program_variants"] = len(entries)


# ------------------------------------------------------------------ main
def main(tier, mutant=None, ck=None, items=None, nproc=None):
    own = ck is None
    ck = ck or Check("C15", tier, "model_checking")
    ck.cov["rule"] = (
        "a case is one generated program (finite-discrete programs with requirement-only values and requirements that "
        "consume the global generators; classes whose property defaults need several random properties; several random "
        "parameters in one param statement, with and without a world model; setup blocks of modular scenarios with several "
        "random locals; a ring-arena program whose containment check samples with NumPy and a small box around/inside a "
        "non-convex solid, both under opposite scripted timing profiles) compiled and sampled in N fresh interpreters with the same "
        "seeds and different perturbations (hash seed 0..7 and beyond, chosen per class program to order the property "
        "names differently; junk allocation before compilation; scripted asc/desc and jittering checker clock; 0-3 scenes "
        "before re-seeding; import order; reused process); non-trivial = at least two values in the unordered group, at "
        "least two requirements, or a geometric program; distinct by program text")
    ck.assumptions += [
        "finite-discrete fragment (DiscreteRange/Uniform/Discrete, lifted operators, params, one object property, "
        "hard and soft requirements, requirements that consume the global generators while being checked)",
        "a process instance = a fresh /venv/bin/python interpreter; layouts are perturbed by allocation before "
        "compilation and by PYTHONHASHSEED, not enumerated (the enumeration over all orders is TLC's, on the model)",
        "the draw log is taken by wrapping the functions of the `random` module; draws made while "
        "Scenario.checker.checkRequirements runs are internal",
        "the printer pair gen_discrete.to_scenic / to_prog (+ c15.make_case) is trusted glue",
    ]
    nproc = nproc or int(os.environ.get("C15_NPROC", 0)) or (5 if tier == "quick" else 8)
    if items is None:
        nprog = int(os.environ.get("C15_NPROG", 0)) or (23 if tier == "quick" else 200)  # overrides: smoke tests only
        ncls, npar, ngeom, neng = (4, 4, 1, 1) if tier == "quick" else (16, 6, 4, 3)
        if nprog < 20:
            ncls, npar, ngeom, neng = 2, 2, 1, 1
        nt, npt = len(CLASS_TEMPLATES), len(PARAM_TEMPLATES)
        cls = [class_case(CLASS_TEMPLATES[(2 * seed() + 2 * j + j // nt) % nt], 20, soft=(Fraction(1, 2) if j >= nt else None)) for j in range(ncls)]
        par = [param_case(PARAM_TEMPLATES[(seed() + j) % npt]) for j in range(npar)]
        mod = modular_cases()
        geo = [geom_case(seed() + j) for j in range(ngeom)] + [engulf_case(seed() + j) for j in range(neng)]
        fixed = len(geo) + 3 + len(cls) + len(par) + len(mod)
        items, dropped = gen_programs(seed() * 104729 + 15, max(1, nprog - fixed), 20)
        # the slow (geometric) programs first, so that they overlap with the others
        items = geo + [canary()] + leak_probes() + cls + par + mod + items
        ck.cov["dropped_by_generator"] = dropped

    t0 = time.time()
    # the processes run while TLC checks the model
    with ThreadPoolExecutor(1) as bg:
        fut = bg.submit(run_processes, items, nproc, mutant, seed())
        if own:
            fam = [p for _t, p, _i in family(tier)]
            small = [dict(p, maxIter=2) for _t, p, i in items
                     if p is not None and i.get("mode", "static") in ("static", "dynamic") and i["nprims"] <= 4 and i["branches"] <= 300][: (3 if tier == "quick" else 60)]
            model_check(ck, fam + small, tier)
        per = fut.result()
    ck.cov["processes_wall_s"] = round(time.time() - t0, 1)
    okper = [[(j, r) for j, r in runs if r.get("ok")] for runs in per]
    if sum(len(r) for r in okper) == 0:
        raise MachineryError(f"no worker process succeeded: {per[0][0][1]}")
    # trace validation only for programs whose processes all ran
    full_items = [(it, runs) for it, runs in zip(items, per) if it[1] is not None and all(r.get("ok") for _j, r in runs)]
    joint, single, progress = run_trace_tlc(ck, [it for it, _ in full_items], [runs for _it, runs in full_items])
    jmap, smap, pmap_ = {}, {}, {}
    fi = 0
    for i, (it, runs) in enumerate(zip(items, per)):
        if it[1] is not None and all(r.get("ok") for _j, r in runs):
            jmap[i], smap[i] = joint[fi], single[fi]
            for (a, b), v in progress.items():
                if a == fi:
                    pmap_[(i, b)] = v
            fi += 1
        else:
            jmap[i], smap[i] = [], [[] for _ in runs]
    stats = judge(ck, items, per, [jmap[i] for i in range(len(items))], [smap[i] for i in range(len(items))], pmap_, mutant)
    ck.cov["binding"] = stats
    if stats["processes"] and ck.cov["traces_validated_against_impl"] == 0:
        raise MachineryError("no draw trace of the real code was accepted by DeterminismTrace (vacuous binding)")
    ck.cov["exhaustive"] = False
    ck.cov["explanation"] = ("TLC exhaustive over all environments (dependency orders, check orders, internal consumption, "
                             "0-2 prior scenes) and all RNG streams for the model programs; real code: seeded random programs x "
                             "perturbed fresh processes")
    if not own:
        return stats
    print(f"[C15] programs={stats['programs']} processes={stats['processes']} identical={stats['identical']} "
          f"differing={stats['differing']} (known={stats['differing_known']}) reordered_same_dump={stats['reordered_same_dump']} "
          f"unexplained_traces={stats['unexplained_traces']}", flush=True)
    return ck.finish()


def replay(path):
    """Re-run the processes of a replay file and show whether the dumps differ again."""
    rp = json.load(open(path))
    if "processes" not in rp:
        print(open(path).read())
        return 0
    prog = {"maxIter": rp["max_iter"]}
    info = {"outnames": rp["outnames"]}
    jobs = []
    for pi, pr in enumerate(rp["processes"]):
        # the same job id: even the length of argv moves the heap (and with it the set order)
        jobs.append({"id": pr.get("job_id", f"0000-{pi:02d}"), "prog": 0, "proc": pi, "text": rp["program"], "seed": rp["seed"],
                     "max_iter": prog["maxIter"], "outnames": info["outnames"], "mode": rp.get("mode", "static"),
                     "nscenes": rp.get("nscenes", 1), "timeout": 300, "perturb": pr["perturbation"],
                     "mutant": rp.get("mutant")})
    with ThreadPoolExecutor(6) as ex:
        results = list(ex.map(run_worker, jobs))
    dumps = [json.dumps(r.get("dump"), sort_keys=True) for r in results]
    print(rp["program"].replace(G.PRELUDE + MYPRELUDE, ""))
    for pi, (pr, r) in enumerate(zip(rp["processes"], results)):
        again = "same as recorded" if r.get("dump") == pr["dump"] else "DIFFERS from the recorded run"
        print(f"process {pi} {pr['perturbation']}: deps={r.get('dep_order')} dump={dumps[pi][:160]} [{again}]")
    if len(set(dumps)) > 1:
        print(f"VIOLATION property=C15 replay={path}")
        return 1
    return 0


# ------------------------------------------------------------------ sensitivity self-test
class DryCheck(Check):
    """Collects verdicts without writing replays or evidence; the known-finding line is taken
    as present, so that only disagreements the known finding does not explain count."""

    def __init__(self):
        super().__init__("C15", "selftest", "model_checking")
        self.reported = []

    def violation(self, key, replay, known_key=None):
        self.reported.append(("known" if known_key else "violation", key))
        if known_key:
            return False
        self.violations.append((key, None))
        return True


def targeted_programs():
    """Programs aimed at the mutants: >= 2 random params (collection order of params), noisy
    requirements with moderate rejection (restore of the generators), soft requirements."""
    D = lambda a, b: ("drange", L(a), L(b))  # noqa: E731
    asts = [
        [("let", "a", D(0, 5)), ("let", "b", D(0, 5)), ("let", "c", D(0, 5)),
         ("param", "pa", V("a")), ("param", "pb", V("b")), ("param", "pc", V("c")),
         ("require", None, ("cmp", "lt", V("a"), V("b")))],
        [("let", "a", D(0, 9)), ("let", "b", D(0, 9)), ("param", "pb", V("b")), ("param", "pa", V("a")),
         ("require", None, ("cmp", "ne", V("a"), V("b")))],
        [("let", "a", D(0, 5)), ("let", "b", D(0, 5)), ("param", "pa", V("a")), ("param", "pb", V("b")),
         ("require", None, ("cmp", "le", ("call", "vnoise", [V("a")], []), L(3))),
         ("require", None, ("cmp", "ge", V("b"), L(2))),
         ("require", None, ("cmp", "ne", ("call", "vnoise", [V("a")], []), V("b")))],
        [("let", "a", D(0, 7)), ("let", "b", D(0, 7)), ("param", "pa", V("a")), ("param", "pb", ("bin", "add", V("b"), L(1))),
         ("require", None, ("cmp", "lt", ("call", "vnoisen", [V("a")], []), V("b"))),
         ("require", None, ("cmp", "ge", ("call", "vnoise", [V("b")], []), L(3))),
         ("require", Fraction(1, 2), ("cmp", "le", V("a"), L(4)))],
        [("let", "a", D(0, 5)), ("param", "pa", V("a")), ("param", "pz", D(1, 4)),
         ("require", Fraction(1, 2), ("cmp", "ge", V("a"), L(2))),
         ("require", Fraction(1, 4), ("cmp", "le", ("call", "vnoise", [V("a")], []), L(4))),
         ("require", None, ("cmp", "ne", ("call", "vnoisen", [V("a")], []), L(3)))],
        [("let", "a", D(0, 5)), ("let", "b", D(0, 5)), ("object", V("a")), ("param", "pb", V("b")), ("param", "pa2", ("bin", "mul", V("a"), L(2))),
         ("require", None, ("cmp", "gt", ("call", "vnoise", [V("b")], []), L(1))),
         ("require", None, ("cmp", "lt", ("call", "vnoise", [V("a")], []), L(5)))],
        # low acceptance, three requirements of which two consume NumPy randomness: which one
        # rejects first (hence how much is consumed) depends on the checker's clock
        [("let", "a", D(0, 9)), ("let", "b", D(0, 9)), ("param", "pa", V("a")), ("param", "pb", V("b")),
         ("require", None, ("cmp", "le", ("call", "vnoisen", [V("a")], []), L(6))),
         ("require", None, ("cmp", "ge", V("b"), L(6))),
         ("require", None, ("cmp", "ne", ("call", "vnoisen", [V("b")], []), V("a")))],
        [("let", "a", D(0, 9)), ("let", "b", D(0, 9)), ("let", "c", D(0, 9)), ("param", "pa", V("a")), ("param", "pc", V("c")),
         ("require", None, ("cmp", "lt", ("call", "vnoisen", [V("b")], []), L(7))),
         ("require", None, ("cmp", "gt", ("call", "vnoise", [V("a")], []), L(4))),
         ("require", None, ("cmp", "ge", V("c"), L(5)))],
        # two soft requirements that are rarely satisfied: which random() activates which matters
        [("let", "a", D(0, 9)), ("let", "b", D(0, 9)), ("param", "pa", V("a")), ("param", "pb", V("b")),
         ("require", Fraction(1, 2), ("cmp", "ge", V("a"), L(7))),
         ("require", Fraction(1, 4), ("cmp", "ge", V("b"), L(7))),
         ("require", None, ("cmp", "ne", ("call", "vnoise", [V("a")], []), V("b")))],
    ]
    return [make_case(a, 40) for a in asts]


def selftest(names=None):
    """Run the binding on the unchanged code and under each in-process mutant (installed in the
    worker processes only).  Prints one line per configuration."""
    names = names or ["none", "setdeps", "restore-accepted-only", "unsorted-required-props", "norestore", "np-norestore",
                      "setparams", "hashparams", "timeout-reject", "activation-in-check-order", "tiebreak-random"]
    gen, _ = gen_programs(seed() * 104729 + 15, 8, 20)
    rows = []
    for m in names:
        ck = DryCheck()
        t0 = time.time()
        items = targeted_programs() + ([canary()] + gen if m in ("none", "fix-ordered", "setdeps") else [])
        if m in ("none", "restore-accepted-only", "unsorted-required-props"):
            items = ([geom_case(0)] + leak_probes() + [class_case(CLASS_TEMPLATES[k]) for k in (0, 2, 3)]
                     + (items if m == "none" else targeted_programs()[2:5]))
        stats = main("quick", mutant=None if m == "none" else m, ck=ck, items=items, nproc=5)
        nv = sum(1 for kind, _ in ck.reported if kind == "violation")
        nk = sum(1 for kind, _ in ck.reported if kind == "known")
        rows.append((m, nv, nk, stats))
        print(f"[selftest] mutant={m:26s} programs={stats['programs']} violations={nv} known-finding cases={nk} "
              f"differing={stats['differing']} unexplained_traces={stats['unexplained_traces']} wall={time.time() - t0:.0f}s", flush=True)
        for kind, msg in ck.reported[:2]:
            print(f"    {kind}: {msg[:230]}", flush=True)
    return rows


if __name__ == "__main__":
    if len(sys.argv) > 1 and sys.argv[1] == "selftest":
        selftest(sys.argv[2:] or None)
    else:
        sys.exit(main(sys.argv[1] if len(sys.argv) > 1 else "quick"))
