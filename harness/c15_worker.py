"""C15 worker: ONE fresh interpreter = one "process instance" of the property.

usage: /venv/bin/python c15_worker.py job.json out.json     (PYTHONHASHSEED set by the parent)

job = {text, seed, max_iter, outnames, mode: "static"|"dynamic", steps,
       perturb: {junk_keep, junk_holes, jitter_seed, prior}, mutant: name|None}

Order of events in every process (identical but for the perturbations):
  allocate junk -> install the jittering clock -> seed(random, numpy) -> compile ->
  generate and discard `prior` scenes -> seed again -> [log on] generate (-> simulate) -> dump.

The dump is canonical (floats as hex, no addresses); the draw log is the sequence of calls to
the global `random` functions, each marked user-visible or internal (made while the
requirement checker runs, i.e. between the save and the restore of the generator state)."""

import hashlib
import json
import os
import signal
import sys


def main():
    job = json.load(open(sys.argv[1]))
    out_path = sys.argv[2]
    signal.alarm(int(job.get("timeout", 150)))
    import random
    import time as real_time

    pert = job.get("perturb", {})
    # ---- perturbation 0: import order (what is already loaded when scenic gets imported)
    order = int(pert.get("import_order", 0))
    if order == 1:
        import scenic.core.distributions  # noqa: F401  (a submodule first)
        import scenic.core.regions  # noqa: F401
    elif order == 2:
        import trimesh  # noqa: F401  (third-party geometry stack before scenic)
        import shapely.geometry  # noqa: F401
        import scipy.spatial  # noqa: F401
    elif order == 3:
        import scenic.syntax.veneer  # noqa: F401
        import scenic.core.object_types  # noqa: F401

    import numpy

    import scenic
    import scenic.core.sample_checking as sample_checking
    import scenic.core.scenarios as scenarios_mod
    from scenic.core.distributions import Range, RejectionException

    mutant = job.get("mutant")

    # ---- perturbation 1: memory layout.  Objects allocated (and partly freed again) before
    # compilation shift the addresses of everything allocated later, hence the iteration
    # order of every identity-hashed set.
    junk = []
    for i in range(int(pert.get("junk_keep", 0))):
        junk.append(Range(0, 1) if i % 2 == 0 else object())
    holes = [Range(0, 1) for _ in range(2 * int(pert.get("junk_holes", 0)))]
    junk.append(holes[::2])
    del holes

    # ---- perturbation 2: a jittering clock for the requirement checker's timing statistics
    class JitterClock:
        def __init__(self, seed):
            self._r = random.Random(seed)  # private generator, never the global one
            self._t = 0.0

        def perf_counter(self):
            self._t += self._r.choice((1e-7, 1e-4, 1e-2, 1.0, 30.0))
            return self._t

        def __getattr__(self, name):
            return getattr(real_time, name)

    # ... or a SCRIPTED timing profile: every check is charged a duration that depends only on
    # which requirement it is ("asc": later requirements look 1000x slower each, so the checker
    # settles on the declaration order; "desc": the reverse order).  Two processes with the two
    # profiles check the same requirements in opposite orders from the second attempt on.
    class ProfileClock:
        def __init__(self, kind):
            self.kind = kind
            self.now = 0.0
            self.calls = 0
            self.checker = None

        def perf_counter(self):
            self.calls += 1
            if self.calls % 2 == 0:  # end of a check (WeightedAcceptanceChecker calls in pairs)
                cost = 1e-6
                try:
                    req = sys._getframe(1).f_locals.get("req")
                    reqs = list(self.checker.requirements)
                    idx = next(i for i, r in enumerate(reqs) if r is req)
                    rank = idx if self.kind == "asc" else len(reqs) - 1 - idx
                    cost = 1e-9 * 1000.0 ** rank
                except Exception:
                    pass
                self.now += cost
            return self.now

        def __getattr__(self, name):
            return getattr(real_time, name)

    clock = None
    if pert.get("clock") in ("asc", "desc"):
        clock = ProfileClock(pert["clock"])
        sample_checking.time = clock
    elif pert.get("jitter_seed") is not None:
        sample_checking.time = JitterClock(pert["jitter_seed"])

    # ---- in-process mutants (sensitivity self-test only; never on disk)
    if mutant:
        install_mutant(mutant, scenarios_mod, sample_checking, random, numpy)

    # ---- draw log
    log = []
    state = {"on": False, "internal": False}

    def jsonable(x):
        if isinstance(x, (bool, int, str)) or x is None:
            return x
        if isinstance(x, float):
            return x
        if isinstance(x, (list, tuple, range)):
            return [jsonable(y) for y in x]
        return f"<{type(x).__name__}>"

    def wrap(name):
        real = getattr(random, name)

        def logged(*a, **kw):
            res = real(*a, **kw)
            if state["on"]:
                if name == "choices":
                    args = jsonable(kw.get("cum_weights") if kw.get("cum_weights") is not None else kw.get("weights"))
                    args = args if args is not None else ["uniform", len(a[0])]
                else:
                    args = jsonable(a)
                log.append({"fn": name, "args": args, "res": jsonable(res), "internal": state["internal"]})
            return res

        setattr(random, name, logged)

    for fn in ("random", "randint", "randrange", "choices", "choice", "uniform", "gauss",
               "triangular", "shuffle", "sample", "betavariate", "expovariate", "normalvariate"):
        if hasattr(random, fn):
            wrap(fn)

    def sha(x):
        return hashlib.sha1(repr(x).encode()).hexdigest()[:16]

    def rng_fingerprint():
        st = numpy.random.get_state()
        return {"random": sha(random.getstate()), "numpy": sha((st[0], st[1].tobytes(), st[2], st[3], st[4]))}

    res = {"ok": True}
    try:
        res["scenic_path"] = os.path.dirname(scenic.__file__)
        if job.get("files"):  # e.g. a world model the program names in a `model` statement
            import tempfile

            moddir = tempfile.mkdtemp(prefix="c15-files-", dir=os.path.dirname(out_path))
            for fname, content in job["files"].items():
                with open(os.path.join(moddir, fname), "w") as f:
                    f.write(content)
            sys.path.insert(0, moddir)
        # ---- perturbation 4: a REUSED process: another scenario was compiled and sampled here before
        if pert.get("warmup"):
            random.seed(99)
            numpy.random.seed(99)
            warm = scenic.scenarioFromString(
                "w1 = DiscreteRange(0, 5)\nw2 = DiscreteRange(0, 5)\nparam w = w1\nego = new Object with foo w2\n"
                "require w1 <= w2\n", mode2D=False)
            for _ in range(int(pert["warmup"])):
                warm.generate(maxIterations=200, verbosity=0)
        seed = int(job["seed"])
        random.seed(seed)
        numpy.random.seed(seed)
        params = job.get("params") or {}
        scenario = scenic.scenarioFromString(job["text"], mode2D=bool(job.get("mode2D", False)), params=params)
        if clock is not None:
            clock.checker = scenario.checker
        res["rng_after_compile"] = rng_fingerprint()
        res["dep_order"] = [describe_dep(d) for d in scenario.dependencies]

        # mark the draws made while requirements are being checked as internal
        chk = scenario.checker
        real_check = chk.checkRequirements

        def checking(sample):
            state["internal"] = True
            try:
                return real_check(sample)
            finally:
                state["internal"] = False

        chk.checkRequirements = checking

        M = int(job.get("max_iter", 20))
        # ---- perturbation 3: history (scenes generated and thrown away before re-seeding)
        for _ in range(int(pert.get("prior", 0))):
            try:
                scenario.generate(maxIterations=M, verbosity=0)
            except RejectionException:
                pass
        random.seed(seed + 1)
        numpy.random.seed(seed + 1)
        state["on"] = True
        dump = {}
        try:
            scene, its = scenario.generate(maxIterations=M, verbosity=0)
            dump["status"] = "accepted"
            dump["iterations"] = its
            dump["params"] = {k: canon(v) for k, v in sorted(scene.params.items())}
            dump["objects"] = [canon_object(o) for o in scene.objects]
            outs = []
            for kind, nm in job.get("outnames", []):
                v = scene.params[nm] if kind == "param" else getattr(scene.objects[0], nm)
                outs.append(norm_int(v))
            res["out"] = outs
        except RejectionException:
            scene = None
            dump["status"] = "exhausted"
            dump["iterations"] = M
            res["out"] = []
        res["n_generate_draws"] = len(log)
        # further scenes from the same stream (what a leak into the stream shows up in)
        more = []
        for _ in range(int(job.get("nscenes", 1)) - 1):
            try:
                sc2, its2 = scenario.generate(maxIterations=M, verbosity=0)
                more.append({"status": "accepted", "iterations": its2,
                             "params": {k: canon(v) for k, v in sorted(sc2.params.items())},
                             "objects": [canon_object(o) for o in sc2.objects]})
            except RejectionException:
                more.append({"status": "exhausted", "iterations": M})
        if more:
            dump["more_scenes"] = more
        if scene is not None and job.get("mode") == "dynamic":
            dump["simulation"] = run_simulation(scenario, scene, job)
        state["on"] = False
        dump["rng_after"] = rng_fingerprint()
        res["dump"] = dump
        res["draws"] = log
    except BaseException as e:  # noqa: BLE001 - everything is reported to the parent
        import traceback

        res = {"ok": False, "error": f"{type(e).__name__}: {e}", "tb": traceback.format_exc()[-3000:]}
    with open(out_path, "w") as f:
        json.dump(res, f)
    keep_alive(junk)


def keep_alive(_x):
    return None


def describe_dep(d):
    t = type(d).__name__
    lo, hi = getattr(d, "low", None), getattr(d, "high", None)
    if isinstance(lo, (int, float)) and isinstance(hi, (int, float)):
        return f"{t}({lo:g},{hi:g})"
    return t


def norm_int(v):
    if isinstance(v, bool):
        return int(v)
    if isinstance(v, float) and v == int(v):
        return int(v)
    return v


def canon(v, depth=0):
    import numpy

    from scenic.core.vectors import Orientation, Vector

    if v is None or isinstance(v, (bool, str)):
        return v
    if isinstance(v, int):
        return v
    if isinstance(v, float):
        return "f:" + v.hex()
    if isinstance(v, numpy.generic):
        return canon(v.item(), depth)
    if isinstance(v, Vector):
        return ["Vector"] + [float(c).hex() for c in v]
    if isinstance(v, Orientation):
        return ["Orientation"] + [float(c).hex() for c in v.q]
    if depth > 4:
        return f"<{type(v).__name__}>"
    if isinstance(v, (list, tuple)):
        return [canon(x, depth + 1) for x in v]
    if isinstance(v, dict):
        return {str(k): canon(x, depth + 1) for k, x in sorted(v.items(), key=lambda kv: str(kv[0]))}
    if isinstance(v, (set, frozenset)):
        return sorted((json.dumps(canon(x, depth + 1), sort_keys=True) for x in v))
    if isinstance(v, numpy.ndarray):
        return ["ndarray", hashlib.sha1(v.tobytes()).hexdigest()[:16]]
    return f"<{type(v).__name__}>"


def canon_object(o):
    d = {"class": type(o).__name__}
    for p in sorted(o.properties):
        try:
            d[p] = canon(getattr(o, p))
        except Exception as e:  # a property that cannot be read is part of the dump as such
            d[p] = f"<error {type(e).__name__}>"
    return d


def run_simulation(scenario, scene, job):
    from scenic.core.simulators import DummySimulator

    sim = DummySimulator(drift=float(job.get("drift", 0.5)))
    steps = int(job.get("steps", 4))
    result = None
    simulation = sim.simulate(scene, maxSteps=steps, maxIterations=int(job.get("sim_iterations", 3)), verbosity=0)
    if simulation is None:
        return {"status": "rejected"}
    result = simulation.result
    acts = []
    for step in result.actions:
        row = {}
        for agent, actions in step.items():
            idx = scene.objects.index(agent) if agent in scene.objects else -1
            row[str(idx)] = [describe_action(a) for a in actions]
        acts.append(row)
    return {
        "status": "done",
        "steps": len(result.trajectory),
        "trajectory": [[canon(p) for p in state] for state in result.trajectory],
        "final": [canon(p) for p in result.finalState],
        "termination": [str(result.terminationType), str(result.terminationReason)],
        "actions": acts,
        "records": {k: canon(v) for k, v in sorted(result.records.items())},
    }


def describe_action(a):
    d = {k: canon(v) for k, v in sorted(vars(a).items())} if hasattr(a, "__dict__") else {}
    return [type(a).__name__, d] if not isinstance(a, (int, float, str)) else canon(a)


# ------------------------------------------------------------------------- mutants
def install_mutant(name, scenarios_mod, sample_checking, random, numpy):
    Scenario = scenarios_mod.Scenario
    if name in ("norestore", "np-norestore"):
        # RNG state not restored (at all / for NumPy) after requirement checking
        real_inner = Scenario._generateInner

        def inner(self, maxIterations, verbosity, feedback):
            real_setstate, real_np_set = random.setstate, numpy.random.set_state
            if name == "norestore":
                random.setstate = lambda s: None
            numpy.random.set_state = lambda s: None
            try:
                return real_inner(self, maxIterations, verbosity, feedback)
            finally:
                random.setstate, numpy.random.set_state = real_setstate, real_np_set

        Scenario._generateInner = inner
    elif name == "restore-accepted-only":
        # the generators are restored only when the sample is accepted: what a rejected
        # sample's checks consumed leaks into the user-visible stream
        real_check_cls = sample_checking.SampleChecker.checkRequirements

        def check(self, sample):
            r = real_check_cls(self, sample)
            if r is not None:
                self._c15_leak = (random.getstate(), numpy.random.get_state())
            else:
                self._c15_leak = None
            return r

        sample_checking.SampleChecker.checkRequirements = check
        real_setstate, real_np_set = random.setstate, numpy.random.set_state
        real_inner = Scenario._generateInner

        def inner(self, maxIterations, verbosity, feedback):
            chk = self.checker

            def setstate(st):
                leak = getattr(chk, "_c15_leak", None)
                real_setstate(leak[0] if leak else st)

            def np_set(st):
                leak = getattr(chk, "_c15_leak", None)
                real_np_set(leak[1] if leak else st)

            random.setstate, numpy.random.set_state = setstate, np_set
            try:
                return real_inner(self, maxIterations, verbosity, feedback)
            finally:
                random.setstate, numpy.random.set_state = real_setstate, real_np_set

        Scenario._generateInner = inner
    elif name == "unsorted-required-props":
        # Specifier.requiredProperties in set order (seeded change 2 shape)
        import scenic.core.specifiers as specs_mod

        real_init = specs_mod.Specifier.__init__

        def init(self, name_, priorities, value, deps=None):
            real_init(self, name_, priorities, value, deps)
            self.requiredProperties = tuple(set(self.requiredProperties))

        specs_mod.Specifier.__init__ = init
    elif name in ("setparams", "hashparams"):
        # Scenario.__init__ collecting the random params in a set / ordering them by a string hash
        from scenic.core.distributions import Samplable

        real_init = Scenario.__init__

        def init(self, *a, **kw):
            real_init(self, *a, **kw)
            ninst = len(self._instances)
            items = [(k, p) for k, p in self.params.items() if isinstance(p, Samplable)]
            if name == "setparams":
                reordered = tuple(set(p for _k, p in items))
            else:
                reordered = tuple(p for _k, p in sorted(items, key=lambda kp: hash(kp[0])))
            deps = self.dependencies
            self.dependencies = deps[:ninst] + reordered + deps[ninst + len(items):]

        Scenario.__init__ = init
    elif name == "setdeps":
        # the defect fixed by repo commit 53f03332, re-created: the requirement dependencies
        # reach Scenario.__init__ through an (address-ordered) set
        import inspect

        real_init = Scenario.__init__
        pos = list(inspect.signature(real_init).parameters).index("requirementDeps") - 1

        def init(self, *a, **kw):
            if "requirementDeps" in kw:
                kw["requirementDeps"] = set(kw["requirementDeps"])
            else:
                a = list(a)
                a[pos] = set(a[pos])
            real_init(self, *a, **kw)

        Scenario.__init__ = init
    elif name == "timeout-reject":
        # timing-dependent *rejection*: a requirement whose check "took too long" rejects
        WAC = sample_checking.WeightedAcceptanceChecker
        real_inner = WAC.checkRequirementsInner

        def inner(self, sample):
            t0 = sample_checking.time.perf_counter()
            r = real_inner(self, sample)
            if r is None and sample_checking.time.perf_counter() - t0 > 40.0:
                return "took too long"
            return r

        WAC.checkRequirementsInner = inner
    elif name == "tiebreak-random":
        # ties between requirement costs broken with the global generator (inside the
        # save/restore window: an equivalent mutant, must NOT be reported)
        WAC = sample_checking.WeightedAcceptanceChecker
        real_cost = WAC.getRequirementCost

        def cost(self, req):
            c = real_cost(self, req)
            return (c[0], c[1], random.random())

        WAC.getRequirementCost = cost
    elif name == "activation-in-check-order":
        # soft-requirement activation drawn in the checker's (timing dependent) order
        real_inner = Scenario._generateInner

        def inner(self, maxIterations, verbosity, feedback):
            saved = self.userRequirements
            chk = self.checker
            order = sorted(saved, key=lambda r: chk.getRequirementCost(r)) if hasattr(chk, "getRequirementCost") else saved
            self.userRequirements = tuple(order)
            try:
                return real_inner(self, maxIterations, verbosity, feedback)
            finally:
                self.userRequirements = saved

        Scenario._generateInner = inner
    elif name == "fix-ordered":
        # the proposed repair, simulated: insertion-ordered collections where the requirement
        # dependencies are gathered (module-level name `set` shadows the builtin there)
        import collections.abc

        import scenic.core.dynamics.scenarios as dyn
        import scenic.core.requirements as reqs

        class OrderedSet(collections.abc.MutableSet):
            def __init__(self, it=()):
                self._d = dict.fromkeys(it)

            def __contains__(self, x):
                return x in self._d

            def __iter__(self):
                return iter(self._d)

            def __len__(self):
                return len(self._d)

            def add(self, x):
                self._d[x] = None

            def discard(self, x):
                self._d.pop(x, None)

            def update(self, *its):
                for it in its:
                    for x in it:
                        self._d[x] = None

            def issubset(self, other):
                return all(x in other for x in self)

        reqs.set = OrderedSet
        dyn.set = OrderedSet
    else:
        raise ValueError(f"unknown mutant {name}")


if __name__ == "__main__":
    main()
