"""C16 -- region operations obey set semantics in full 3-D.

Spec: spec/RegionAlg.tla over spec/RegionGeom.tla (structural Member with three coordinates,
Height, AABB, Dist, Intersects, ContainsRegion on the x8 integer lattice; the laws are TLC
invariants over every ordered pair of the catalogue x the probe grid).
Binding: M1 replay + code->spec validation of samples.  The real regions are built through the
Python API from the same descriptors, every ordered pair is combined with intersect / union /
difference, and containsPoint / z / AABB / distanceTo / intersects / containsRegion of operands and
results are compared with what TLC printed; ~30 seeded samples of every result are snapped to the
lattice and handed to TLC, which classifies each as in / out / mixed with all three coordinates."""

import json
import math
import os
import random
import signal
import sys
import time
import traceback

from common import Check, MachineryError, pmap, run_tlc, scratch, seed
import gen_regions as G

S = G.S
OPS = (("inter", "intersect"), ("union", "union"), ("diff", "difference"))
NSAMPLES = 30
TOL = 1e-6

CFG = """SPECIFICATION Spec
INVARIANT TypeOK
INVARIANT CatalogueOK
INVARIANT PlaneAgreement
INVARIANT DistZeroIffMember
INVARIANT BoxSoundPrim
INVARIANT LawMember
INVARIANT LawCommute
INVARIANT LawPartition
INVARIANT LawIdentities
INVARIANT LawPlane
INVARIANT HeightSound
INVARIANT BoxSound
INVARIANT DistSound
INVARIANT IntersectsSound
INVARIANT ContainsSound
INVARIANT SampleSound
INVARIANT HistoryFree
INVARIANT MeasSound
INVARIANT Emit
CHECK_DEADLOCK FALSE
"""

# ------------------------------------------------------------------ observing the real code

_CAT = None
_PROBES = None
_DISTIDX = None


class _Timeout(Exception):
    pass


def _alarm(_s, _f):
    raise _Timeout()


def exc_class(e):
    """'rejected' (RejectionException), 'refused' (the library says the operation is unsupported:
    NotImplementedError / UndefinedSamplingException anywhere, or a TypeError / RuntimeError /
    ValueError raised by an explicit `raise` statement in scenic.core.regions), else 'crash'."""
    from scenic.core.distributions import RejectionException
    from scenic.core.regions import UndefinedSamplingException

    if isinstance(e, RejectionException):
        return "rejected"
    if isinstance(e, (NotImplementedError, UndefinedSamplingException)):
        return "refused"
    if type(e) in (TypeError, RuntimeError, ValueError):
        # explicit `raise` statement in scenic.core.regions: decided on the byte code of the frame
        # that raised (RAISE_VARARGS at tb_lasti), not on the source text, so that an edit of the
        # file on disk during the run cannot change the classification
        tb = e.__traceback__
        while tb is not None and tb.tb_next is not None:
            tb = tb.tb_next
        if tb is not None and tb.tb_frame.f_code.co_filename.endswith("scenic/core/regions.py"):
            import dis

            for ins in dis.get_instructions(tb.tb_frame.f_code):
                if ins.offset == tb.tb_lasti:
                    if ins.opname == "RAISE_VARARGS":
                        return "refused"
                    break
    return "crash"


def _exc(e):
    return {"exc": type(e).__name__, "cls": exc_class(e), "msg": str(e)[:200]}


def _vec(p):
    from scenic.core.vectors import Vector

    return Vector(p[0] / S, p[1] / S, p[2] / S)


def _coords(v):
    return (float(v[0]), float(v[1]), float(v[2]))


def _pvec(q, dz):
    p = _PROBES[q]
    return _vec((p[0], p[1], p[2] + dz))


def observe_region(R, cp_idx, sd, dz=0):
    """Everything the check looks at on one real region (probes translated by dz lattice units)."""
    from scenic.core.regions import EmptyRegion, PolygonalRegion

    o = {"rtype": type(R).__name__, "empty": isinstance(R, EmptyRegion)}
    if isinstance(R, PolygonalRegion):
        try:
            o["z"] = float(R.z)
        except Exception as e:
            o["z"] = _exc(e)
    # containsPoint
    cp = {}
    for q in cp_idx:
        try:
            cp[q] = bool(R.containsPoint(_pvec(q, dz)))
        except Exception as e:
            o["cp_exc"] = _exc(e)
            break
    o["cp"] = cp
    # size
    try:
        sz = R.size
        o["size"] = None if sz is None else float(sz)
    except Exception as e:
        o["size"] = _exc(e)
    # AABB
    try:
        bb = R.AABB
        o["aabb"] = [[float(v) for v in bb[0]], [float(v) for v in bb[1]]]
    except Exception as e:
        o["aabb"] = _exc(e)
    # distanceTo
    ds = []
    for q in _DISTIDX:
        try:
            ds.append(float(R.distanceTo(_pvec(q, dz))))
        except Exception as e:
            ds = _exc(e)
            break
    o["dist"] = ds
    # samples
    G.seed_all(sd)
    smp, raw, rejected, sexc = [], [], 0, None
    tries = 0
    while len(smp) < NSAMPLES and tries < 8 * NSAMPLES:
        tries += 1
        try:
            p = _coords(R.uniformPointInner())
        except Exception as e:
            c = exc_class(e)
            if c == "rejected":
                rejected += 1
                if rejected >= 3 * NSAMPLES and not smp:
                    break
                continue
            sexc = _exc(e)
            break
        smp.append(G.snap_point(p))
        if len(raw) < 40:
            raw.append([round(v, 9) for v in p])
    o["samples"] = smp
    o["raw"] = raw
    o["rejected"] = rejected
    if sexc:
        o["sample_exc"] = sexc
    return o


def plane_ok_idx(descs, dz=0):
    """Probes lying in the plane of every planar operand (the harness only asks containsPoint
    there; the mask that decides what is compared comes from TLC)."""
    idx = []
    for q, p in enumerate(_PROBES):
        if all((not G.is_planar(d)) or p[2] + dz == G.z_of(d) for d in descs):
            idx.append(q)
    return idx


def _init_worker():
    global _CAT, _PROBES, _DISTIDX
    if _CAT is None:
        _CAT = full_catalogue()[0]
        _PROBES = G.probe_grid()
        _DISTIDX = dist_idx(len(_PROBES))


def dist_idx(n):
    return list(range(3, n, 41))


def run_prim(r):
    _init_worker()
    signal.signal(signal.SIGALRM, _alarm)
    signal.alarm(120)
    try:
        d = _CAT[r]
        R = G.build(d)
        return {"r": r, "obs": observe_region(R, plane_ok_idx([d]), seed() * 1000003 + r)}
    except _Timeout:
        return {"r": r, "timeout": True}
    finally:
        signal.alarm(0)


def _do_pair(out, A, B, da, db, key, dz=0):
    """The three operations + intersects + containsRegion of the real objects A, B."""
    for name, fn in (("intersects", lambda: bool(A.intersects(B))), ("containsRegion", lambda: bool(A.containsRegion(B)))):
        try:
            out[name] = fn()
        except RecursionError as e:
            out[name] = {"exc": "RecursionError", "cls": "crash", "msg": str(e)[:100]}
        except _Timeout:
            raise
        except Exception as e:
            out[name] = _exc(e)
    cpi = plane_ok_idx([da, db], dz)
    for k, (op, meth) in enumerate(OPS):
        try:
            R = getattr(A, meth)(B)
        except RecursionError as e:
            out["ops"][op] = {"status": "crash", "exc": "RecursionError", "cls": "crash", "msg": str(e)[:100]}
            continue
        except _Timeout:
            raise
        except Exception as e:
            x = _exc(e)
            x["status"] = x["cls"]
            out["ops"][op] = x
            continue
        o = observe_region(R, cpi, seed() * 1000003 + key * 4 + k, dz)
        o["status"] = "ok"
        out["ops"][op] = o


def run_pair(ab):
    """One ordered pair of FRESH objects on the real code."""
    a, b = ab
    _init_worker()
    signal.signal(signal.SIGALRM, _alarm)
    out = {"a": a, "b": b, "ops": {}}
    da, db = _CAT[a], _CAT[b]
    try:
        signal.alarm(180)
        _do_pair(out, G.build(da), G.build(db), da, db, a * 64 + b)
    except _Timeout:
        out["timeout"] = True
    finally:
        signal.alarm(0)
    return out


# ------------------------------------------------------------------ histories (Reuse layer of RegionAlg.tla)
# (reused region, side of the reused object, [(other region, dz in real units), ...]): ONE real object
# of the reused region takes part in all steps, the other operand is built afresh for every step,
# translated by dz along z.  One history at least per cache found in regions.py:
#   PolygonalFootprintRegion._bounded_cache (approxBoundFootprint: prism cached with its z range),
#   PolygonalRegion.footprint (cached footprint object and, through it, the same prism cache),
#   MeshVolumeRegion.intersect (cached_method), mesh / _fclData / _interiorPoint / _bodyCount /
#   num_samples / circumcircle / boundingPolygon (cached properties), Region.containsRegion
#   (cached_method), PolygonalRegion._samplingData + prepared shapely geometry, the polygons of
#   discs and sectors, PathRegion.AABB / size, PointSetRegion kd-tree and size.
HISTORIES = [
    ("F1", "B", [("V1", 0), ("V1", 300), ("V1", -300), ("V1", 0)]),
    ("F1", "A", [("V2", 300), ("V2", 0), ("V2", 450)]),
    ("F2", "B", [("V3", 0), ("V3", 300), ("V3", 150)]),
    ("F1", "A", [("T1", 0), ("T1", 250), ("T1", -250)]),
    ("F1", "B", [("V1", 0), ("V1", -400), ("V2", 260)]),
    # operands that straddle the END of the cached prism (cached from V1 at ground level: about
    # [-249, 251]): a stale reuse truncates the result instead of emptying it
    ("F1", "B", [("V1", 0), ("V1", 249), ("V1", -251)]),
    ("F1", "B", [("V1", 0), ("VT", 250), ("VT", -250)]),
    ("F1", "A", [("V2", 0), ("VT", 240)]),
    ("FP1", "B", [("V1", 0), ("V1", 300)]),
    ("V1", "A", [("V2", 0), ("V2", 8), ("V2", 0), ("V3", 0)]),
    ("V1", "B", [("P2", 0), ("P2", 8), ("P1", 0)]),
    ("P2", "A", [("P3", 0), ("P3", 2), ("P3", 0), ("R3", 0)]),
    ("P2", "B", [("R3", 0), ("V1", 0), ("V1", 8)]),
    ("C2", "A", [("R2", 0), ("R2", 2), ("P3", 0)]),
    ("S4", "A", [("P2", 0), ("P3", 0), ("P2", 2)]),
    ("Q1", "A", [("V1", 0), ("V1", 8), ("C1", 0)]),
    ("L1", "A", [("P1", 0), ("V1", 0), ("V1", 8)]),
    ("T1", "B", [("V1", 0), ("V1", 8), ("V2", 0)]),
    ("M3", "A", [("R3", 0), ("R3", 2), ("R3", 0)]),
]


def full_catalogue():
    """The catalogue of RegionAlg: the primitive catalogue, then the regions only used in histories
    (the polygon-owned footprint FP1 and the translated operands).  Returns (catalogue, number of
    primitives, histories as lists of (a, b, dz lattice, reused side))."""
    cat = G.catalogue()
    nprim = len(cat)
    ix = {d["name"]: i for i, d in enumerate(cat)}
    p1 = cat[ix["P1"]]
    fp1 = G.fp("FP1", *[[v / S for v in r] for r in p1["s"]])
    fp1["via_polygon"] = p1["n"][0] / S
    cat.append(fp1)
    ix["FP1"] = len(cat) - 1
    cat.append(G.vol("VT", (-2, 2, -1, 3, -50, 50)))  # a tall box, only used translated in histories
    ix["VT"] = len(cat) - 1
    hists = []
    for reused, side, steps in HISTORIES:
        hs = []
        for other, dzr in steps:
            dz = int(round(dzr * S))
            d = G.shift_z(cat[ix[other]], dz)
            if d["name"] not in ix:
                cat.append(d)
                ix[d["name"]] = len(cat) - 1
            o = ix[d["name"]]
            # probes follow the other operand when it is translated
            hs.append((ix[reused], o, dz, side) if side == "A" else (o, ix[reused], dz, side))
        hists.append(hs)
    return cat, nprim, hists


def run_history(h):
    """One history on the real code: the reused operand is ONE object for all steps."""
    hid, steps = h
    _init_worker()
    signal.signal(signal.SIGALRM, _alarm)
    outs = []
    reused = None
    try:
        signal.alarm(300)
        for k, (a, b, dz, side) in enumerate(steps):
            da, db = _CAT[a], _CAT[b]
            out = {"a": a, "b": b, "ops": {}}
            outs.append(out)
            if reused is None:
                reused = G.build(da if side == "A" else db)
            A = reused if side == "A" else G.build(da)
            B = reused if side == "B" else G.build(db)
            _do_pair(out, A, B, da, db, 5000 + hid * 16 + k, dz)
    except _Timeout:
        if outs:
            outs[-1]["timeout"] = True
        while len(outs) < len(steps):
            outs.append({"timeout": True, "ops": {}})
    finally:
        signal.alarm(0)
    return outs


# ------------------------------------------------------------------ comparing with the spec


def kname(d):
    return d["name"] or d["k"]


def planar_family(d):
    return d["k"] in ("poly", "rect", "circ", "sect")


def wide_sector(d):
    return d["k"] == "sect" and d["n"][5] >= 2


# which observables each named deviation can affect (notes/C16.md); the trigger predicates
# themselves are in RegionAlg.tla (TrigOp / TrigPair / TrigPrim) and arrive in exp["trig"]
KEY_OBS = [
    ("pointset-intersect-crash", {"crash", "sample-crash"}),
    ("containsregion-crash", {"containsRegion-crash"}),
    ("polyline-polygon-ignores-height", {"aabb-empty", "aabb", "aabb-z", "sample-out", "dist", "intersects", "containsRegion", "empty"}),
    ("polygon-op-drops-height", {"height", "aabb-z", "aabb-empty", "dist", "sample-out"}),
    ("sector-wide-angle-polygon", {"containsPoint", "aabb", "dist", "sample-out", "empty", "intersects", "containsRegion"}),
    ("polygon-union-drops-polyline", {"containsPoint", "aabb", "aabb-z", "dist"}),
    ("footprint-union-flattened", {"dist", "height", "aabb-z"}),
    ("pointset-footprint-membership", {"intersects", "sample-out"}),
    ("circle-intersects-3d-centres", {"intersects"}),
    ("containsregion-ignores-height", {"containsRegion"}),
]


def circle_distance_sig(descs, detail):
    """CircularRegion.distanceTo as implemented: for a probe with z == 0 it returns
    max(0, |p - centre|_3D - r) whatever the height of the disc."""
    p = detail.get("probe")
    if p is None or p[2] != 0:
        return False
    for d in descs:
        if d["k"] == "circ" and d["n"][2] != 0:
            c = [v / S for v in d["n"][:3]]
            r = d["n"][3] / S
            impl = max(0.0, math.dist(p, c) - r)
            if abs(impl - detail.get("observed", -1)) < 1e-9:
                return True
    return False


LISTED = None  # keys of property C16 currently listed as known (set in main from KNOWN_FINDINGS.txt)


def known_key_for(trig, descs, what, detail, obs):
    """The key of the named as-implemented deviation that explains the disagreement `what`
    on a case whose trigger set (computed by the spec) is `trig`, or None.  Several deviations can
    be triggered on one case: a key that is still listed as known is preferred over one that has
    been fixed (whose trigger predicate stays in the spec but no longer excuses anything)."""
    cands = list(_matching_keys(trig, descs, what, detail, obs))
    for key in cands:
        if LISTED is None or key in LISTED:
            return key
    return cands[0] if cands else None


def _matching_keys(trig, descs, what, detail, obs):
    if what == "dist" and obs.get("rtype") == "CircularRegion" and circle_distance_sig(descs, detail):
        yield "circle-distance-z"
    for key, whats in KEY_OBS:
        if key not in trig or what not in whats:
            continue
        if key == "polygon-op-drops-height":
            if obs.get("rtype") not in ("PolygonalRegion", "PolylineRegion", "PointSetRegion") or detail.get("observed_z") != 0:
                continue
        if key == "pointset-intersect-crash" and detail.get("exc") not in ("RecursionError", "AttributeError"):
            continue
        if key == "footprint-union-flattened" and obs.get("rtype") != "PolygonalRegion":
            continue
        if key == "containsregion-ignores-height" and not (detail.get("value") is True and detail.get("want") == "no"):
            continue
        yield key


def compare_region(ck, label, descs, op, exp, obs, probes, distidx, replay_base):
    """exp: TLC record (prim or case); obs: observe_region output.  Returns number of comparisons."""
    n = 0
    da, db = descs if len(descs) == 2 else (descs[0], descs[0])

    def bad(what, msg, detail):
        rep = dict(replay_base)
        rep.update({"what": what, "detail": detail, "expected_height": exp["h"], "expected_aabb": exp["bb"],
                    "observed": {k: v for k, v in obs.items() if k not in ("cp", "samples")}})
        ck.violation(f"{label}: {msg}", rep, known_key=known_key_for(exp.get("trig", []), descs, what, detail, obs))

    bits = exp["bits"]
    ok = exp.get("ok")
    bd = exp.get("bd")
    # containsPoint on the probes the spec allows
    mism = []
    for q, v in obs["cp"].items():
        q = int(q)
        allowed = (ok[q] == 1) if ok is not None else (bd[q] == 0)
        if not allowed:
            continue
        n += 1
        if v != (bits[q] == 1):
            mism.append(q)
    if mism:
        q = mism[0]
        bad("containsPoint", f"containsPoint differs from set semantics on {len(mism)} probes, e.g. {[c / S for c in probes[q]]}: "
            f"expected {bits[q] == 1}, observed {obs['cp'].get(q, obs['cp'].get(str(q)))}",
            {"probes": [[c / S for c in probes[q]] for q in mism[:10]], "count": len(mism)})
    if "cp_exc" in obs and obs["cp_exc"]["cls"] == "crash":
        bad("crash", f"containsPoint raised {obs['cp_exc']['exc']}: {obs['cp_exc']['msg']}", obs["cp_exc"])
    h = exp["h"]
    members = [q for q in range(len(bits)) if bits[q] == 1]
    # emptiness
    if obs["empty"] and members and any((ok[q] if ok is not None else 1) for q in members):
        bad("empty", "result is EmptyRegion although the composed set has members", {"member_probe": [c / S for c in probes[members[0]]]})
    # height of planar results
    if "z" in obs and not isinstance(obs["z"], dict):
        n += 1
        if h["t"] == "z" and abs(obs["z"] - h["v"] / S) > TOL:
            bad("height", f"planar result at z={obs['z']}, the composed set lies at z={h['v'] / S}", {"observed_z": obs["z"], "expected_z": h["v"] / S})
    # AABB
    bb = exp["bb"]
    ab = obs["aabb"]
    if isinstance(ab, dict):
        if ab["cls"] == "crash":
            bad("crash", f"AABB raised {ab['exc']}: {ab['msg']}", ab)
    else:
        n += 1
        lo, hi = ab
        if not bb["e"]:
            if not obs["empty"]:
                bad("aabb-empty", f"AABB {ab} reported for a composed set that is empty", {"observed_z": lo[2]})
        else:
            e = bb["b"]
            exact = bb["x"]
            for c in range(3):
                elo, ehi = e[2 * c] / S, e[2 * c + 1] / S
                unb = e[2 * c] <= -G_INF or e[2 * c + 1] >= G_INF
                if unb:
                    continue
                tol = 1e-6
                wrong = None
                if exact:
                    if abs(lo[c] - elo) > tol or abs(hi[c] - ehi) > tol:
                        wrong = f"expected [{elo}, {ehi}]"
                else:
                    if lo[c] < elo - tol or hi[c] > ehi + tol:
                        wrong = f"expected within [{elo}, {ehi}]"
                    else:
                        for q in members:
                            v = probes[q][c] / S
                            if v < lo[c] - tol or v > hi[c] + tol:
                                wrong = f"member probe {[x / S for x in probes[q]]} outside"
                                break
                if wrong:
                    bad("aabb-z" if c == 2 else "aabb", f"AABB axis {'xyz'[c]} = [{lo[c]}, {hi[c]}], {wrong}", {"axis": c, "observed": [lo[c], hi[c]], "observed_z": lo[2]})
                    break
    # size of the result where the spec states it
    if exp.get("meas", -1) >= 0 and isinstance(obs.get("size"), float):
        n += 1
        dim = exp["dim"] if "dim" in exp else (2 if bb["b"][4] == bb["b"][5] else 3)
        want = exp["meas"] / S**dim
        if abs(obs["size"] - want) > 1e-6 * max(1.0, want):
            bad("size", f"size = {obs['size']}, the composed set has measure {want}", {"observed": obs["size"], "expected": want})
    # distanceTo
    ds = obs["dist"]
    if isinstance(ds, dict):
        if ds["cls"] == "crash":
            bad("crash", f"distanceTo raised {ds['exc']}: {ds['msg']}", ds)
    else:
        for k, q in enumerate(distidx):
            d = ds[k]
            e = exp["dist"][k]
            p = [c / S for c in probes[q]]
            on_bd = (ok[q] == 0 and False) if ok is not None else (bd[q] == 1)
            if on_bd:
                continue
            n += 1
            msg = None
            if e["x"] >= 0:
                want = math.inf if e["x"] >= 1000000 else math.sqrt(e["x"]) / S
                if not (d == want or abs(d - want) <= TOL):
                    msg = f"expected {want}"
            elif len(e["c"]) == 3:
                D2, r, dz = e["c"]
                want = math.hypot(max(0.0, math.sqrt(D2) - r) / S, dz / S)
                if abs(d - want) > 2e-3 * r / S + TOL:
                    msg = f"expected {want} (disc)"
            if msg is None:
                lbv = math.sqrt(e["lb"]) / S if e["lb"] < 1000000 else math.inf
                if d < lbv - 1e-3 - TOL:
                    msg = f"below the lower bound {lbv}"
                elif bits[q] == 1 and (ok is None or ok[q] == 1) and d > 1e-3:
                    msg = "positive on a member"
                elif bits[q] == 0 and d <= 1e-9 and (ok is None or ok[q] == 1 or (all_volume(descs) and not exp.get("coplanar"))):
                    msg = "zero on a non-member"
            if msg:
                oz = None
                if "z" in obs and not isinstance(obs["z"], dict):
                    oz = obs["z"]
                elif isinstance(obs["aabb"], list) and obs["aabb"][0][2] == obs["aabb"][1][2]:
                    oz = obs["aabb"][0][2]  # flat result without a z attribute (polyline, point set)
                bad("dist", f"distanceTo({p}) = {d}, {msg}", {"probe": p, "observed": d, "expected": e, "observed_z": oz})
                break
    # samples (classified by TLC)
    if "sample_exc" in obs:
        if obs["sample_exc"]["cls"] == "crash":
            bad("sample-crash", f"sampling raised {obs['sample_exc']['exc']}: {obs['sample_exc']['msg']}", obs["sample_exc"])
    cls = exp.get("smp", [])
    outs = [k for k, c in enumerate(cls) if c == "out"]
    n += len(cls)
    if outs:
        k = outs[0]
        raw = obs["raw"][k] if k < len(obs["raw"]) else None
        bad("sample-out", f"{len(outs)} of {len(cls)} samples are not members of the composed set, e.g. {raw}",
            {"sample": raw, "snapped": obs["samples"][k], "count": len(outs), "observed_z": raw[2] if raw else None})
    return n, len(cls), sum(1 for c in cls if c == "mixed")


G_INF = 4000


def all_volume(descs):
    return all(not planar_family(d) for d in descs)


def choose_pairs(tier, ncat):
    allp = [(a, b) for a in range(ncat) for b in range(ncat)]
    if tier != "quick":
        return allp
    cat = G.catalogue()
    core = []
    seen = {}
    for i, d in enumerate(cat):
        seen[d["k"]] = seen.get(d["k"], 0) + 1
        # one instance per kind at z != 0 where the kind has one, the first two for planar kinds
        if seen[d["k"]] <= (2 if d["k"] in ("poly", "sect") else 1):
            core.append(i)
    cs = set(core)
    rng = random.Random(seed() * 7919 + 16)
    rest = [p for p in allp if not (p[0] in cs and p[1] in cs)]
    rng.shuffle(rest)
    # always: the meshes whose cross-sections have holes against planar regions / footprints at
    # heights through the hole, through the solid part and outside, both dispatch orders
    names = {d["name"]: i for i, d in enumerate(cat)}
    forced = set()
    for w in ("W1", "W2"):
        for o in ("P2", "H1", "H2", "R2", "C2", "S4", "F1", "P1", "R1", "C1", "P3", "M3"):
            forced.add((names[w], names[o]))
            forced.add((names[o], names[w]))
    core_pairs = [p for p in allp if p[0] in cs and p[1] in cs]
    extra = [p for p in sorted(forced) if p not in set(core_pairs)]
    rest = [p for p in rest if p not in forced]
    return core_pairs + extra + sorted(rest[:260])


_DUMP = []


class _Ck(Check):
    def violation(self, key, replay, known_key=None):
        if os.environ.get("VERIF_DUMP"):
            _DUMP.append({"msg": key, "what": replay.get("what"), "A": (replay.get("A") or replay.get("region") or {}).get("name"),
                          "B": (replay.get("B") or {}).get("name"), "op": replay.get("op"), "known": known_key})
        return super().violation(key, replay, known_key=known_key)

    def finish(self):
        if os.environ.get("VERIF_DUMP"):
            with open(os.environ["VERIF_DUMP"], "w") as f:
                json.dump(_DUMP, f, indent=1)
        return super().finish()


def main(tier):
    global LISTED
    ck = _Ck("C16", tier, "model_checking")
    LISTED = set(ck.findings.known)
    ck.cov["rule"] = (
        "a case is (ordered pair of catalogue regions, operation) or one primitive region; all cases are non-trivial "
        "unless both operands are everywhere/nowhere; distinct by (names, operation)"
    )
    ck.assumptions += [
        "lattice sub-universe: axis-parallel boxes / rectilinear polygons (holes) / rectangles with headings multiple of 90 deg / "
        "discs / sectors of 90,180,270 deg with headings multiple of 45 deg / axis-parallel polylines and paths / point sets / "
        "footprints / everywhere / nowhere; planar kinds at heights 0 and 2",
        "containsPoint composition laws compared only on probes in the plane of every planar operand and clear of boundaries",
        "discs and sectors are polygon approximations in the library: probes keep a margin, samples in the cell band next to an arc are 'mixed' (not judged)",
        "exceptions NotImplementedError / UndefinedSamplingException / explicitly raised TypeError, ValueError, RuntimeError are accepted refusals",
        "the descriptor -> (TLA+ record, real region) printer pair gen_regions.to_tla / build is trusted glue",
    ]
    cat, nprim, hists = full_catalogue()
    probes = G.probe_grid()
    distidx = dist_idx(len(probes))
    pairs = choose_pairs(tier, nprim)
    only = os.environ.get("VERIF_C16_ONLY")  # development aid (mutation scripts): restrict to these region names
    if only:
        names = set(only.split(","))
        pairs = [(a, b) for a in range(nprim) for b in range(nprim) if cat[a]["name"] in names and cat[b]["name"] in names]
        hists = []
    # every entry: (a, b, dz, history id or 0, step, reused side)
    entries = [(a, b, 0, 0, 0, "") for a, b in pairs]
    for hid, hs in enumerate(hists):
        for k, (a, b, dz, side) in enumerate(hs):
            entries.append((a, b, dz, hid + 1, k + 1, side))

    def tl_entry(e, si=(), su=(), sd=()):
        return {"a": e[0] + 1, "b": e[1] + 1, "dz": e[2], "hid": e[3], "step": e[4], "si": list(si), "su": list(su), "sd": list(sd)}

    # the laws and the expectations do not depend on the real code: TLC checks them while the real
    # regions are being exercised; the samples are classified by a second, small TLC run
    lpath = os.path.join(scratch(), "c16laws.json")
    base = {"cat": [G.to_tla(c) for c in cat], "nprim": nprim, "probes": probes, "distidx": [q + 1 for q in distidx]}
    with open(lpath, "w") as f:
        json.dump(dict(base, run="laws", pairs=[tl_entry(e) for e in entries]), f)
    box = {}

    def _laws():
        try:
            box["res"] = run_tlc("RegionAlg", CFG, env={"CASES": lpath}, coverage=True, timeout=3000, workers=10)
        except BaseException as e:  # re-raised in the main thread
            box["err"] = e

    import threading

    th = threading.Thread(target=_laws)
    th.start()
    cache = os.environ.get("VERIF_C16_CACHE")  # development aid only: reuse the observations of the real code
    if cache and os.path.exists(cache):
        import pickle

        prim_obs, pair_obs = pickle.load(open(cache, "rb"))
    else:
        prim_obs = pmap(run_prim, list(range(nprim)))
        pair_obs = pmap(run_pair, pairs, chunk=4)
        for outs in pmap(run_history, list(enumerate(hists)), chunk=1):
            pair_obs.extend(outs)
        if cache:
            import pickle

            pickle.dump((prim_obs, pair_obs), open(cache, "wb"))

    ck.cov["wall_real_code_s"] = round(time.time() - ck.t0, 1)
    # ---- TLC: laws + expectations + classification of the samples
    tl_pairs = []
    for e, po in zip(entries, pair_obs):
        smp = {}
        for op, key in (("inter", "si"), ("union", "su"), ("diff", "sd")):
            o = po["ops"].get(op, {})
            smp[key] = o.get("samples", []) if o.get("status") == "ok" else []
        tl_pairs.append(tl_entry(e, **smp))
    data = dict(base, run="samples", pairs=tl_pairs)
    path = os.path.join(scratch(), "c16cases.json")
    with open(path, "w") as f:
        json.dump(data, f)
    sres = run_tlc("RegionAlg", CFG, env={"CASES": path}, coverage=True, timeout=3000, workers=8)
    th.join()
    if "err" in box:
        raise box["err"]
    res = box["res"]
    ck.add_tlc("RegionAlg (laws and expectations)", res)
    ck.add_tlc("RegionAlg (classification of samples)", sres)
    for act in ("PickPrim", "PickPair", "Compose"):
        if res.coverage.get(act, (0, 0))[1] == 0:
            raise MachineryError(f"RegionAlg action never taken: {act}")
    if sres.coverage.get("PickSmp", (0, 0))[1] == 0:
        raise MachineryError("RegionAlg action never taken: PickSmp")
    prim_exp, pair_exp, case_exp, smp_exp = {}, {}, {}, {}
    for o in sres.outputs:
        if o["t"] == "smp":
            smp_exp[(o["p"] - 1, o["op"])] = o["smp"]
    for o in res.outputs:
        if o["t"] == "prim":
            prim_exp[o["r"] - 1] = o
        elif o["t"] == "pair":
            pair_exp[o["p"] - 1] = o
        else:
            case_exp[(o["p"] - 1, o["op"])] = o
    for key, o in case_exp.items():
        o["smp"] = smp_exp.get(key, [])
    if len(prim_exp) != nprim or len(pair_exp) != len(entries) or len(case_exp) != 3 * len(entries):
        raise MachineryError("TLC did not print every case")

    nsamples = nmixed = touching = 0
    refused = {}
    # ---- primitives
    for r, po in enumerate(prim_obs):
        d = cat[r]
        ck.case(("prim", kname(d)), d["k"] not in ("all", "empty"))
        if po.get("timeout"):
            ck.violation(f"{kname(d)}: timeout observing a primitive region", {"property": "C16", "region": d})
            continue
        n, ns, nm = compare_region(ck, kname(d), [d], "prim", dict(prim_exp[r], smp=[]), po["obs"], probes, distidx,
                                   {"property": "C16", "region": d})
        ck.validated(1)
    # ---- pairs
    nhist_steps = 0
    for pi, ((a, b, dz, hid, step, side), po) in enumerate(zip(entries, pair_obs)):
        da, db = cat[a], cat[b]
        trivial = da["k"] in ("all", "empty") and db["k"] in ("all", "empty")
        base = {"property": "C16", "A": da, "B": db}
        hnote = ""
        pprobes = probes
        if hid:
            nhist_steps += 1
            reused = da if side == "A" else db
            hnote = f" [history {hid} step {step}: the {kname(reused)} object is reused from the previous steps]"
            base["history"] = {"id": hid, "step": step, "reused": kname(reused),
                               "steps": [f"{kname(cat[x])} , {kname(cat[y])}" for x, y, _d, _s in hists[hid - 1][:step]]}
            pprobes = [[p[0], p[1], p[2] + dz] for p in probes]
        if po.get("timeout"):
            ck.violation(f"{kname(da)},{kname(db)}: timeout", base)
            continue
        pe = pair_exp[pi]
        ix = "yes" if pe["ixgeom"] in ("touch", "unknown") and pe["sh"] else pe["ixgeom"]
        for name, want in (("intersects", ix), ("containsRegion", pe["cr"])):
            ck.case((name, kname(da), kname(db), hid, step), not trivial)
            v = po.get(name)
            if isinstance(v, dict):
                if v["cls"] == "crash":
                    ck.violation(f"{kname(da)}.{name}({kname(db)}){hnote} crashed with {v['exc']}: {v['msg']}",
                                 dict(base, what=name + "-crash", observed=v), known_key=known_key_for(pe["trig"], [da, db], name + "-crash", v, {}))
                else:
                    refused[name] = refused.get(name, 0) + 1
                continue
            if want in ("yes", "no") and v != (want == "yes"):
                ck.violation(f"{kname(da)}.{name}({kname(db)}){hnote} = {v}, the sets say {want}",
                             dict(base, what=name, observed=v, expected=want),
                             known_key=known_key_for(pe["trig"], [da, db], name, {"value": v, "want": want}, {}))
            else:
                ck.validated(1)
        for op, meth in OPS:
            ck.case((op, kname(da), kname(db), hid, step), not trivial)
            o = po["ops"].get(op)
            label = f"{kname(da)}.{meth}({kname(db)}){hnote}"
            rb = dict(base, op=meth)
            if o["status"] == "crash":
                ck.violation(f"{label} crashed with {o['exc']}: {o['msg']}", dict(rb, what="crash", observed=o),
                             known_key=known_key_for(case_exp[(pi, op)]["trig"], [da, db], "crash", o, o))
                continue
            if o["status"] in ("refused", "rejected"):
                refused[op] = refused.get(op, 0) + 1
                continue
            if op == "inter" and ix == "touch":
                # the operands share boundary points only: whatever degenerate result (nowhere, a
                # polyline, a point set) the library builds is a don't-care
                touching += 1
                continue
            n, ns, nm = compare_region(ck, label, [da, db], op, case_exp[(pi, op)], o, pprobes, distidx, rb)
            nsamples += ns
            nmixed += nm
            ck.validated(1)
            ck.sample({"case": label, "result_type": o["rtype"], "expected_height": case_exp[(pi, op)]["h"],
                       "samples_classified": ns, "first_sample": (o["raw"] or [None])[0]}, limit=6)
    ck.cov["pairs"] = len(pairs)
    ck.cov["histories"] = len(hists)
    ck.cov["history_steps"] = nhist_steps
    ck.cov["probes"] = len(probes)
    ck.cov["samples_classified_by_tlc"] = nsamples
    ck.cov["samples_mixed_not_judged"] = nmixed
    ck.cov["refused_operations"] = refused
    ck.cov["touching_intersections_not_judged"] = touching
    ck.cov["exhaustive"] = tier != "quick"
    ck.cov["explanation"] = (
        "TLC checks the laws on every probe for every selected ordered pair and operation; thorough = all ordered pairs of the "
        "catalogue, quick = all pairs of a core (one or two instances per kind) plus the holed-mesh pairs and 260 seeded other pairs"
    )
    return ck.finish()


if __name__ == "__main__":
    sys.exit(main(sys.argv[1] if len(sys.argv) > 1 else "quick"))
