"""C17 -- visibility respects the view volume and occlusion.

Spec: spec/Visibility.tla over spec/lib/Lat3.tla.  TLC enumerates scene templates x relative cube
rotations x viewer orientations (24 cube rotations + Pythagorean yaws) x viewer parameters (position
away from the origin, camera offset, visibleDistance, view angles) x occluder prefixes, checks the
frame lemmas / clause consistency / monotonicity, and prints for every state the expected answer
(TRUE / FALSE / free), the as-implemented deviation and the world poses of all bodies.

Binding (M1 replay): the harness builds the real Point / OrientedPoint / Object instances (3D and 2D
compatibility classes) at the printed poses and compares `viewer.canSee(target, occludingObjects=..)`
for every occluder prefix, `viewer.visibleRegion.containsPoint(target)`, and -- for a sample -- the
`can see` operator inside a compiled Scenic program (`require ego can see tgt`)."""

import json
import math
import os
import random
import sys
import time

from common import Check, MachineryError, pmap, run_tlc, scratch, seed
import lat3
from lat3 import q, qv

KEY_ROT = "point-viewer-rotation-order"
KEY_SECTOR = "sector-polygon-wide-angle"
KEY_PRADIUS = "point-visible-region-radius"

CFG = """SPECIFICATION Spec
INVARIANT TypeOK
INVARIANT WellFormed
INVARIANT FrameLemmas
INVARIANT ClausesConsistent
INVARIANT PointBoxCoherent
INVARIANT ForwardSeen
INVARIANT DeviationScoped
INVARIANT Emit
PROPERTY Monotone
CHECK_DEADLOCK FALSE
"""

# ------------------------------------------------------------------ generator (units; camera frame)


def body(p, half, e=(0, 0, 0)):
    return {"p": qv(p), "e": list(e), "h": qv(half)}


def tpl(kind, p, half=(0.5, 0.5, 0.5), e=(0, 0, 0), occ=(), name="", dens=0):
    """dens: viewRayDensity override for this template (fully occluded object targets are tested
    with every ray, so they get a coarse ray grid; the demanded answer does not depend on it)"""
    return {"tk": kind, "tp": qv(p), "te": list(e), "th": qv(half), "occ": list(occ), "name": name, "dens": dens}


def templates3d(tier):
    wall = body((0, 4, 0), (0.5, 3, 3), (1, 0, 0))  # yaw 90: spans x in [-3,3], y in [3.5,4.5]
    beyond = body((0.5, 10.5, 0), (1, 1, 1))
    side = body((-3, 4, 0), (1, 1, 1), (0, 1, 0))
    behind = body((0, -3, 0), (2, 1, 2))
    far = body((0, 11, 0), (4, 0.5, 4), (0, 0, 1))
    small_on_line = body((1.0, 3.25, 0.5), (0.5, 0.5, 0.5), (1, 1, 0))
    T = [
        # points, no occluder: probes of the distance and of the angular windows
        tpl("pt", (0.25, 5.5, 0.75), name="ahead"),
        tpl("pt", (3.25, 4.5, 0.25), name="ahead-right inside 90"),
        tpl("pt", (5.25, 4.5, -0.75), name="outside 90 inside 180"),
        tpl("pt", (4.25, -1.5, 0.25), name="outside 180 inside 270"),
        tpl("pt", (1.25, -5.5, 0.5), name="behind"),
        tpl("pt", (0.75, 3.25, 4.5), name="steep: altitude > 45"),
        tpl("pt", (0.5, 4.25, 3.5), name="altitude < 45"),
        tpl("pt", (0.25, 9.75, 0.5), name="between the two distances"),
        tpl("pt", (0.25, 13.5, 1.25), name="too far"),
        tpl("pt", (-6.75, 6.25, -1.5), name="left, near the 90 edge, between the distances"),
        # points with occluders (added one at a time)
        tpl("pt", (1.25, 7.5, 0.25), occ=[wall, beyond], name="wall between, then a box beyond"),
        tpl("pt", (0.25, 7.5, 0.25), occ=[beyond, wall], name="box beyond the target, then a wall"),
        tpl("pt", (2.25, 6.5, 1.25), occ=[side, small_on_line], name="box beside, then a small box on the line"),
        tpl("pt", (0.25, 3.5, 0.25), occ=[behind, far], name="occluder behind the camera, then one beyond the target"),
        tpl("pt", (0.25, 6.5, 0.25), occ=[far, wall], name="far occluder, then a wall between"),
        # boxes
        tpl("box", (0, 6, 0), (1, 1, 1), name="box ahead"),
        tpl("box", (0, 6, 0), (0.5, 0.75, 0.25), (1, 0, 0), occ=[body((0, 3, 0), (6, 0.5, 6)), beyond], name="box ahead, walled off", dens=1),
        tpl("box", (0, 6, 0), (0.75, 0.5, 0.25), (0, 1, 0), occ=[body((0, 10, 0), (2, 1, 2)), body((0, 3, 0), (0.5, 6, 6), (1, 0, 0))], name="box ahead, box beyond, then a wall", dens=1),
        tpl("box", (0, 14, 0), (1, 1, 1), name="box beyond both distances"),
        tpl("box", (0.5, 10.5, 0), (1, 1, 1), name="box between the distances"),
        tpl("box", (0, 2, 7), (1, 1, 1), name="box high above"),
        tpl("box", (5, 5, 0), (1.5, 1.5, 1), name="box straddling the 90 edge"),
        tpl("box", (0, 6, 0), (2, 1, 1), occ=[body((-1, 3, 0), (0.5, 0.5, 1))], name="box partly hidden"),
        tpl("box", (3, 5, 1), (1, 0.5, 1.5), (1, 1, 0), occ=[behind], name="rotated box ahead-right, occluder behind the camera"),
        # large / elongated occluders whose CENTRE is outside the visible distance (and outside a 90 degree
        # cone) while part of the body crosses the sight line well inside it
        tpl("pt", (0.25, 7.5, 0.25), occ=[body((14, 4, 0), (16, 0.5, 3))], name="long wall across the sight line, centre far to the right"),
        tpl("pt", (0.25, 5.5, 0.75), occ=[body((0, 3, 15), (16, 3, 0.5), (0, 1, 0)), beyond], name="tall slab across the sight line, centre far above"),
        tpl("pt", (4.25, 3.5, 0.25), occ=[body((1.5, -14, 0), (20, 0.5, 3), (1, 0, 0))], name="long wall mostly behind the viewer, target beyond its front end"),
        tpl("pt", (0.25, 5.5, 0.25), occ=[body((0, 11.5, 0), (4, 5, 4)), body((-13, 3, 0), (16, 0.5, 3))], name="thick slab containing the far range boundary (target in front), then a long wall from the left"),
        tpl("box", (0, 6, 0), (0.5, 0.75, 0.25), (1, 0, 0), occ=[body((-14, 3, 0), (0.5, 16, 6), (1, 0, 0))], name="box walled off by a long wall, centre far to the left", dens=1),
        # elongated TARGETS: the near end is in range but outside the angular window, the part inside the window is out of range
        tpl("box", (6.5, 6.5, 0), (0.25, 7.5, 0.25), name="long bar to the right: near end outside a 90 window, the rest beyond distance 8"),
        tpl("box", (0, 6.5, 6.5), (7.5, 0.25, 0.25), (1, 0, 0), name="long bar overhead: near end above a 90 vertical window, the rest beyond distance 8"),
    ]
    if tier == "thorough":
        T += [
            tpl("pt", (-2.25, 5.25, -2.75), occ=[body((-1, 2.5, -1.5), (1, 0.5, 1))], name="oblique sight line through a box"),
            tpl("pt", (-2.25, 5.25, -2.75), occ=[body((1.5, 2.5, -1.5), (1, 0.5, 1))], name="oblique sight line beside a box"),
            tpl("box", (0, 3, 0), (4, 0.5, 1), name="wide box close ahead"),
            tpl("box", (0, 0.5, 0), (2, 2, 2), name="box containing the camera"),
            tpl("box", (-4.5, 4, 2), (1, 1, 1), (0, 0, 1), occ=[body((-2, 2, 1), (2, 0.5, 2), (1, 0, 0))], name="box up-left behind a turned wall", dens=1),
            tpl("box", (-4, 4, 2), (1, 1, 1), (0, 0, 1), occ=[body((-2, 2, 1), (2, 0.5, 2), (1, 0, 0))], name="box touching the 90 edge behind a turned wall", dens=1),
        ]
    return T


QS3 = [(0, 0, 0), (1, 0, 0), (2, 0, 0), (3, 0, 0), (0, 1, 0), (0, 3, 0), (0, 0, 1), (1, 1, 0)]

PYTH_R3 = [
    {"yq": [3, 4, 5], "e": [0, 0, 0]},
    {"yq": [-4, -3, 5], "e": [0, 1, 0]},
    {"yq": [3, -4, 5], "e": [1, 0, 1]},
    {"yq": [5, 12, 13], "e": [0, 0, 0]},
    {"yq": [12, -5, 13], "e": [0, 3, 0]},
]


def vp(kind, pos, d, h, v, cam=(0, 0, 0), dens=None):
    return {"vk": kind, "pos": qv(pos), "cam": qv(cam), "d": q(d), "h": h, "v": v, "dens": dens or 0}


VPS3 = [
    vp("O", (7, -6, 4), 8, 90, 90, cam=(0.5, 1, 0.5)),
    vp("O", (-7, 5, -3), 12, 270, 90, dens=2),
    vp("OP", (6, 7, 2), 8, 180, 180),
    vp("OP", (-5, -4, 6), 12, 90, 180, dens=2),
    vp("O", (3, -8, 5), 12, 360, 90, cam=(-1, 0.5, 1), dens=2),
    vp("O", (-4, 6, 3), 8, 360, 180, cam=(0, 1.5, 0)),
    vp("P", (4, 7, -2), 8, 360, 180),
    vp("O", (5, 3, -6), 8, 180, 90, cam=(0.5, 0, -0.5), dens=2),
    vp("OP", (-6, -7, 2), 12, 270, 180),
]


def rotations3d(tier, rng):
    cube = [{"yq": [1, 0, 1], "e": list(e)} for e in lat3.EULER_CANON]
    ident, rest = cube[0], cube[1:]
    if tier == "quick":
        rng.shuffle(rest)
        rest = rest[:4]
        pyth = rng.sample(PYTH_R3, 2)
    else:
        pyth = PYTH_R3
    return [ident] + rest + pyth


def templates2d():
    wall = body((0, 4, 0), (0.5, 3, 3), (1, 0, 0))
    beyond = body((0.5, 10.5, 0), (1, 1, 1))
    return [
        tpl("pt", (0.25, 5.5, 0), name="2D ahead"),
        tpl("pt", (3.25, 4.5, 0), name="2D inside 90"),
        tpl("pt", (5.25, 4.5, 0), name="2D outside 90 inside 180"),
        tpl("pt", (4.25, -1.5, 0), name="2D outside 180 inside 270"),
        tpl("pt", (1.25, -5.5, 0), name="2D behind"),
        tpl("pt", (0.25, 9.75, 0), name="2D between the distances"),
        tpl("pt", (0.25, 13.5, 0), name="2D too far"),
        tpl("pt", (1.25, 7.5, 0), occ=[wall, beyond], name="2D wall between"),
        tpl("pt", (0.25, 7.5, 0), occ=[beyond, wall], name="2D box beyond, then wall"),
        tpl("box", (0, 6, 0), (1, 1, 1), name="2D box ahead"),
        tpl("box", (0, 6, 0), (1, 1.5, 1.5), (1, 0, 0), occ=[body((0, 3, 0), (6, 0.5, 6)), beyond], name="2D box walled off", dens=1),
        tpl("box", (0, 14, 0), (1, 1, 1), name="2D box too far"),
        tpl("box", (5, 5, 0), (1.5, 1.5, 1.5), name="2D box straddling the 90 edge"),
        tpl("box", (0.5, 10.5, 0), (1, 1, 1), name="2D box between the distances"),
        tpl("pt", (0.25, 7.5, 0), occ=[body((14, 4, 0), (16, 0.5, 16))], name="2D long wall across the sight line, centre far to the right"),
    ]


QS2 = [(0, 0, 0), (1, 0, 0), (2, 0, 0), (3, 0, 0)]
RS2 = [{"yq": [1, 0, 1], "e": [k, 0, 0]} for k in range(4)] + [
    {"yq": [3, 4, 5], "e": [0, 0, 0]},
    {"yq": [-4, -3, 5], "e": [1, 0, 0]},
    {"yq": [12, -5, 13], "e": [0, 0, 0]},
]
VPS2 = [
    vp("O", (7, -6, 0), 8, 90, 180, cam=(0.5, 1, 0)),
    vp("O", (-7, 5, 0), 12, 270, 180),
    vp("OP", (6, 7, 0), 8, 180, 180),
    vp("O", (3, -8, 0), 12, 360, 180, cam=(-1, 0.5, 0)),
    vp("P", (4, 7, 0), 8, 360, 180),
    vp("OP", (-5, -4, 0), 12, 90, 180),
]


def build_batches(tier):
    rng = random.Random(seed() * 104729 + 17)
    qs3 = list(QS3)
    if tier == "quick":  # identity plus four of the seven other relative rotations
        rest = qs3[1:]
        rng.shuffle(rest)
        qs3 = [qs3[0]] + sorted(rest[:4])
    b3 = {"mode": "3D", "tpls": templates3d(tier), "qs": [list(x) for x in qs3], "rs": rotations3d(tier, rng), "vps": VPS3}
    rs2, qs2 = list(RS2), list(QS2)
    if tier == "quick":  # identity, two other quarter-turn yaws, two Pythagorean yaws; three relative rotations
        rs2 = [RS2[0]] + rng.sample(RS2[1:4], 2) + rng.sample(RS2[4:], 2)
        qs2 = [QS2[0]] + sorted(rng.sample(QS2[1:], 2))
    b2 = {"mode": "2D", "tpls": templates2d(), "qs": [list(x) for x in qs2], "rs": rs2, "vps": VPS2}
    return [b3, b2]


# ------------------------------------------------------------------ binding to the real code


def _classes(mode):
    from scenic.core import object_types as ot

    if mode == "2D":
        return ot.Point2D, ot.OrientedPoint2D, ot.Object2D
    return ot.Point, ot.OrientedPoint, ot.Object


def make_viewer(batch, vpar, rpar, dens=0):
    from scenic.core.vectors import Vector

    if dens:
        vpar = dict(vpar, dens=dens)

    P, OP, O = _classes(batch["mode"])
    pos = Vector(*lat3.unscale(vpar["pos"], lat3.SCALE))
    d = vpar["d"] / lat3.SCALE
    kw = {"position": pos, "visibleDistance": d}
    if vpar["dens"]:
        kw["viewRayDensity"] = vpar["dens"]
    if vpar["vk"] == "P":
        return P._with(**kw)
    yaw, pitch, roll = lat3.euler_rad(rpar["yq"], rpar["e"])
    kw.update(yaw=yaw, pitch=pitch, roll=roll)
    if batch["mode"] == "2D":
        kw["viewAngle"] = lat3.deg(vpar["h"])
    else:
        kw["viewAngles"] = (lat3.deg(vpar["h"]), lat3.deg(vpar["v"]))
    if vpar["vk"] == "OP":
        return OP._with(**kw)
    kw["cameraOffset"] = Vector(*lat3.unscale(vpar["cam"], lat3.SCALE))
    return O._with(**kw)


def make_body(batch, pose, yq, den):
    """pose = [p (scale 4*den), e (quarter turns after the yaw yq), h (half dims, scale 4)]"""
    from scenic.core.vectors import Vector

    _P, _OP, O = _classes(batch["mode"])
    pos = Vector(*lat3.unscale(pose["p"], lat3.SCALE * den))
    yaw, pitch, roll = lat3.euler_rad(yq, pose["e"])
    w, l, h = (2 * x / lat3.SCALE for x in pose["h"])
    kw = dict(position=pos, yaw=yaw, pitch=pitch, roll=roll, width=w, length=l)
    if batch["mode"] != "2D":
        kw["height"] = h
    return O._with(**kw)


def scenic_text(batch, case, form="require"):
    """A Scenic program that rebuilds the case (used for the `can see` operator and for replays).
    form "require": `require viewer can see tgt`;
    form "specifier" (Object targets): the target is declared `visible from viewer` / `not visible from viewer`
    according to the spec's answer with all occluders present, AFTER a far-away dummy object that is itself
    declared `not visible from viewer` -- the default visibility requirements of every such object must
    see every occluding object of the scene, whatever the declaration order; the scene must be accepted."""
    vpar, rpar = batch["vps"][case["c"][3] - 1], batch["rs"][case["c"][2] - 1]
    den = case["den"]

    def vec(p, s):
        return "(" + ", ".join(repr(c / s) for c in p) + ")"

    def ang(yq, e):
        return "(" + ", ".join(repr(a) for a in lat3.euler_rad(yq, e)) + ")"

    def obj(name, pose):
        w, l, h = (2 * x / lat3.SCALE for x in pose["h"])
        return (f"{name} = new Object at {vec(pose['p'], lat3.SCALE * den)}, facing {ang(rpar['yq'], pose['e'])}, "
                f"with width {w}, with length {l}, with height {h}, with allowCollisions True, with requireVisible False")

    lines = []
    if form == "specifier":
        lines.append("workspace = Workspace(BoxRegion(dimensions=(4000, 4000, 4000)))")
    va = f"({lat3.deg(vpar['h'])!r}, {lat3.deg(vpar['v'])!r})"
    common_v = f"with visibleDistance {vpar['d'] / lat3.SCALE}, with allowCollisions True, with requireVisible False"
    dens = batch["tpls"][case["c"][0] - 1]["dens"] or vpar["dens"]
    if dens:
        common_v += f", with viewRayDensity {dens}"
    if vpar["vk"] == "O":
        lines.append(f"ego = new Object at {vec(vpar['pos'], lat3.SCALE)}, facing {ang(rpar['yq'], rpar['e'])}, with viewAngles {va}, "
                     f"with cameraOffset {vec(vpar['cam'], lat3.SCALE)}, {common_v}")
        lines.append("viewer = ego")
    else:
        lines.append("ego = new Object at (1000, 1000, 1000), with allowCollisions True, with requireVisible False")
        if vpar["vk"] == "OP":
            lines.append(f"viewer = new OrientedPoint at {vec(vpar['pos'], lat3.SCALE)}, facing {ang(rpar['yq'], rpar['e'])}, "
                         f"with viewAngles {va}, with visibleDistance {vpar['d'] / lat3.SCALE}")
        else:
            lines.append(f"viewer = new Point at {vec(vpar['pos'], lat3.SCALE)}, with visibleDistance {vpar['d'] / lat3.SCALE}")
    tp = batch["tpls"][case["c"][0] - 1]
    if form == "specifier":
        lines.append("dummy = new Object at (1500, 1500, 1500), not visible from viewer, with occluding False, with allowCollisions True, with requireVisible False")
        how = "visible from viewer" if case["ans"][-1] == "T" else "not visible from viewer"
        lines.append(obj("tgt", case["tgt"]) + ", " + how)
    elif tp["tk"] == "pt":
        lines.append(f"tgt = {vec(case['tgt']['p'], lat3.SCALE * den)}")
    else:
        lines.append(obj("tgt", case["tgt"]))
    for j, o in enumerate(case["occ"]):
        lines.append(obj(f"occ{j + 1}", o))
    if form == "require":
        lines.append("require viewer can see tgt")
    return "\n".join(lines) + "\n"


def replay_cases(item):
    """Worker: build the real objects of each case and observe canSee for every occluder prefix."""
    batch, cases = item
    import warnings

    warnings.filterwarnings("ignore")
    from scenic.core.vectors import Vector

    P, _OP, _O = _classes(batch["mode"])
    out = []
    viewers = {}
    for case in cases:
        t, _qi, r, v = case["c"]
        vpar, rpar, tp = batch["vps"][v - 1], batch["rs"][r - 1], batch["tpls"][t - 1]
        den = case["den"]
        res = {"c": case["c"], "obs": [], "vr": None, "err": None, "kerr": {}, "cam_ok": True, "ms": 0.0}
        t0 = time.time()
        try:
            viewer = viewers.get((r, v, tp["dens"]))
            if viewer is None:  # one real viewer per (orientation, parameters): its visibleRegion mesh is built once
                viewer = viewers[(r, v, tp["dens"])] = make_viewer(batch, vpar, rpar, tp["dens"])
            # the camera position the spec placed the template at (position + orientation * cameraOffset)
            if vpar["vk"] == "O":
                cam = viewer.position.offsetLocally(viewer.orientation, viewer.cameraOffset)
            else:
                cam = viewer.position
            res["cam_ok"] = lat3.vec_close(cam, case["cam"], lat3.SCALE * den)
            if tp["tk"] == "pt":
                tv = Vector(*lat3.unscale(case["tgt"]["p"], lat3.SCALE * den))
                # alternate between the three documented target kinds for a position
                target = tv if (t + r) % 2 == 0 else P._with(position=tv)
            else:
                target = make_body(batch, case["tgt"], rpar["yq"], den)
                tv = None
            occs = [make_body(batch, o, rpar["yq"], den) for o in case["occ"]]
            for kk in range(len(occs) + 1):
                try:
                    res["obs"].append(bool(viewer.canSee(target, occludingObjects=tuple(occs[:kk]))))
                except Exception as e:
                    res["obs"].append(None)
                    res["kerr"][kk] = f"{type(e).__name__}: {e}"
            if tv is not None:
                res["vr"] = bool(viewer.visibleRegion.containsPoint(tv))
        except Exception as e:  # the spec says every generated case is well formed
            import traceback

            res["err"] = f"{type(e).__name__}: {e}\n{traceback.format_exc()[-800:]}"
        res["ms"] = round((time.time() - t0) * 1000, 1)
        out.append(res)
    return out


def operator_cases(item):
    """Worker: the `can see` operator inside a compiled program, all occluders present."""
    batch, cases = item
    import warnings

    warnings.filterwarnings("ignore")
    import scenic
    from scenic.core.distributions import RejectionException

    out = []
    for case in cases:
        text = scenic_text(batch, case, case.get("form", "require"))
        try:
            sc = scenic.scenarioFromString(text, mode2D=False)
            try:
                sc.generate(maxIterations=1, verbosity=0)
                obs = True
            except RejectionException:
                obs = False
            out.append({"c": case["c"], "obs": obs, "err": None})
        except Exception as e:
            out.append({"c": case["c"], "obs": None, "err": f"{type(e).__name__}: {e}"})
    return out


# ------------------------------------------------------------------ main


def tri(b):
    return "T" if b else "F"


def main(tier):
    ck = Check("C17", tier, "model_checking")
    ck.cov["rule"] = (
        "a case = (scene template, relative cube rotation Q, viewer orientation R, viewer parameters) x occluder prefix; "
        "non-trivial = the spec demands an answer (not free) and the viewer is rotated or displaced from the origin; "
        "distinct by (template, Q, R, viewer, k)"
    )
    ck.assumptions += [
        "sub-universe: quarter-lattice scenes, cube-group rotations plus Pythagorean yaws (3/5,4/5), (5/13,12/13); box-shaped targets and occluders",
        "view angles from {90,180,270,360} x {90,180}; boundaries (window edges, exactly visibleDistance, grazing sight lines) are free",
        "object targets: three clauses only (wholly outside / walled off by one box / wholly inside with nothing near the sight cone); everything else free",
        "visibleRegion.containsPoint is only demanded with a 25% margin on curved faces (the region is a mesh approximation, documented)",
        "harness glue trusted: scaling by 4*den and (cos,sin,den)+quarter turns -> radians (harness/lat3.py)",
    ]
    batches = build_batches(tier)
    all_cases = []  # (batch index, case dict with per-k answers)
    from concurrent.futures import ThreadPoolExecutor

    def tlc_job(bi):
        path = os.path.join(scratch(), f"vis{bi}.json")
        with open(path, "w") as f:
            json.dump({k: batches[bi][k] for k in ("tpls", "qs", "rs", "vps", "mode")}, f)
        return run_tlc("Visibility", CFG, env={"VIS": path}, coverage=(bi == 0), timeout=1500, workers=(11 if bi == 0 else 5))

    scratch()  # create the scratch directory before the threads start
    with ThreadPoolExecutor(len(batches)) as ex:
        tlc_results = list(ex.map(tlc_job, range(len(batches))))
    for bi, res in enumerate(tlc_results):
        b = batches[bi]
        ck.add_tlc(f"Visibility[{b['mode']}]", res)
        for act in ("Place", "Judge", "AddOccluder"):
            if bi == 0 and res.coverage.get(act, (0, 0))[1] == 0:
                raise MachineryError(f"Visibility.tla: action {act} never taken (vacuous model)")
        by = {}
        for o in res.outputs:
            by.setdefault(tuple(o["c"]), {})[o["k"]] = o
        for c, ks in sorted(by.items()):
            n = len(batches[bi]["tpls"][c[0] - 1]["occ"])
            if sorted(ks) != list(range(n + 1)):
                raise MachineryError(f"TLC output incomplete for case {c}: {sorted(ks)}")
            base = ks[0]
            all_cases.append((bi, {
                "c": list(c), "den": base["den"], "tgt": base["tgt"], "occ": list(base["occ"]), "cam": base["cam"],
                "vr": base["vr"], "vri": base["vri"], "edge": base["edge"],
                "ans": [ks[i]["ans"] for i in range(n + 1)], "impl": [ks[i]["impl"] for i in range(n + 1)],
                "dev": [ks[i]["dev"] for i in range(n + 1)],
            }))
    if not all_cases:
        raise MachineryError("no cases")
    if os.environ.get("VERIF_C17_SAVE"):  # for the throw-away mutant scripts: reuse TLC's output
        with open(os.environ["VERIF_C17_SAVE"], "w") as f:
            json.dump({"batches": batches, "cases": all_cases}, f)

    # ---- replay budget: every point case; box cases sampled in the quick tier
    rng = random.Random(seed() * 7919 + 3)
    chosen = []
    dropped_budget = 0
    for bi, case in all_cases:
        tp = batches[bi]["tpls"][case["c"][0] - 1]
        if tier == "quick" and tp["tk"] == "box" and batches[bi]["mode"] == "3D" and rng.random() > 0.4:
            dropped_budget += 1
            continue
        chosen.append((bi, case))
    ck.cov["cases_enumerated_by_tlc"] = len(all_cases)
    ck.cov["cases_replayed"] = len(chosen)
    ck.cov["box_cases_not_replayed_quick_budget"] = dropped_budget

    chunks = []
    for bi in range(len(batches)):
        groups = {}
        for b, c in chosen:
            if b == bi:
                groups.setdefault((c["c"][2], c["c"][3]), []).append(c)  # same real viewer
        for key in sorted(groups):
            cs = groups[key]
            for i in range(0, len(cs), 60):
                chunks.append((batches[bi], cs[i : i + 60]))
    rng.shuffle(chunks)
    results = pmap(replay_cases, chunks, chunk=1)
    index = {}
    for (b, cs), rs in zip(chunks, results):
        for c, r in zip(cs, rs):
            index[(b["mode"], tuple(c["c"]))] = (b, c, r)

    if os.environ.get("VERIF_C17_DUMP"):
        with open(os.environ["VERIF_C17_DUMP"], "w") as f:
            json.dump([{"mode": b["mode"], "case": c, "res": r, "name": b["tpls"][c["c"][0] - 1]["name"], "viewer": b["vps"][c["c"][3] - 1],
                        "R": b["rs"][c["c"][2] - 1], "Q": b["qs"][c["c"][1] - 1]} for (b, c, r) in index.values()], f)
    stats = {"T": 0, "F": 0, "free": 0, "vr_checked": 0, "mono_checked": 0, "known": 0, "deviation_trigger_states": 0,
             "exceptions_on_free_cases": 0, "slowest_ms": 0.0}

    def replay_doc(b, c, r, what, kk=None):
        return {
            "property": "C17", "what": what, "mode": b["mode"], "case": c["c"], "k": kk,
            "template": b["tpls"][c["c"][0] - 1], "Q": b["qs"][c["c"][1] - 1], "R": b["rs"][c["c"][2] - 1],
            "viewer": b["vps"][c["c"][3] - 1], "den": c["den"], "target_world": c["tgt"], "occluders_world": c["occ"],
            "expected": c["ans"], "as_implemented": c["impl"], "deviation": c["dev"], "observed": r["obs"], "errors": r["kerr"],
            "visibleRegion_expected": c["vr"], "visibleRegion_as_implemented": c["vri"], "visibleRegion_observed": r["vr"],
            "scenic_program": scenic_text(b, c) if b["mode"] == "3D" else None,
        }

    def known_for(c, kk, obs):
        """the spec's as-implemented deviation explains the observation and its trigger holds"""
        dev, imp = c["dev"][kk], c["impl"][kk]
        return dev if (dev != "none" and imp in ("free", tri(obs))) else None

    for key in sorted(index):
        b, c, r = index[key]
        stats["slowest_ms"] = max(stats["slowest_ms"], r["ms"])
        if r["err"]:
            ck.violation(f"real code raised on a well-formed case {key}: {r['err'].splitlines()[0]}", replay_doc(b, c, r, "exception"))
            continue
        if not r["cam_ok"]:
            raise MachineryError(f"harness glue: camera position differs from the spec's for case {key}")
        rotated = b["rs"][c["c"][2] - 1] != b["rs"][0]
        for kk, (exp, obs) in enumerate(zip(c["ans"], r["obs"])):
            stats[exp] += 1
            if c["dev"][kk] != "none":
                stats["deviation_trigger_states"] += 1
            ck.case((key, kk), nontrivial=(exp != "free" and rotated))
            if obs is None:  # canSee raised
                if exp == "free" or c["edge"]:  # boundary configuration (`assert h_size > 0` when the target only touches a window edge)
                    stats["exceptions_on_free_cases"] += 1
                    continue
                ck.violation(f"canSee raised {r['kerr'].get(kk) or r['kerr'].get(str(kk))} but the spec demands {exp} ({b['mode']} case {key} k={kk})",
                             replay_doc(b, c, r, "exception", kk))
                continue
            if exp == "free" or exp == tri(obs):
                ck.validated()
                continue
            known = known_for(c, kk, obs)
            if known:
                stats["known"] += 1
            ck.violation(
                f"canSee = {obs} but the spec demands {exp} ({b['mode']} case {key} k={kk}: {b['tpls'][c['c'][0]-1]['name']}; viewer {b['vps'][c['c'][3]-1]['vk']})",
                replay_doc(b, c, r, "canSee", kk), known_key=known,
            )
        # monotonicity on the real answers, whatever the spec leaves free
        for kk in range(len(r["obs"]) - 1):
            if r["obs"][kk] is None or r["obs"][kk + 1] is None:
                continue
            stats["mono_checked"] += 1
            if (not r["obs"][kk]) and r["obs"][kk + 1]:
                # only the mis-directed ray of the rotation-order deviation can explain this
                known = KEY_ROT if KEY_ROT in (c["dev"][kk], c["dev"][kk + 1]) else None
                if known:
                    stats["known"] += 1
                ck.violation(f"adding an occluder turned 'not visible' into 'visible' ({b['mode']} case {key} k={kk}->{kk+1})",
                             replay_doc(b, c, r, "monotonicity", kk), known_key=known)
        if r["vr"] is not None and c["vr"] != "free":
            stats["vr_checked"] += 1
            if c["vr"] != tri(r["vr"]):
                known = KEY_PRADIUS if (b["vps"][c["c"][3] - 1]["vk"] == "P" and c["vri"] in ("free", tri(r["vr"]))) else None
                if known:
                    stats["known"] += 1
                ck.violation(f"visibleRegion.containsPoint = {r['vr']} but the spec demands {c['vr']} ({b['mode']} case {key})",
                             replay_doc(b, c, r, "visibleRegion"), known_key=known)
            else:
                ck.validated()
        ck.sample({"mode": b["mode"], "template": b["tpls"][c["c"][0] - 1]["name"], "Q": b["qs"][c["c"][1] - 1], "R": b["rs"][c["c"][2] - 1],
                   "viewer": b["vps"][c["c"][3] - 1], "expected": c["ans"], "observed": r["obs"]}, limit=4)

    # ---- the `can see` operator inside compiled programs (3D), all occluders present
    # (cases whose target touches a window edge are left out: the implementation may assert there, a don't-care)
    ops = [c for bi, c in chosen if batches[bi]["mode"] == "3D" and c["ans"][-1] != "free" and not c["edge"]]
    rng.shuffle(ops)
    ops = ops[: (120 if tier == "quick" else 1500)]
    op_chunks = [(batches[0], ops[i : i + 20]) for i in range(0, len(ops), 20)]
    op_res = pmap(operator_cases, op_chunks, chunk=1)
    nops = 0
    for (b, cs), rs in zip(op_chunks, op_res):
        for c, r in zip(cs, rs):
            nops += 1
            kk = len(c["ans"]) - 1
            exp = c["ans"][kk]
            ck.case(("op", tuple(c["c"])), nontrivial=True)
            if r["err"]:
                ck.violation(f"compiled `can see` program failed: {r['err']}", {"property": "C17", "program": scenic_text(b, c), "error": r["err"]})
                continue
            if exp == tri(r["obs"]):
                ck.validated()
                continue
            known = known_for(c, kk, r["obs"])
            if known:
                stats["known"] += 1
            ck.violation(f"`require viewer can see tgt` gave {r['obs']} but the spec demands {exp} (case {c['c']})",
                         {"property": "C17", "what": "can see operator", "program": scenic_text(b, c), "expected": exp, "observed": r["obs"],
                          "as_implemented": c["impl"][kk], "deviation": c["dev"][kk]}, known_key=known)
    stats["operator_cases"] = nops

    # ---- the visibility requirements built on it: `visible from` / `not visible from` specifiers of a target declared
    # after another entity that also has a visibility specifier; the scene must be accepted (see scenic_text)
    sp = [c for bi, c in chosen if batches[bi]["mode"] == "3D" and batches[bi]["tpls"][c["c"][0] - 1]["tk"] == "box"
          and c["occ"] and c["ans"][-1] != "free" and not c["edge"]]
    rng.shuffle(sp)
    hidden = [c for c in sp if c["ans"][-1] == "F" and c["ans"][0] != "F"]  # hidden BY the occluders: these need them
    others = [c for c in sp if not (c["ans"][-1] == "F" and c["ans"][0] != "F")]
    nh, no = (40, 20) if tier == "quick" else (400, 200)
    sp = [dict(c, form="specifier") for c in hidden[:nh] + others[:no]]
    sp_chunks = [(batches[0], sp[i : i + 10]) for i in range(0, len(sp), 10)]
    sp_res = pmap(operator_cases, sp_chunks, chunk=1)
    nsp = 0
    for (b, cs), rs in zip(sp_chunks, sp_res):
        for c, r in zip(cs, rs):
            nsp += 1
            ck.case(("spec", tuple(c["c"])), nontrivial=True)
            text = scenic_text(b, c, "specifier")
            if r["err"]:
                ck.violation(f"compiled visibility-specifier program failed: {r['err']}", {"property": "C17", "program": text, "error": r["err"]})
            elif r["obs"]:
                ck.validated()
            else:
                want = "visible" if c["ans"][-1] == "T" else "not visible"
                ck.violation(f"a target that is {want} (spec, all occluders present) declared `{want} from viewer` after another entity with a visibility "
                             f"specifier was rejected (case {c['c']}: {b['tpls'][c['c'][0]-1]['name']})",
                             {"property": "C17", "what": "visibility requirement from specifier", "program": text, "expected": "T", "observed": False,
                              "spec_answers_per_occluder_prefix": c["ans"]})
    stats["specifier_requirement_cases"] = nsp
    stats["specifier_requirement_cases_hidden_by_occluders"] = min(nh, len(hidden))
    ck.cov["answers"] = stats
    ck.cov["exhaustive"] = False
    ck.cov["explanation"] = ("TLC exhaustive over the generated cross product (templates x Q x R x viewers x occluder prefixes); "
                             "the quick tier takes a seeded subset of the rotations and replays 40% of the 3D box cases")
    return ck.finish()


def replay(path):
    """./check C17 --replay <file>: re-execute one recorded case on the real code."""
    doc = json.load(open(path))
    print(json.dumps({k: doc.get(k) for k in ("what", "mode", "case", "k", "expected", "as_implemented", "deviation", "observed")}, indent=1))
    if "template" not in doc:  # a `can see` operator case: the program text is the case
        import scenic
        from scenic.core.distributions import RejectionException

        print(doc["program"])
        try:
            scenic.scenarioFromString(doc["program"], mode2D=False).generate(maxIterations=1, verbosity=0)
            obs = True
        except RejectionException:
            obs = False
        print("re-observed `require viewer can see tgt`:", obs, "expected:", doc.get("expected"))
        return 0 if tri(obs) == doc.get("expected") else 1
    b = {"mode": doc["mode"], "tpls": [doc["template"]], "qs": [doc["Q"]], "rs": [doc["R"]], "vps": [doc["viewer"]]}
    case = {"c": [1, 1, 1, 1], "den": doc["den"], "tgt": doc["target_world"], "occ": doc["occluders_world"],
            "cam": None, "ans": doc["expected"], "impl": doc["as_implemented"], "dev": doc["deviation"]}
    case["cam"] = [0, 0, 0]  # the camera is re-derived by the real code; the glue check is not repeated here
    r = replay_cases((b, [case]))[0]
    print("re-observed canSee per occluder prefix:", r["obs"], "errors:", r["kerr"] or r["err"], "visibleRegion:", r["vr"])
    bad = [k for k, (e, o) in enumerate(zip(doc["expected"], r["obs"])) if e != "free" and (o is None or e != tri(o))]
    print("disagreeing prefixes now:", bad)
    if doc.get("scenic_program"):
        print(doc["scenic_program"])
    return 1 if bad else 0


if __name__ == "__main__":
    sys.exit(main(sys.argv[1] if len(sys.argv) > 1 else "quick"))
