"""C18 -- encoded scenes and simulations decode and replay to the same thing.

Specs: spec/Codec.tla (scene encoding: Write / Read over the sample DAG with the `seen` set,
byte-level integer field, faults Truncate(k) / Flip(k, b) / Foreign(reader); invariants
RoundTrip, FieldsExact, OnlySelected, TruncationRefused, CorruptionContained, HeaderGuards,
DeviationExplained) and spec/Replay.tla (recording and replaying run-time draws, divergence
check).  TLC checks the invariants on every (program, sample, fault) and prints per sample the
expected stream and per fault the expected outcome; the harness drives the real
sceneToBytes / sceneFromBytes / simulationToBytes / simulationFromBytes through every one of
them.  Verdict observables: decoded scene == original; refusal class for truncated, foreign
and corrupted data; replayed result == recorded; divergence verdict."""

import io
import json
import os
import signal
import sys
import time

from common import Check, MachineryError, pmap, run_tlc, scratch, seed
import gen_codec
import gen_discrete
import rng as srng

CODEC_CFG = """SPECIFICATION Spec
INVARIANT TypeOK
INVARIANT RoundTrip
INVARIANT FieldsExact
INVARIANT OnlySelected
INVARIANT TruncationRefused
INVARIANT CorruptionContained
INVARIANT HeaderGuards
INVARIANT DomainErrorsRefused
INVARIANT DeviationExplained
INVARIANT EmitRow
INVARIANT EmitDeviation
CHECK_DEADLOCK FALSE
"""

REPLAY_CFG = """SPECIFICATION Spec
INVARIANT TypeOK
INVARIANT ReplayEqual
INVARIANT LongerReplayContinues
INVARIANT DivergenceDetectedBothSigns
INVARIANT StreamConsumed
INVARIANT CutReplay
INVARIANT SubstitutedReplay
INVARIANT DeviationExplained
INVARIANT BaseIndependent
INVARIANT Discriminating
INVARIANT InStep
INVARIANT EmitRun
CHECK_DEADLOCK FALSE
"""

CODE = {0: "scene", 1: "SerializationError", 2: "IndexError"}


class _Timeout(Exception):
    pass


_armed = [False]


def _alarm(_sig, _frm):
    if _armed[0]:  # a stray alarm outside a guarded region is ignored
        _armed[0] = False
        raise _Timeout()


class watchdog:
    """`with watchdog(s):` raises _Timeout inside the block after s seconds (SIGALRM)."""

    def __init__(self, seconds):
        self.seconds = seconds

    def __enter__(self):
        signal.signal(signal.SIGALRM, _alarm)
        _armed[0] = True
        signal.alarm(self.seconds)

    def __exit__(self, *exc):
        _armed[0] = False
        signal.alarm(0)
        return False


def par_map(fn, items, procs=6):
    """common.pmap with a process pool that notices a dead worker (BrokenProcessPool ->
    MachineryError) instead of waiting for ever."""
    import concurrent.futures as cf
    import multiprocessing as mp

    items = list(items)
    if not items:
        return []
    try:
        import scenic  # noqa: F401  (import once in the parent: forked workers share it)
    except Exception:
        pass
    procs = max(1, min(procs, len(items)))
    if procs == 1:
        return [fn(x) for x in items]
    chunk = max(1, len(items) // (procs * 8))
    try:
        with cf.ProcessPoolExecutor(max_workers=procs, mp_context=mp.get_context("fork")) as ex:
            return list(ex.map(fn, items, chunksize=chunk))
    except cf.process.BrokenProcessPool as e:
        raise MachineryError(f"a worker process died: {e}")


WIDE = False  # thorough tier: more representative byte values (kept in step with Codec.tla's FlipVals)


def flip_vals(x):
    base = {0, 255, (x + 1) % 256, (x + 255) % 256, 253, 254}
    if WIDE:
        base |= {252, (x + 128) % 256, 1, 127, 128}
    return sorted(base - {x})


# --------------------------------------------------------------------------- real code: scenes


def canon(v):
    """Comparable rendering of a property / parameter value (None for what cannot be compared)."""
    import numbers

    from scenic.core.vectors import Orientation, Vector

    if isinstance(v, bool) or v is None or isinstance(v, str):
        return v
    if isinstance(v, numbers.Integral):
        return int(v)
    if isinstance(v, numbers.Real):
        return float(v).hex()
    if isinstance(v, Vector):
        return ("V",) + tuple(float(c).hex() for c in v)
    if isinstance(v, Orientation):
        return ("O",) + tuple(float(c).hex() for c in v.q)
    if isinstance(v, (tuple, list)):
        return tuple(canon(x) for x in v)
    if isinstance(v, dict):
        return tuple(sorted((str(k), canon(x)) for k, x in v.items()))
    return ("?", type(v).__name__)


SKIP_PROPS = {"_parentScenario", "mutator", "shape", "behavior"}


def scene_view(scene):
    """Everything the property statement talks about: every global parameter and every
    property of every object."""
    objs = []
    for o in scene.objects:
        objs.append(tuple((p, canon(getattr(o, p))) for p in sorted(o.properties) if p not in SKIP_PROPS))
    return {"params": tuple(sorted((k, canon(v)) for k, v in scene.params.items())), "objects": tuple(objs)}


def real_roots(scenario):
    from scenic.core.distributions import needsSampling
    from scenic.core.object_types import Constructible

    roots, seen = [], set()
    for d in scenario.dependencies:
        cands = list(d._dependencies) if isinstance(d, Constructible) else [d]
        for c in cands:
            if needsSampling(c) and id(c) not in seen:
                seen.add(id(c))
                roots.append(c)
    return roots


KIND_CLASS = {
    "drange": ("DiscreteRange",),
    "wsel": ("DiscreteRange",),
    "mux": ("Options", "MultiplexerDistribution"),
    "tleaf": ("Range", "PointInRegionDistribution"),
}


def map_nodes(scenario, prog):
    """Align the real distribution objects with the node ids of the program constant by walking
    both DAGs in parallel (dependencies in order).  The order of the roots is taken from the
    real Scenario.dependencies (the order of requirement-only values is unspecified, see C15):
    real root i is matched with an unused root of the constant whose sub-DAG has the same shape.
    Returns ({node id: real object}, roots in the real order) or raises ValueError when the
    shapes differ (generator glue, never a verdict)."""
    nodes = prog["nodes"]

    def walk(obj, n, obj_of, node_of):
        while type(obj).__name__ == "TypecheckedDistribution":  # transparent, writes nothing itself
            obj = obj._dist
        if id(obj) in node_of:
            if node_of[id(obj)] != n:
                raise ValueError(f"sharing differs: object of node {node_of[id(obj)]} reached as node {n}")
            return
        if n in obj_of:
            raise ValueError(f"sharing differs: node {n} reached with a second object ({type(obj).__name__})")
        node_of[id(obj)] = n
        obj_of[n] = obj
        nd = nodes[n - 1]
        cls = type(obj).__name__
        want = KIND_CLASS.get(nd["k"])
        if want and cls not in want:
            raise ValueError(f"node {n} kind {nd['k']} vs {cls}")
        if not want and cls in ("DiscreteRange", "Options", "Range"):
            raise ValueError(f"node {n} kind {nd['k']} vs {cls}")
        rdeps = list(obj._conditioned._dependencies)
        sdeps = [a for a in nd["a"] if nodes[a - 1]["k"] != "const"]
        if len(rdeps) != len(sdeps):
            raise ValueError(f"node {n}: {len(rdeps)} real dependencies vs {len(sdeps)}")
        for d, a in zip(rdeps, sdeps):
            walk(d, a, obj_of, node_of)

    rr = real_roots(scenario)
    if len(rr) != len(prog["roots"]):
        raise ValueError(f"{len(rr)} real roots vs {len(prog['roots'])}")

    def assign(i, used, obj_of, node_of):
        if i == len(rr):
            return obj_of, []
        err = None
        for n in prog["roots"]:
            if n in used:
                continue
            o2, n2 = dict(obj_of), dict(node_of)
            try:
                walk(rr[i], n, o2, n2)
                res, order = assign(i + 1, used | {n}, o2, n2)
                return res, [n] + order
            except ValueError as e:
                err = e
        raise err or ValueError("no root matches")

    return assign(0, frozenset(), {}, {})


def enc_value(nd, v):
    """A sampled value of node nd in the representation of Codec.tla."""
    import struct

    if nd["k"] == "tleaf":
        if nd["c"][0] == 8:
            return list(struct.pack("<d", v))
        return list(struct.pack("<ddd", *v))
    return gen_codec.b9(int(v))


def enc_out(v):
    import struct

    from scenic.core.vectors import Vector

    if isinstance(v, Vector):
        return list(struct.pack("<ddd", *v))
    if isinstance(v, float):
        return list(struct.pack("<d", v))
    return gen_codec.b9(int(v))


class Fields:
    """Diagnostic field log: wraps writeValue / readValue on one Serializer instance."""

    def __init__(self, ser):
        self.log = []
        self.ser = ser
        wv, rv = ser.writeValue, ser.readValue

        def writeValue(value, ty):
            p0 = ser.stream.tell()
            wv(value, ty)
            self.log.append(("w", ty.__name__, ser.stream.tell() - p0))

        def readValue(ty):
            p0 = ser.stream.tell()
            try:
                return rv(ty)
            finally:
                self.log.append(("r", ty.__name__, ser.stream.tell() - p0))

        ser.writeValue, ser.readValue = writeValue, readValue


def decode(scenario, data):
    """Outcome class of sceneFromBytes: ('scene', Scene) | ('SerializationError', msg) |
    ('other', exception type name)."""
    from scenic.core.serialization import SerializationError

    try:
        return "scene", scenario.sceneFromBytes(data)
    except SerializationError as e:
        return "SerializationError", str(e)
    except Exception as e:  # anything else escaping is what the property forbids
        return "other", type(e).__name__


def outs_of(scene, outnames):
    out = []
    for kind, nm in outnames:
        v = scene.params[nm] if kind == "param" else getattr(scene.objects[0], nm)
        out.append(v)
    return out


def scene_worker(item):
    try:
        with watchdog(900):  # nothing here runs user-level dynamic code, but never hang the run
            return scene_worker_(item)
    except _Timeout:
        return {"idx": item[0], "dropped": "watchdog: program took more than 900 s", "viol": [], "diag": []}


def scene_worker_(item):
    """One program: every RNG branch of Scenario.generate -> scene -> encode -> decode, every
    truncation point and representative flip of every distinct encoding, foreign decoders."""
    idx, text, prog, cprog, info, rows, devs, opts = item
    import scenic
    from scenic.core.distributions import RejectionException
    from scenic.core.serialization import Serializer


    out = {"idx": idx, "viol": [], "diag": [], "scenes": 0, "encodings": 0, "rows_hit": 0, "faults": 0,
           "trunc_points": 0, "flips": 0, "foreign": 0, "unmatched": 0, "agree": 0, "model_cmp": 0,
           "known_like": 0, "nodes_cmp": 0, "sample": None, "dropped": None, "sweep": 0, "sweep_refused": 0, "sweep_cmp": 0}

    def viol(msg, known=None, **kw):
        d = {"property": "C18", "part": "scene", "program": text, "message": msg}
        d.update(kw)
        out["viol"].append((msg, d, known))

    # the scenario compiled once in the parent (inherited through fork): the same object encodes
    # and decodes, so the order of Scenario.dependencies is the one the spec was given
    sc, obj_of = _SCEN[idx]
    nodes = cprog["nodes"]
    prims = [n for n in sorted(obj_of) if nodes[n - 1]["k"] in ("drange", "wsel", "tleaf")]
    outnames = info["outnames"]
    uv = opts.get("uniform_values")

    def run(_s):
        try:
            scene, _its = sc.generate(maxIterations=1, verbosity=0)
        except RejectionException:
            return None
        return scene

    done = {}  # bytes -> True (fault enumeration done for this encoding)
    hit = set()
    foreign = None
    for scene, _w, _log in srng.explore(run, uniform_values=uv, max_paths=5000):
        if scene is None:
            continue
        out["scenes"] += 1
        try:
            key = tuple(tuple(enc_value(nodes[n - 1], scene.sample[obj_of[n]])) for n in prims)
        except Exception as e:
            out["unmatched"] += 1
            continue
        row = rows.get(key)
        if row is None:
            out["unmatched"] += 1
            if out["unmatched"] == 1:
                out["diag"].append({"what": "sample of the real code without a row in Codec.tla (sampler-level difference, skipped)",
                                    "sample": [[n, gen_codec.from_b9(k) if nodes[n - 1]["k"] != "tleaf" else list(k)] for n, k in zip(prims, key)]})
            continue
        if not row["wf"]:
            continue
        hit.add(row["ai"])
        view0 = scene_view(scene)
        data = sc.sceneToBytes(scene)
        # ---- diagnostic: expected stream (header + body) and field sequence
        exp = bytes(cprog["hdr"] + row["body"])
        if data != exp:
            ser = Serializer()
            fl = Fields(ser)
            ser.writeScene(sc, scene)
            out["diag"].append({"what": "stream differs from Codec.tla", "asg": row["asg"], "expected": exp.hex(),
                                "observed": data.hex(), "fields_expected": row["fields"], "fields_observed": fl.log})
        # ---- (a) round trip through the public API
        stream = io.BytesIO(data)
        cls, s2 = decode(sc, stream)
        if cls != "scene":
            viol(f"round trip refused: {cls} {s2}", asg=row["asg"], data=data.hex())
            continue
        view2 = scene_view(s2)
        if view2 != view0:
            diff = [(a, b) for a, b in zip(view0["params"], view2["params"]) if a != b]
            for oa, ob in zip(view0["objects"], view2["objects"]):
                diff += [(a, b) for a, b in zip(oa, ob) if a != b]
            viol(f"decoded scene differs from the original: {diff[:4]}", asg=row["asg"], data=data.hex(),
                 expected_stream=exp.hex(), fields_expected=row["fields"])
            continue
        if stream.tell() != len(data):
            viol(f"decoder consumed {stream.tell()} of {len(data)} bytes", asg=row["asg"], data=data.hex())
            continue
        # the scene the spec derives for this sample
        # (results of true division / float functions are terms in the spec: compared real vs real above)
        cmp_i = [i for i, n in enumerate(prog["outs"]) if nodes[n - 1]["k"] not in gen_codec.OPAQUE_KINDS]
        o_all = outs_of(s2, outnames)
        o_real = [enc_out(o_all[i]) for i in cmp_i]
        if o_real != [row["outs"][i] for i in cmp_i]:
            viol("decoded parameters / properties differ from the spec's scene for this sample",
                 asg=row["asg"], observed=o_real, expected=row["outs"], data=data.hex())
            continue
        # node level (diagnostic for localisation, verdict when a restored node is wrong)
        for n in row["seen"]:
            o = obj_of.get(n)
            if o is None or nodes[n - 1]["k"] not in ("drange", "wsel", "tleaf"):
                continue
            out["nodes_cmp"] += 1
            if o not in s2.sample or s2.sample[o] != scene.sample[o]:
                viol(f"node {n} not restored", asg=row["asg"], data=data.hex())
        out["agree"] += 1
        if out["sample"] is None:
            out["sample"] = {"program": text.replace(gen_discrete.PRELUDE, ""), "sample": row["asg"],
                             "stream": data.hex(), "fields": row["fields"], "params": repr(scene.params)}
        if data in done:
            continue
        done[data] = True
        out["encodings"] += 1
        dv = devs.get(row["ai"], {})
        tab_t = {t["k"]: t for t in row.get("trunc") or []}
        tab_f = row.get("flips") or []
        # ---- (b) every truncation point
        for k in range(len(data)):
            out["trunc_points"] += 1
            cls, r = decode(sc, data[:k])
            d = dv.get(("trunc", k, 0))
            model = CODE[d["lenient"]] if d else "SerializationError"
            if k in tab_t:
                out["model_cmp"] += 1
                if (cls if cls != "other" else r) not in (CODE[tab_t[k]["lenient"]], CODE[tab_t[k]["strict"]]):
                    out["diag"].append({"what": "outcome explained by neither reader of Codec.tla", "fault": ["trunc", k], "model": tab_t[k], "observed": [cls, str(r)[:80]]})
            if cls == "SerializationError":
                out["faults"] += 1
                continue
            rep = {"data": data.hex(), "truncated_to": k, "observed": cls, "asg": row["asg"]}
            if cls == "scene":
                o_t = [enc_out(v) for v in outs_of(r, outnames)]
                rep["decoded"] = repr(r.params)
                known = None
                # trigger: the spec's as-implemented reader (short reads accepted) accepts this very prefix
                # and yields this very scene
                if d and d["lenient"] == 0 and d["short"] and (not d["exact"] or d["outs"] == o_t):
                    known = "short-read"
                    out["known_like"] += 1
                viol(f"truncated data ({k} of {len(data)} bytes) decoded to a scene instead of being refused", known, **rep)
            else:
                viol(f"truncated data ({k} of {len(data)} bytes) escaped as {r}", None, **rep)
        # ---- (b) representative flips at every byte
        for k in range(len(data)):
            for b in flip_vals(data[k]):
                out["flips"] += 1
                bad = data[:k] + bytes([b]) + data[k + 1:]
                cls, r = decode(sc, bad)
                d = dv.get(("flip", k + 1, b))
                if tab_f:
                    ent = [e for e in tab_f[k] if e[0] == b] if k >= 10 else []
                    if ent:
                        out["model_cmp"] += 1
                        if (cls if cls != "other" else r) not in (CODE[ent[0][2]], CODE[ent[0][1]]):
                            out["diag"].append({"what": "outcome explained by neither reader of Codec.tla", "fault": ["flip", k, b], "model": ent[0], "observed": [cls, str(r)[:80]]})
                if cls == "SerializationError" or (cls == "scene" and k >= 10):
                    out["faults"] += 1
                    continue
                rep = {"data": data.hex(), "flip_at": k, "flip_to": b, "observed": [cls, str(r)[:200]], "asg": row["asg"]}
                if cls == "scene":
                    viol(f"header byte {k} changed to {b} but the data was decoded", None, **rep)
                    continue
                known = None
                # trigger: the as-implemented reader meets an option index outside 0..n-1 on this stream
                if r in ("IndexError", "AssertionError") and d and d["lenient"] == 2 and d["idx"]:
                    known = "corrupt-index-exception"
                    out["known_like"] += 1
                viol(f"corrupted byte {k} -> {b}: decoding failed with {r} instead of SerializationError", known, **rep)
        # ---- (b') programs with restricted-domain operations: EVERY value of every byte of the
        # integer fields and of the sign / exponent bytes of the float fields (thorough: of every
        # body byte); the only outcomes allowed are a scene or SerializationError
        if opts.get("sweep"):
            pos, off = [], 10
            for n, fb in row["fields"]:
                L = len(fb)
                if opts["sweep"] == "all" or nodes[n - 1]["k"] != "tleaf":
                    pos += list(range(off, off + L))
                elif L == 8:
                    pos += [off + 6, off + 7]
                off += L
            tab_s = {e[0]: e[1] for e in row.get("sweep") or []}
            for k in pos:
                for b in range(256):
                    if b == data[k]:
                        continue
                    out["sweep"] += 1
                    cls, r = decode(sc, data[:k] + bytes([b]) + data[k + 1:])
                    if k in tab_s:
                        out["sweep_cmp"] += 1
                        spec = tab_s[k][str(b)] if isinstance(tab_s[k], dict) else tab_s[k][b]  # 0 scene of the program, 1 refused, 3 decodable but outside the support
                        if (spec == 1 and cls == "scene") or (spec == 0 and cls != "scene"):
                            out["diag"].append({"what": "sweep outcome differs from Codec.tla's class", "fault": ["flip", k, b],
                                                "spec": spec, "observed": [cls, str(r)[:80]]})
                    if cls == "scene":
                        out["faults"] += 1
                    elif cls == "SerializationError":
                        out["faults"] += 1
                        out["sweep_refused"] += 1
                    else:
                        viol(f"corrupted byte {k} -> {b}: decoding failed with {r} instead of SerializationError", None,
                             data=data.hex(), flip_at=k, flip_to=b, observed=[cls, str(r)[:200]], asg=row["asg"])
        # ---- (c) foreign decoders: another program, other compile options
        if opts.get("foreign"):
            if foreign is None:
                foreign = []
                variants = [
                    ("different program (one more constant parameter)", text + "\nparam zzq = 1\n", {}, True),
                    ("different program (one more requirement)", text + "\nrequire 1 < 2\n", {}, True),
                    ("2D compatibility mode", text, {"mode2D": True}, True),
                    ("parameter override", text, {"params": {"zzq": 7}}, True),
                    ("same program with a comment", text + "\n# nothing\n", {}, False),
                ]
                for name, t2, kw, refuse in variants:
                    try:
                        foreign.append((name, scenic.scenarioFromString(t2, **({"mode2D": False} | kw)), refuse))
                    except Exception as e:
                        out["diag"].append({"what": "foreign variant does not compile", "variant": name, "error": str(e)[:200]})
            for name, q, refuse in foreign:
                out["foreign"] += 1
                cls, r = decode(q, data)
                if refuse and cls != "SerializationError":
                    viol(f"data decoded by a scenario with {name}: {cls} instead of SerializationError", None,
                         data=data.hex(), reader=name, observed=[cls, str(r)[:200]])
                elif not refuse and (cls != "scene" or scene_view(r) != view0):
                    viol(f"data not decoded by the {name}: {cls}", None, data=data.hex(), reader=name)
                else:
                    out["faults"] += 1
    out["rows_hit"] = len(hit)
    return out


# --------------------------------------------------------------------------- driver


def fill_supports(sc, obj_of, prog, uv):
    """toks of the float / Vector leaves: the values the scripted random.uniform makes them take."""
    from scenic.core.distributions import RejectionException

    leaves = [n for n in obj_of if prog["nodes"][n - 1]["k"] == "tleaf"]
    sup = {n: set() for n in leaves}

    def run(_s):
        try:
            return sc.generate(maxIterations=1, verbosity=0)[0]
        except RejectionException:
            return None

    for scene, _w, _log in srng.explore(run, uniform_values=uv, max_paths=2000):
        if scene is not None:
            for n in leaves:
                sup[n].add(tuple(enc_value(prog["nodes"][n - 1], scene.sample[obj_of[n]])))
    for n in leaves:
        if not sup[n]:
            raise ValueError("empty support")
        prog["nodes"][n - 1]["toks"] = sorted(sup[n])


_SCEN = {}  # program index -> (compiled Scenario, {node id: real object}); filled before forking


def codec_part(ck, tier):
    import struct

    import scenic
    from scenic.core.serialization import Serializer

    global WIDE
    WIDE = tier != "quick"
    t0 = time.time()
    leaves = gen_codec.QUICK_LEAVES if tier == "quick" else gen_codec.BOUNDARY_LEAVES
    nrand = 34 if tier == "quick" else 500
    max_rows = 10 if tier == "quick" else 40
    if os.environ.get("C18_NRAND"):  # debugging / mutant runs: a smaller batch
        nrand = int(os.environ["C18_NRAND"])
        leaves = leaves[: int(os.environ.get("C18_NLEAVES", len(leaves)))]
    cand, dropped = gen_codec.generate(seed() * 104729 + 18, nrand, leaves, max_rows=max_rows)
    cand += gen_codec.typed_programs(tier) + gen_codec.domain_programs(tier)
    if os.environ.get("C18_ONLY_TYPED") == "1":  # debugging aid
        cand = gen_codec.typed_programs(tier) + gen_codec.domain_programs(tier)
    ck.cov["dropped_by_generator"] += dropped

    items, cprogs = [], []
    ver = list(struct.pack("<H", Serializer.sceneFormatVersion()))
    for text, prog, info in cand:
        try:
            sc = scenic.scenarioFromString(text, mode2D=False)
            obj_of, order = map_nodes(sc, prog)
        except Exception as e:  # generator sanity rule: never a verdict
            ck.cov["dropped_by_generator"] += 1
            ck.cov.setdefault("dropped_reasons", []).append(f"{type(e).__name__}: {e}"[:160])
            continue
        prog = dict(prog, roots=order)
        if info.get("typed"):
            try:
                fill_supports(sc, obj_of, prog, info["uniform"])
            except Exception as e:
                ck.cov["dropped_by_generator"] += 1
                ck.cov.setdefault("dropped_reasons", []).append(f"typed support: {type(e).__name__}: {e}"[:160])
                continue
        _SCEN[len(items)] = (sc, obj_of)
        items.append((text, prog, info))
        cprogs.append(gen_codec.to_codec(prog, ver + list(sc.astHash) + list(sc.compileOptions.hash), info))
    ck.cov["programs"] = len(items)
    t1 = time.time()

    rows = [dict() for _ in items]
    devs = [dict() for _ in items]
    nrows = 0
    # for the first programs TLC also prints the complete fault tables of both readers, against
    # which the outcome class of every fault on the real code is compared (diagnostic)
    for cp in cprogs[: 10 if tier == "quick" else 40]:
        cp["tab"] = 1
    B = 400 if tier == "quick" else 150
    bounds = list(range(0, len(items), B)) + [len(items)]
    for base, end in zip(bounds, bounds[1:]):
        path = os.path.join(scratch(), f"codec{base}.json")
        with open(path, "w") as f:
            json.dump(cprogs[base:end], f)
        res = run_tlc("Codec", CODEC_CFG, env={"PROGS": path, "FLIPS": "wide" if WIDE else "rep"},
                      coverage=(base == 0), timeout=2400, heap="4g")
        ck.add_tlc("Codec", res)
        if base == 0:
            need = [("WriteScene",), ("Pass",), ("TruncateAny", "Truncate"), ("FlipAny", "Flip"), ("ForeignAny", "Foreign"), ("Read",)]
            missing = [a[0] for a in need if not any(res.coverage.get(x, (0, 0))[1] for x in a)]
            if missing:
                raise MachineryError(f"Codec actions never taken (vacuous model): {missing}")
        for o in res.outputs:
            i = base + o["pid"] - 1
            if o["t"] == "row":
                key = tuple(tuple(v) for _n, v in o["asg"])
                rows[i][key] = o
                nrows += 1
            else:
                devs[i].setdefault(o["ai"], {})[(o["kind"], o["k"], o["b"])] = o
    ck.cov["spec_samples"] = nrows
    t2 = time.time()

    work = []
    for i, (text, prog, info) in enumerate(items):
        opts = {"foreign": (i % 3 == 0) or tier != "quick", "uniform_values": info.get("uniform"),
                "sweep": ("all" if tier != "quick" else "rep") if info.get("sweep") else None}
        work.append((i, text, prog, cprogs[i], info, rows[i], devs[i], opts))
    results = par_map(scene_worker, work)

    tot = {k: 0 for k in ("scenes", "encodings", "rows_hit", "faults", "trunc_points", "flips", "foreign",
                          "unmatched", "agree", "model_cmp", "nodes_cmp", "sweep", "sweep_refused", "sweep_cmp")}
    ndiag = 0
    for r in results:
        text = items[r["idx"]][0]
        if r["dropped"]:
            ck.cov["dropped_by_generator"] += 1
            ck.cov.setdefault("dropped_reasons", []).append(r["dropped"][:160])
            continue
        for k in tot:
            tot[k] += r[k]
        nontrivial = r["encodings"] >= 2
        ck.case(text, nontrivial)
        for msg, rep, known in r["viol"]:
            ck.violation(msg, rep, known_key=known)
        if r["diag"]:
            ndiag += len(r["diag"])
            for d in r["diag"][:2]:
                if len(ck.cov.setdefault("diagnostic_mismatches", [])) < 10:
                    d["program"] = text.replace(gen_discrete.PRELUDE, "")
                    ck.cov["diagnostic_mismatches"].append(d)
        if r["sample"]:
            ck.sample(r["sample"], limit=3)
        ck.validated(r["agree"] + r["faults"])
    ck.cov["scene_part"] = dict(tot, diagnostic_mismatches=ndiag)
    ck.cov.setdefault("timing_s", {}).update(
        {"codec_compile": round(t1 - t0, 1), "codec_tlc": round(t2 - t1, 1), "codec_real": round(time.time() - t2, 1)})
    if tot["agree"] == 0 or tot["trunc_points"] == 0 or tot["flips"] == 0:
        raise MachineryError("scene part exercised nothing")
    if tot["unmatched"]:
        ck.cov["explanation_unmatched"] = "samples of the real code without a row in Codec.tla (sampler-level difference, C01's business): skipped"


# --------------------------------------------------------------------------- compile options

OPTIONS_CFG = """SPECIFICATION Spec
INVARIANT AcceptIffEqual
INVARIANT OneComponentRefused
INVARIANT KeyNamedOverrideCounts
INVARIANT OrderIrrelevant
INVARIANT Discriminating
INVARIANT DeviationExplained
INVARIANT EmitPair
CHECK_DEADLOCK FALSE
"""

OPTIONS_PROGRAM = """model c18_model_a
param scenario = 'cut_in'
param mode2D = 0
param modelOverride = 'none'
param model = 'm'
param params = 0
param gap = Range(5, 10)
param lane = 1
param flag = 0
scenario Main():
    setup:
        ego = new Object at Range(0, 10) @ 0, with foo Uniform(1, 2, 3)
scenario Other():
    setup:
        ego = new Object at Range(0, 10) @ 1, with foo Uniform(1, 2, 3)
"""


def option_valuations(tier):
    """Compile-option valuations: each differs from the first in exactly one component (mode2D,
    model override, selected scenario, one parameter override), overrides are named both
    ordinarily and like the option keys themselves, with values of several types; plus pairs that
    are the same valuation written differently and 'override named like an option vs the option'."""
    V = []

    def val(mode2D=False, model=None, scenario=None, params=None):
        V.append({"mode2D": mode2D, "model": model, "scenario": scenario, "params": params or {}})

    val()
    val(mode2D=True)
    val(model="c18_model_b")
    val(scenario="Other")
    for v in (6, 7, 6.0, "6", [1], [2]):
        val(params={"gap": v})
    for v in (True, 1, "True"):
        val(params={"flag": v})
    for v in ("cut_in", "merge", "Other"):
        val(params={"scenario": v})
    for v in (1, 2, True):
        val(params={"mode2D": v})
    val(params={"modelOverride": "c18_model_b"})
    val(params={"model": "c18_model_b"})
    val(params={"params": 3})
    val(params={"gap": 6, "lane": 2})
    val(params={"lane": 2, "gap": 6})
    val(mode2D=True, params={"mode2D": True})
    val(scenario="Other", params={"scenario": "Other"})
    if tier != "quick":
        val(model="c18_model_b", params={"modelOverride": "c18_model_b"})
        val(params={"lane": 2})
        val(params={"gap": 6, "lane": 3})
        val(mode2D=True, scenario="Other")
        val(params={"scenario": "merge", "mode2D": 2})
    return V


def options_part(ck, tier):
    """Cross-compatibility matrix of compile options: encode under A, decode under B, for every
    ordered pair; CodecOptions.tla says accept iff A = B as valuations."""
    import random

    import scenic

    t0 = time.time()
    V = option_valuations(tier)

    def ty(x):
        return {bool: "bool", int: "int", float: "float", str: "str"}.get(type(x), "other")

    path = os.path.join(scratch(), "vals.json")
    with open(path, "w") as f:
        json.dump([{"mode2D": int(v["mode2D"]), "model": v["model"] or "", "scenario": v["scenario"] or "Main",
                    "params": [[k, ty(x), str(x)] for k, x in v["params"].items()]} for v in V], f)
    res = run_tlc("CodecOptions", OPTIONS_CFG, env={"VALS": path}, coverage=True, timeout=600, heap="2g")
    ck.add_tlc("CodecOptions", res)
    if not all(res.coverage.get(a, (0, 0))[1] for a in ("Encode", "Decode")):
        raise MachineryError("CodecOptions actions never taken")
    expect = {(o["a"] - 1, o["b"] - 1): o for o in res.outputs}
    if len(expect) != len(V) ** 2:
        raise MachineryError(f"CodecOptions printed {len(expect)} pairs for {len(V)} valuations")

    mdir = os.path.join(scratch(), "models")
    os.makedirs(mdir, exist_ok=True)
    for nm in ("a", "b"):
        with open(os.path.join(mdir, f"c18_model_{nm}.scenic"), "w") as f:
            f.write(f"param fromModel = '{nm}'\n")
    if mdir not in sys.path:
        sys.path.insert(0, mdir)
    scs, scenes, datas = [], [], []
    for v in V:
        kw = {"mode2D": v["mode2D"], "params": dict(v["params"])}
        if v["model"]:
            kw["model"] = v["model"]
        if v["scenario"]:
            kw["scenario"] = v["scenario"]
        sc = scenic.scenarioFromString(OPTIONS_PROGRAM, **kw)
        random.seed(77)
        scene, _ = sc.generate(maxIterations=20)
        scs.append(sc)
        scenes.append(scene)
        datas.append(sc.sceneToBytes(scene))
    n = {"pairs": 0, "accepted": 0, "refused": 0, "one_component": 0, "key_named": 0}
    keys = {"scenario", "mode2D", "modelOverride", "model", "params"}
    for a, va in enumerate(V):
        for b, vb in enumerate(V):
            e = expect[(a, b)]
            n["pairs"] += 1
            cls, r = decode(scs[b], datas[a])
            rep = {"property": "C18", "part": "options", "program": OPTIONS_PROGRAM, "encoded_under": va, "decoded_under": vb,
                   "differ_in": e["diff"], "observed": cls, "data": datas[a].hex()}
            ck.case(("options", a, b), bool(e["diff"]))
            if len(e["diff"]) == 1:
                n["one_component"] += 1
            if set(e["diff"]) & keys:
                n["key_named"] += 1
            if e["accept"]:
                # the same valuation (possibly written in another order / compiled again): same scene
                if cls != "scene" or (va == vb and scene_view(r) != scene_view(scenes[a])):
                    ck.violation(f"data encoded under {va} not decoded under the equal options {vb}: {cls}", rep)
                else:
                    n["accepted"] += 1
                    ck.validated(1)
                continue
            if cls == "SerializationError":
                n["refused"] += 1
                ck.validated(1)
                continue
            known = None
            # trigger: the as-implemented digest (str(value) without the type) cannot tell the two apart
            if cls == "scene" and e["impl"] == 1:
                known = "options-value-type"
            rep["decoded_params"] = repr(getattr(r, "params", r))
            rep["original_params"] = repr(scenes[a].params)
            ck.violation(f"data encoded under compile options {va} was {'decoded' if cls == 'scene' else 'met with ' + str(r)} by a "
                         f"scenario compiled with {vb} (they differ in {e['diff']}) instead of being refused", rep, known_key=known)
    n["valuations"] = len(V)
    ck.cov["options_part"] = n
    ck.sample({"options matrix": {"encoded_under": V[15], "decoded_under": V[16], "expected": "SerializationError"}}, limit=6)
    ck.cov.setdefault("timing_s", {})["options"] = round(time.time() - t0, 1)
    if n["refused"] == 0 or n["accepted"] == 0:
        raise MachineryError("options part exercised nothing")


# --------------------------------------------------------------------------- real code: replays

DRAW_KINDS = {
    # kind: (Scenic expression drawing one value at run time, the values of draw index 0, 1, 2)
    "drange": ("DiscreteRange(0, {hi})", [0, 1, 2]),
    "uniform": ("Uniform({vals})", [3, 5, 7]),
    "discrete": ("Discrete({{{wvals}}})", [4, 6, 8]),
    "range": ("Range(0, 1)", [0.25, 0.5, 0.75]),
}
SCALAR_PROPS = ["yaw", "speed", "pitch", "angularSpeed", "roll"]
VECTOR_PROPS = [("position", 1), ("velocity", 0), ("angularVelocity", 1), ("velocity", 1)]


def replay_program(kind, D, stop):
    expr, vals = DRAW_KINDS[kind]
    vals = vals[:D]
    expr = expr.format(hi=D - 1, vals=", ".join(str(v) for v in vals),
                       wvals=", ".join(f"{v}: {i + 1}" for i, v in enumerate(vals)))
    lines = ["gv = DiscreteRange(1, 2)", "param g = gv", "behavior B():", "    while True:", f"        x = {expr}"]
    if stop >= 0:
        lines += [f"        if x == {vals[stop]}:", "            terminate"]
    lines += ["        take x + gv", "ego = new Object with behavior B", "other = new Object at (10, 0, 0)",
              "record ego.position.x as px", "record final ego.position.x as fx"]
    return "\n".join(lines) + "\n", vals


def uniform_quarters(a, b):
    from fractions import Fraction

    return [(a + (b - a) * q, Fraction(1, 3)) for q in (0.25, 0.5, 0.75)]


def uniform_halves(a, b):
    from fractions import Fraction

    return [(a + (b - a) * q, Fraction(1, 2)) for q in (0.25, 0.5)]


def replay_cases(tier):
    """The configurations given to Replay.tla (TLC adds every sequence of recorded and fresh draws)."""
    cases = []

    def case(**kw):
        c = dict(kind="drange", T=2, T2=2, D=3, stop=2, chk=0, tol4=0, cont=0, pert=[0, "none", [0, 0, 0]], rec=[], cut=-1,
                 prop="", obj=0, base=0, nano=0, sub=[0, 0])
        c.update(kw)
        cases.append(c)

    Ts = (1, 2) if tier == "quick" else (1, 2, 3)
    for kind in DRAW_KINDS:
        for T in Ts:
            for T2 in (T, T + 1):
                for chk in (0, 1):
                    if kind == "range":
                        case(kind=kind, T=T, T2=T2, chk=chk, D=2, stop=-1)
                    else:
                        case(kind=kind, T=T, T2=T2, chk=chk)
    for cut in (0, 1, 2):  # a cut recording (without divergence data every byte is a field)
        case(T=2, T2=3, cut=cut)
    for f in (1, 2):  # a corrupted recording: one recorded draw replaced by another value of its domain
        for v in (0, 1, 2):
            for kind in ("drange", "uniform"):
                case(kind=kind, T=2, T2=2 + (f + v) % 2, sub=[f, v])
    # perturbations around the tolerance, both signs
    n = 0
    scal = {0: [1, -1], 2: [1, -1, 2, -2, 3, -3], 5: [4, -4, 5, -5, 6, -6]}
    vect = {0: [[1, 0, 0], [0, 0, -1]], 2: [[2, 0, 0], [0, -3, 0], [0, 0, 1]], 5: [[3, 4, 0], [-3, -4, 0], [0, 6, 0], [-4, 0, 4]]}
    steps = (0, 1, 2)
    for cont in (0, 1):
        for s_ in steps:
            for tol4 in (0, 2, 5):
                for d in scal[tol4]:
                    props = SCALAR_PROPS if tier != "quick" else [SCALAR_PROPS[n % len(SCALAR_PROPS)]]
                    for pr in props:
                        for ob in ((0, 1) if tier != "quick" else (n % 2,)):
                            case(T=2, T2=2 + cont, D=2, stop=-1, chk=1, tol4=tol4, cont=cont, pert=[s_, "scalar", [d, 0, 0]],
                                 rec=[1, 0], prop=pr, obj=ob)
                    n += 1
                for d in vect[tol4]:
                    props = VECTOR_PROPS if tier != "quick" else [VECTOR_PROPS[n % len(VECTOR_PROPS)]]
                    for pr, ob in props:
                        case(T=2, T2=2 + cont, D=2, stop=-1, chk=1, tol4=tol4, cont=cont, pert=[s_, "vector", d],
                             rec=[1, 0], prop=pr, obj=ob)
                    n += 1
    # the same in units of 1e-9 around recorded values of every magnitude: the criterion is
    # |actual - expected| > tolerance whatever the value (tolerances 0, 1e-8, 0.5; an "ulp" = the
    # neighbouring float, math.nextafter)
    nscal = {0: [[0, 1], [0, -1], [1, 0], [-1, 0]],
             10: [[5, 0], [-5, 0], [11, 0], [-11, 0], [500, 0], [-500, 0], [10, 0], [-10, 0]],
             500000000: [[250000000, 0], [-250000000, 0], [500000000, 0], [-500000000, 0], [500001000, 0], [-500001000, 0],
                         [499999000, 0], [-499999000, 0]]}
    nvect = {0: [[1, 0, 0], [0, 0, -1]], 10: [[3, 4, 0], [-9, -12, 0], [0, 0, 11], [0, -9, 0], [500, 0, 0]]}
    bases = (0, 1, -1, 1000, -1000, 1000000, -1000000)
    for base in bases:
        for tol in (0, 10, 500000000):
            for d in nscal[tol]:
                if tier == "quick" and tol == 500000000 and abs(d[0]) in (250000000, 499999000) and base not in (0, 1000):
                    continue
                props = SCALAR_PROPS if tier != "quick" else [SCALAR_PROPS[n % len(SCALAR_PROPS)]]
                for pr in props:
                    case(T=2, T2=2, D=2, stop=-1, chk=1, tol4=tol, cont=0, pert=[1 + n % 2, "scalar", [d[0], d[1], 0]], rec=[1, 0],
                         prop=pr, obj=n % 2, base=base, nano=1)
                n += 1
        for tol in (0, 10):
            for d in nvect[tol]:
                case(T=2, T2=2, D=2, stop=-1, chk=1, tol4=tol, cont=0, pert=[1 + n % 2, "vector", d], rec=[1, 0],
                     prop="velocity" if tier == "quick" or n % 2 else "angularVelocity", obj=n % 2, base=base, nano=1)
                n += 1
    return cases


_SIMS = {}


def lattice_simulator(pert):
    """A deterministic simulator written in the harness: the ego moves along x by the value of
    its action; at update `s` the property `prop` of object `obj` is reported off by `delta`."""
    from scenic.core.simulators import Simulation, Simulator
    from scenic.core.vectors import Vector

    class LatticeSimulation(Simulation):
        def __init__(self, scene, pert=None, **kw):
            self.pert = pert
            self.pos = {}
            super().__init__(scene, **kw)

        def createObjectInSimulator(self, obj):
            self.pos[obj] = obj.position

        def actionsAreCompatible(self, agent, actions):
            return True

        def executeActions(self, allActions):
            for agent, actions in allActions.items():
                for a in actions:
                    self.pos[agent] = self.pos[agent] + Vector(a, 0, 0)

        def step(self):
            pass

        def getProperties(self, obj, properties):
            vals = dict(position=self.pos[obj], yaw=0.0, pitch=0.0, roll=0.0, velocity=Vector(0, 0, 0),
                        angularVelocity=Vector(0, 0, 0), speed=0.0, angularSpeed=0.0)
            for prop in properties:
                if prop not in vals:
                    vals[prop] = None
            p = self.pert
            if p and self.objects.index(obj) == p["obj"]:
                if p.get("base") is not None:  # the value of this property throughout the run
                    vals[p["prop"]] = p["base"]
                if p.get("actual") is not None and p["s"] == self.currentTime:
                    vals[p["prop"]] = p["actual"]
                if p.get("delta") is not None and p["s"] == self.currentTime:
                    vals[p["prop"]] = vals[p["prop"]] + p["delta"]
            return vals

    class LatticeSimulator(Simulator):
        def createSimulation(self, scene, **kw):
            return LatticeSimulation(scene, pert=pert, **kw)

    return LatticeSimulator()


def realise(case):
    """The perturbation of a case in floating point: (simulator setting of the recording run,
    of the replay run, verdict of |actual - expected| > tolerance evaluated on the very floats the
    code will see).  Units: 1/4, or 1e-9 (nano) with an `ulp` = the neighbouring float."""
    import math
    from fractions import Fraction

    from scenic.core.vectors import Vector

    unit = Fraction(1, 10**9) if case["nano"] else Fraction(1, 4)
    tol = float(case["tol4"] * unit)
    d = case["pert"][2]
    b = float(case["base"])
    if case["pert"][1] == "scalar":
        if case["nano"] or case["base"]:
            base = b
        else:
            base = 0.0
        actual = base + float(d[0] * unit)
        if d[1]:
            actual = math.nextafter(actual, math.inf if d[1] > 0 else -math.inf)
        verdict = abs(actual - base) > tol
    else:
        base = Vector(b, 0.0, 0.0) if case["prop"] != "position" else None
        delta = Vector(float(d[0] * unit), float(d[1] * unit), float(d[2] * unit))
        if base is None:
            return None, {"s": case["pert"][0], "prop": case["prop"], "obj": case["obj"], "delta": delta}, (delta.norm() > tol)
        actual = base + delta
        verdict = (actual - base).norm() > tol
    common_ = {"s": case["pert"][0], "prop": case["prop"], "obj": case["obj"], "base": base}
    return dict(common_, actual=None), dict(common_, actual=actual), verdict


def replay_worker(item):
    """One configuration: every behaviour TLC printed for it is driven through the real
    simulate / simulationToBytes / simulationFromBytes."""
    ci, case, runs = item
    import random
    from fractions import Fraction

    import scenic
    from scenic.core.serialization import SerializationError
    from scenic.core.simulators import DivergenceError, TerminationType
    from scenic.core.vectors import Vector

    out = {"ci": ci, "viol": [], "runs": 0, "agree": 0, "known_like": 0, "model_rec_mismatch": [], "sample": None,
           "diverged": 0, "fresh_runs": 0, "trunc": 0, "rounding": 0, "nano_runs": 0, "second_generation": 0}
    text, vals = replay_program(case["kind"], case["D"], case["stop"])
    if text not in _SIMS:
        _SIMS[text] = scenic.scenarioFromString(text, mode2D=False)
    sc = _SIMS[text]
    uv = uniform_quarters if case["D"] == 3 else uniform_halves
    random.seed(1000 + ci)
    scene, _ = sc.generate(maxIterations=10)
    g = scene.params["g"]
    pert = base_pert = None
    if case["pert"][1] != "none":
        base_pert, pert, float_verdict = realise(case)
    ideal = {}
    impl = {}
    for r in runs:
        key = (tuple(r["rec"]), r["recTerm"], tuple(r["fresh"]))
        (ideal if r["sem"] == "ideal" else impl)[key] = r

    def observe(sim):
        res = sim.result
        acts = [tuple(a.values())[0][0] for a in res.actions]
        idx = [vals.index(a - g) if (a - g) in vals else -1 for a in acts]
        xs = [st[0].x for st in res.trajectory]
        term = {TerminationType.timeLimit: "timeLimit", TerminationType.terminatedByBehavior: "behavior"}.get(
            res.terminationType, str(res.terminationType))
        ok = xs == [sum(acts[:i]) for i in range(len(acts) + 1)]
        ok = ok and list(res.records["px"]) == [(i, x) for i, x in enumerate(xs)] and res.records["fx"] == xs[-1]
        return idx, term, ok

    for key, r in sorted(ideal.items()):
        rec, recTerm, fresh = key
        rec_draws = list(rec) + ([case["stop"]] if recTerm == "behavior" else [])
        if pert and case["chk"] and case["pert"][0] <= len(rec) and r["shouldDiverge"] != float_verdict:
            # |actual - expected| lands on the other side of the tolerance after floating-point
            # rounding (only possible exactly at the boundary): a don't-care, not run
            out["rounding"] += 1
            continue
        out["runs"] += 1
        rep = {"property": "C18", "part": "replay", "program": text, "case": case, "recorded_draws": rec_draws,
               "fresh_draws": list(fresh), "g": g}
        try:
            with watchdog(60), srng.Scripted(prefix=rec_draws, uniform_values=uv) as s1:
                sim1 = lattice_simulator(base_pert).simulate(scene, maxSteps=case["T"], enableDivergenceCheck=bool(case["chk"]))
        except _Timeout:
            out["viol"].append(("recording timed out", rep, None))
            continue
        i1, t1, ok1 = observe(sim1)
        if i1 != list(rec) or t1 != recTerm or not ok1 or len(s1.log) != len(rec_draws):
            out["model_rec_mismatch"].append({"case": case, "rec": rec_draws, "observed": [i1, t1, ok1, len(s1.log)]})
            continue
        data = sc.simulationToBytes(sim1)
        if case["cut"] >= 0:
            nscene = len(sc.sceneToBytes(scene))
            width = 8 if case["kind"] == "range" else 1
            data = data[: nscene + 6 + width * case["cut"]]
        if case.get("sub", [0, 0])[0]:  # recorded draw f (one byte: the value / option index) replaced
            nscene = len(sc.sceneToBytes(scene))
            f_, v_ = case["sub"]
            if f_ <= len(rec_draws):
                k_ = nscene + 6 + f_ - 1
                data = data[:k_] + bytes([v_]) + data[k_ + 1:]
        # ---- replay
        obs = None
        try:
            with watchdog(60), srng.Scripted(prefix=list(fresh), uniform_values=uv) as s2:
                try:
                    sim2 = sc.simulationFromBytes(data, lattice_simulator(pert), maxSteps=case["T2"],
                                                  divergenceTolerance=float(case["tol4"] * (Fraction(1, 10**9) if case["nano"] else Fraction(1, 4))),
                                                  continueAfterDivergence=bool(case["cont"]))
                    i2, t2, ok2 = observe(sim2)
                    obs = {"acts": i2, "term": t2, "consistent": ok2}
                except DivergenceError as e:
                    obs = {"acts": None, "term": "DivergenceError", "consistent": True, "msg": str(e)[:120]}
                except SerializationError as e:
                    obs = {"acts": None, "term": "SerializationError", "consistent": True, "msg": str(e)[:120]}
        except _Timeout:
            out["viol"].append(("replay timed out", rep, None))
            continue
        except Exception as e:
            out["viol"].append((f"replay failed with {type(e).__name__}: {e}", rep, None))
            continue
        drawn = [e[3] for e in s2.log]
        obs["fresh"] = drawn

        def same(r_):
            if r_ is None:
                return False
            if r_["term"] == "DivergenceError":
                return obs["term"] == "DivergenceError"
            return obs["term"] == r_["term"] and obs["acts"] == r_["acts"] and obs["consistent"]

        k2 = (rec, recTerm, tuple(drawn))
        rep["observed"] = obs
        rep["expected"] = {"acts": r["acts"], "term": r["term"], "fresh": r["fresh"]}
        if same(r) and (r["term"] == "DivergenceError" or drawn == list(fresh)):
            out["agree"] += 1
            # second generation: a simulation that was itself a replay is a simulation like any other --
            # encoded and replayed again (same length) it must reproduce itself without drawing anything new
            if (case["cut"] < 0 and not case.get("sub", [0, 0])[0] and not r["shouldDiverge"]
                    and obs["term"] not in ("DivergenceError", "SerializationError")):
                obs3 = None
                try:
                    with watchdog(60), srng.Scripted(prefix=[], uniform_values=uv) as s3:
                        data3 = sc.simulationToBytes(sim2)
                        sim3 = sc.simulationFromBytes(data3, lattice_simulator(pert), maxSteps=case["T2"],
                                                      divergenceTolerance=float(case["tol4"] * (Fraction(1, 10**9) if case["nano"] else Fraction(1, 4))),
                                                      continueAfterDivergence=bool(case["cont"]))
                        i3, t3, ok3 = observe(sim3)
                        obs3 = {"acts": i3, "term": t3, "consistent": ok3, "fresh": [e[3] for e in s3.log]}
                except _Timeout:
                    obs3 = {"term": "timeout"}
                except Exception as e:
                    obs3 = {"term": f"{type(e).__name__}: {e}"[:160]}
                out["second_generation"] = out.get("second_generation", 0) + 1
                if not (obs3.get("acts") == obs["acts"] and obs3.get("term") == obs["term"] and obs3.get("consistent") and obs3.get("fresh") == []):
                    rep2 = dict(rep, second_generation=obs3)
                    out["viol"].append((f"replay of a re-encoded replay differs: first replay {obs}, second {obs3}", rep2, None))
            if r["term"] == "DivergenceError" or (r["shouldDiverge"] and case["cont"]):
                out["diverged"] += 1
            if fresh:
                out["fresh_runs"] += 1
            if case["nano"]:
                out["nano_runs"] += 1
            if out["sample"] is None and (fresh or r["term"] == "DivergenceError"):
                out["sample"] = {"program": text, "case": {k: case[k] for k in ("T", "T2", "chk", "tol4", "cont", "pert", "prop", "obj", "cut", "base", "nano")},
                                 "recorded_draws": rec_draws, "fresh_draws": list(fresh), "replay": obs, "bytes": len(data)}
            continue
        known = None
        # trigger: scalar property, actual - expected < -tolerance (NegativeTrigger in Replay.tla) and the
        # observation is exactly the behaviour of the as-implemented criterion
        if same(impl.get(k2)):
            known = "divergence-negative"
            out["known_like"] += 1
        if r["shouldDiverge"]:
            u_ = "e-9" if case["nano"] else "/4"
            msg = (f"replay with {case['prop']} = {case['base']} off by {case['pert'][2]}{u_} (tolerance {case['tol4']}{u_}) at update "
                   f"{case['pert'][0]}: expected {r['term'] if not case['cont'] else 'the recording to be abandoned'}, observed {obs['term']} {obs['acts']}")
        else:
            msg = f"replay differs from the recording: expected {rep['expected']}, observed {obs}"
        out["viol"].append((msg, rep, known))
    return out


def sim_truncation(ck):
    """Every truncation point of two encoded simulations (with and without divergence data):
    the scene part and the replay header must be refused, later cuts give SerializationError or
    a simulation that starts like the recording; nothing else may escape."""
    import random

    import scenic
    from scenic.core.serialization import SerializationError

    text, vals = replay_program("drange", 3, -1)
    sc = scenic.scenarioFromString(text, mode2D=False)
    random.seed(5)
    scene, _ = sc.generate()
    g = scene.params["g"]
    n = 0
    for chk in (False, True):
        with srng.Scripted(prefix=[2, 0, 1]):
            sim1 = lattice_simulator(None).simulate(scene, maxSteps=1 if chk else 3, enableDivergenceCheck=chk)
        acts1 = [tuple(a.values())[0][0] for a in sim1.result.actions]
        data = sc.simulationToBytes(sim1)
        nscene = len(sc.sceneToBytes(scene))
        for k in range(len(data)):
            n += 1
            rep = {"property": "C18", "part": "simulation truncation", "program": text, "data": data.hex(), "truncated_to": k}
            try:
                with watchdog(60), srng.Scripted(prefix=[]):
                    sim2 = sc.simulationFromBytes(data[:k], lattice_simulator(None), maxSteps=3)
                acts2 = [tuple(a.values())[0][0] for a in sim2.result.actions]
                if k < nscene + 6:
                    ck.violation(f"simulation data truncated to {k} bytes (inside the scene / replay header) was replayed", rep)
                else:
                    kept = (k - nscene - 6) if not chk else 0
                    if acts2[:kept] != acts1[:kept]:
                        ck.violation(f"replay of a cut recording does not start like the recording", rep)
                    else:
                        ck.validated(1)
            except SerializationError:
                ck.validated(1)
            except Exception as e:
                ck.violation(f"simulation data truncated to {k} of {len(data)} bytes escaped as {type(e).__name__}: {e}", rep)
        # representative single-byte changes of the replay part (header, recorded draws, recorded
        # dynamic values): a simulation, SerializationError, or -- a recorded dynamic value was
        # changed -- DivergenceError; nothing else may escape
        from scenic.core.simulators import DivergenceError

        span = list(range(nscene, len(data))) if len(data) - nscene <= 80 else \
            list(range(nscene, nscene + 50)) + list(range(len(data) - 30, len(data)))
        for k in span:
            for b in flip_vals(data[k]):
                n += 1
                rep = {"property": "C18", "part": "simulation corruption", "program": text, "data": data.hex(), "flip_at": k, "flip_to": b}
                try:
                    with watchdog(60), srng.Scripted(prefix=[]):
                        sc.simulationFromBytes(data[:k] + bytes([b]) + data[k + 1:], lattice_simulator(None), maxSteps=3)
                    ck.validated(1)
                except (SerializationError, DivergenceError):
                    ck.validated(1)
                except Exception as e:
                    ck.violation(f"simulation data with byte {k} changed to {b} escaped as {type(e).__name__}: {e}", rep)
    return n


def replay_part(ck, tier):
    t0 = time.time()
    cases = replay_cases(tier)
    path = os.path.join(scratch(), "replay_cases.json")
    with open(path, "w") as f:
        json.dump([{k: c[k] for k in ("T", "T2", "D", "stop", "chk", "tol4", "cont", "pert", "rec", "cut", "base", "nano", "sub")} for c in cases], f)
    res = run_tlc("Replay", REPLAY_CFG, env={"CASES": path}, coverage=True, timeout=1200, heap="2g")
    ck.add_tlc("Replay", res)
    need = ["Update", "TimeLimit", "DrawRecorded", "DrawReplayed", "DrawFresh", "StartReplay"]
    missing = [a for a in need if res.coverage.get(a, (0, 0))[1] == 0]
    if missing:
        raise MachineryError(f"Replay actions never taken (vacuous model): {missing}")
    runs = [[] for _ in cases]
    for o in res.outputs:
        runs[o["cid"] - 1].append(o)
    t1 = time.time()
    results = par_map(replay_worker, [(i, c, runs[i]) for i, c in enumerate(cases)])
    tot = {k: 0 for k in ("runs", "agree", "diverged", "fresh_runs", "rounding", "nano_runs", "second_generation")}
    bad_model = []
    for r in results:
        for k in tot:
            tot[k] += r[k]
        bad_model += r["model_rec_mismatch"]
        c = cases[r["ci"]]
        for msg, rep, known in r["viol"]:
            ck.violation(msg, rep, known_key=known)
        ck.case(("replay", json.dumps(c, sort_keys=True)), r["runs"] > 0)
        ck.validated(r["agree"])
        if r["sample"]:
            ck.sample(r["sample"], limit=5)
    if bad_model:
        raise MachineryError(f"Replay.tla does not describe the recording run of the real code: {bad_model[:2]}")
    tot["sim_truncation_points"] = sim_truncation(ck)
    tot["configurations"] = len(cases)
    tot["spec_behaviours"] = len(res.outputs)
    ck.cov["replay_part"] = tot
    ck.cov.setdefault("timing_s", {}).update({"replay_tlc": round(t1 - t0, 1), "replay_real": round(time.time() - t1, 1)})
    if tot["agree"] == 0 or tot["diverged"] == 0 or tot["fresh_runs"] == 0:
        raise MachineryError("replay part exercised nothing")


def replay(path):
    """./check C18 --replay <path>: re-execute exactly one recorded case on the current tree."""
    rep = json.load(open(path))
    print(f"replaying {path}: {rep.get('message', '')}")
    if rep.get("part") == "scene":
        import scenic

        sc = scenic.scenarioFromString(rep["program"], mode2D=False)
        data = bytes.fromhex(rep["data"])
        if "truncated_to" in rep:
            bad, expect = data[: rep["truncated_to"]], "SerializationError"
            print(f"fault: Truncate({rep['truncated_to']}) of {len(data)} bytes; TruncationRefused expects {expect}")
        elif "flip_at" in rep:
            k, b = rep["flip_at"], rep["flip_to"]
            bad, expect = data[:k] + bytes([b]) + data[k + 1:], "scene or SerializationError"
            print(f"fault: Flip({k + 1}, {b}); CorruptionContained expects a {expect}")
        elif "reader" in rep:
            print(f"fault: Foreign reader ({rep['reader']}): re-run the check to rebuild the reader; data = {rep['data']}")
            return 0
        else:
            bad, expect = data, "the original scene (RoundTrip)"
            print(f"no fault; RoundTrip expects {expect}; expected stream {rep.get('expected_stream')}")
        cls, r = decode(sc, bad)
        print(f"observed: {cls} {getattr(r, 'params', r)}")
        return 0 if cls == "SerializationError" else 1
    if rep.get("part") == "replay":
        case = rep["case"]
        cpath = os.path.join(scratch(), "case.json")
        with open(cpath, "w") as f:
            json.dump([dict({k: case.get(k, 0) for k in ("T", "T2", "D", "stop", "chk", "tol4", "cont", "pert", "rec", "cut", "base", "nano")},
                            sub=case.get("sub", [0, 0]))], f)
        res = run_tlc("Replay", REPLAY_CFG, env={"CASES": cpath}, timeout=600)
        runs = [o for o in res.outputs if o["sem"] != "ideal" or (o["rec"] + ([case["stop"]] if o["recTerm"] == "behavior" else []) == rep["recorded_draws"] and o["fresh"] == rep["fresh_draws"])]
        out = replay_worker((0, case, runs))
        for msg, r2, known in out["viol"]:
            print(f"first disagreement: {msg}\n  expected (Replay.tla, action Update / DivergenceDetectedBothSigns): {r2.get('expected')}\n  observed: {r2.get('observed')}"
                  + (f"\n  (matches the as-implemented deviation: known key {known})" if known else ""))
        if not out["viol"]:
            print("no disagreement on the current tree")
        return 1 if out["viol"] else 0
    print(json.dumps(rep, indent=1)[:4000])
    return 0


def main(tier):
    for fn in os.listdir(os.path.join(os.path.dirname(os.path.dirname(os.path.abspath(__file__))), "replays")):
        if fn.startswith("C18-"):  # replays are rewritten by every run
            os.unlink(os.path.join(os.path.dirname(os.path.dirname(os.path.abspath(__file__))), "replays", fn))
    ck = Check("C18", tier, "fault_enumeration")
    ck.cov["rule"] = (
        "scene part: a case is one generated program (boundary core: every width-boundary integer leaf x 8 sharing "
        "shapes; seeded random programs of the finite-discrete fragment, 60% moved onto width boundaries; float / Vector "
        "leaves); every sample of it (all RNG branches) is encoded and decoded, and every distinct encoding is truncated "
        "at EVERY byte and corrupted at every byte with the representative values {00, FF, +-1, FD, FE}; "
        "non-trivial = at least two distinct encodings; distinct by program text.  replay part: a case is one TLC "
        "behaviour of Replay.tla (recorded draws x fresh draws x perturbation), non-trivial = has a run-time draw"
    )
    ck.assumptions += [
        "finite-discrete fragment plus float / Vector leaves with a scripted finite support; mutation, orientations and "
        "pickled values are not generated",
        "header tokens (version, astHash, optionsHash) are opaque to the spec; hash collisions (2^-32) are ignored",
        "flips: representative values per byte, not all 255 (the truncation enumeration is exhaustive)",
        "the printer pair gen_discrete.to_scenic / to_prog and the DAG alignment map_nodes are trusted glue",
        "replay: DummySimulator-like simulator written in the harness; scalar and axis-aligned / Pythagorean vector "
        "perturbations on the quarter lattice so that |actual - expected| is exact in floating point",
    ]
    if os.environ.get("C18_SKIP_CODEC") != "1":
        codec_part(ck, tier)
    options_part(ck, tier)
    if os.environ.get("C18_SKIP_REPLAY") != "1":
        replay_part(ck, tier)
    ck.cov["exhaustive"] = False
    ck.cov["explanation"] = (
        "TLC exhaustive per program over all samples x all truncation points x representative flips x foreign readers; "
        "the real code is driven through every truncation point and the same flips of every distinct encoding"
    )
    return ck.finish()


if __name__ == "__main__":
    sys.exit(main(sys.argv[1] if len(sys.argv) > 1 else "quick"))
