"""C19 — do choose / do shuffle and run-time random values follow the stated probabilities.

Spec: the choose/shuffle/rand part of spec/Dynamics.tla (Enabled, Pick with exact rational
weights, FShuf).  TLC enumerates every random outcome of every case; each terminal behaviour
carries the weights of its picks.  Binding: M1 + completeness — the scripted-RNG DFS driver runs
the real Simulator.simulate once per RNG branch (weights computed from the logged arguments of
random.choices / random.randint); the exact law over (event log, ending) must equal the spec's."""

import json
import sys
from fractions import Fraction

from common import Check, MachineryError, pmap, seed
import c12
import dyn
import gen_dynamic
import rng as srng


def _law_real(item, timeout=30):
    case, text = item
    law = {}
    n = 0
    calls = set()

    def run(_s):
        r = dyn.run_case(case, text, c12._SCRATCH, timeout=timeout)
        if "error" in r:
            return json.dumps({"error": r["error"]})
        return json.dumps([r["events"], r["ending"]])

    try:
        # (script_state: saving and restoring the generator's state is scripted too, so that code which rewinds
        #  the generator and thereby re-uses consumed randomness yields a different joint law)
        for outcome, w, log in srng.explore(run, max_paths=20000, script_state=True):
            n += 1
            law[outcome] = law.get(outcome, Fraction(0)) + w
            for e in log:
                calls.add(e[0])
    except Exception as e:
        return {"error": f"{type(e).__name__}: {e}"}
    return {"law": {k: [v.numerator, v.denominator] for k, v in law.items()}, "branches": n, "calls": sorted(calls)}


def choose_core():
    """Exhaustive small core: choose / shuffle over 2-3 items, list and dict forms, weights 1..3,
    preconditions from a step-indexed table so that enabledness changes between picks."""
    cases = []
    subs = [
        {"pre": ["p1"], "inv": [], "body": [["take", 1], ["log", "s1"]]},
        {"pre": ["p2"], "inv": [], "body": [["take", 2], ["take", 2], ["log", "s2"]]},
        {"pre": [], "inv": ["p3"], "body": [["take", 3], ["log", "s3"]]},
    ]
    weightings = [[1, 1, 1], [1, 2, 3], [3, 1, 1], [2, 2, 1]]
    tables = [
        {"p1": [True], "p2": [True], "p3": [True]},
        {"p1": [True, False, False, True], "p2": [True], "p3": [True]},
        {"p1": [False], "p2": [True], "p3": [True]},
        {"p1": [False, True], "p2": [False, False, True], "p3": [True]},
        {"p1": [False], "p2": [False], "p3": [False]},
        {"p1": [True], "p2": [True, True, False], "p3": [True, False, True, True]},
    ]
    for form in ("choose", "shuffle"):
        for nitems in (2, 3):
            for ws in weightings:
                for tab in tables:
                    items = [[i + 2, ws[i]] for i in range(nitems)]
                    main = [["take", 0], [form, items], ["log", "after"], ["take", 9], [form, items[:2]], ["log", "end"]]
                    t = {"T": [True], "F": [False]}
                    t.update(tab)
                    cases.append({
                        "defs": [{"pre": [], "inv": [], "body": main}] + subs,
                        "agents": [1], "monitors": [], "records": [],
                        "termWhen": [], "termSimWhen": [], "termAfter": [],
                        "maxSteps": 8, "dt": [1, 1], "table": t, "sched": [[1]],
                    })
    # fractional weights (printed as w / wscale): only the ratios matter, whatever the weights sum to
    # (0.5 + 1.5 = 2 items, 0.25 + 0.75 + 2 = 3 items)
    for form in ("choose", "shuffle"):
        for ws, scale in (([1, 3], 2), ([1, 3, 8], 4), ([3, 3, 2], 2), ([1, 1], 2)):
            for tab in tables[:3]:
                items = [[i + 2, ws[i]] for i in range(len(ws))]
                main = [["take", 0], [form, items], ["log", "after"], ["disc", [[10, 1], [20, 3]], "dv"], ["take", 9]]
                t = {"T": [True], "F": [False]}
                t.update(tab)
                cases.append({
                    "defs": [{"pre": [], "inv": [], "body": main}] + subs,
                    "agents": [1], "monitors": [], "records": [],
                    "termWhen": [], "termSimWhen": [], "termAfter": [],
                    "maxSteps": 8, "dt": [1, 1], "table": t, "sched": [[1]], "wscale": scale,
                })
    # run-time random values: two draws must be independent and uniform
    for lo, hi in ((0, 1), (0, 2), (1, 3)):
        main = [["rand", lo, hi, "x"], ["take", 1], ["rand", lo, hi, "y"], ["rand", 0, 1, "z"], ["take", 2]]
        cases.append({
            "defs": [{"pre": [], "inv": [], "body": main}], "agents": [1], "monitors": [], "records": [],
            "termWhen": [], "termSimWhen": [], "termAfter": [], "maxSteps": 3, "dt": [1, 1],
            "table": {"T": [True], "F": [False]}, "sched": [[1]],
        })
    return cases


def compose_core():
    """`do choose` / `do shuffle` over SCENARIOS in a compose block (list and dict forms, preconditions
    from a step-indexed table), and run-time random values drawn in compose blocks and monitors (of
    the top-level scenario and of a sub-scenario)."""
    cases = []
    beh = {"pre": [], "inv": [], "body": [["while", "T", [["take", 1]]]]}
    mon_draw = {"pre": [], "inv": [], "body": [["rand", 0, 1, "m"], ["wait"], ["rand", 1, 3, "n"], ["wait"], ["wait"]]}
    mon_loop = {"pre": [], "inv": [], "body": [["while", "T", [["rand", 0, 1, "k"], ["wait"]]]]}

    def sd(**kw):
        d = {"pre": [], "termWhen": [], "termSimWhen": [], "termAfter": [], "records": [], "monitors": [],
             "hascompose": False, "compose": []}
        d.update(kw)
        return d

    subs = [
        sd(pre=["p1"], hascompose=True, compose=[["log", "s2"], ["wait"], ["log", "s2b"]]),
        sd(pre=["p2"], termAfter=[2, "steps"], records=[["rec", "r3"]]),
        sd(pre=[], hascompose=True, compose=[["log", "s4"], ["rand", 0, 1, "c"], ["wait"]]),
        sd(pre=["p3"], monitors=[2], termAfter=[2, "steps"]),
    ]
    weightings = [[1, 1, 1], [1, 2, 3], [3, 1, 2]]
    tables = [
        {"p1": [True], "p2": [True], "p3": [True]},
        {"p1": [True, False, False, True], "p2": [True], "p3": [True]},
        {"p1": [False], "p2": [True], "p3": [True]},
        {"p1": [False, True], "p2": [False, False, True], "p3": [False]},
        {"p1": [False], "p2": [False], "p3": [False]},
    ]
    for form in ("schoose", "sshuffle"):
        for nitems in (2, 3):
            for ws in weightings:
                for tab in tables:
                    items = [[i + 2, ws[i]] for i in range(nitems)]
                    top = [["log", "a"], [form, items], ["log", "after"], ["wait"], [form, [[2, ws[0]], [4, ws[2]]]], ["log", "end"]]
                    t = {"T": [True], "F": [False]}
                    t.update(tab)
                    sdefs = [sd(hascompose=True, compose=top)] + subs
                    cases.append({
                        "defs": [beh, mon_draw, mon_loop], "agents": [1], "sdefs": sdefs, "top": 1,
                        "monitors": [2], "records": [], "termWhen": [], "termSimWhen": [], "termAfter": [],
                        "maxSteps": 9, "dt": [1, 1], "table": t, "sched": [[1]], "impl": 0,
                    })
    # a monitor that draws, followed in the same step by a behaviour's pick and draws (independence across
    # coroutines), with fractional weights and run-time Discrete values in all three kinds of coroutine
    mon_d = {"pre": [], "inv": [], "body": [["while", "T", [["disc", [[1, 1], [2, 3]], "md"], ["wait"]]]]}
    picker = {"pre": [], "inv": [], "body": [["choose", [[5, 1], [6, 3]]], ["disc", [[7, 3], [8, 1]], "bd"], ["take", 2]]}
    pa = {"pre": [], "inv": [], "body": [["take", 3]]}
    pb = {"pre": [], "inv": [], "body": [["take", 4]]}
    for scale in (1, 2):
        top = [["disc", [[0, 1], [1, 1]], "cd"], ["wait"], ["schoose", [[2, 1], [3, 3]]], ["wait"]]
        sdefs = [sd(hascompose=True, compose=top, monitors=[2])] + subs[:2]
        cases.append({
            "defs": [beh, mon_d, mon_loop, picker, pa, pb], "agents": [4], "sdefs": sdefs, "top": 1,
            "monitors": [2], "records": [], "termWhen": [], "termSimWhen": [], "termAfter": [],
            "maxSteps": 2, "dt": [1, 1], "table": {"T": [True], "F": [False], "p1": [True], "p2": [True], "p3": [True]},
            "sched": [[1]], "impl": 0, "wscale": scale,
        })
    # draws in the top-level compose block and in monitors of the top-level scenario
    for mons in ([2], [3], [2, 3]):
        top = [["rand", 0, 1, "x"], ["wait"], ["rand", 0, 2, "y"], ["rand", 0, 1, "z"], ["sdo", [4]], ["wait"]]
        sdefs = [sd(hascompose=True, compose=top, monitors=mons)] + subs
        cases.append({
            "defs": [beh, mon_draw, mon_loop], "agents": [1], "sdefs": sdefs, "top": 1,
            "monitors": sorted(set(mons) | {2}), "records": [], "termWhen": [], "termSimWhen": [], "termAfter": [],
            "maxSteps": 3, "dt": [1, 1], "table": {"T": [True], "F": [False], "p1": [True], "p2": [True], "p3": [True]},
            "sched": [[1]], "impl": 0,
        })
    return cases


def main(tier):
    ck = Check("C19", tier, "model_checking")
    ck.cov["rule"] = (
        "cases = (program with do choose / do shuffle over 2-3 sub-behaviours in list or weighted dict form, "
        "step-dependent preconditions/invariants, run-time DiscreteRange draws; or a modular program whose compose "
        "block chooses/shuffles over 2-3 sub-scenarios and whose compose blocks and monitors draw run-time values; "
        "truth table); exhaustive small core "
        "plus seeded random programs x 4 tables; for each case EVERY outcome of the random number generator is "
        "enumerated on both sides; non-trivial = the law has at least two outcomes; distinct by (program text, table)"
    )
    ck.assumptions += [
        "programs in which a behaviour with invariants runs a sub-behaviour under do-for/do-until/try are run under the "
        "named as-implemented invariant timing (Dynamics.tla invimpl = 1): that deviation is decided by C13 (known "
        "finding invariant-checked-inside-sub-behaviour) and must not mask the probabilities checked here",
        "scripted random module: random.choices / random.randint are replaced and every alternative is executed once; "
        "branch weights are computed from the logged arguments",
        "choose/shuffle over behaviours (in behaviours) and over scenarios (in compose blocks); run-time draws in "
        "behaviours, monitors and compose blocks; random programs cover the behaviour forms only",
    ]
    core = choose_core()
    comp = compose_core()
    if tier == "quick":
        core = core[seed() % 2 :: 2]
        comp = comp[seed() % 2 :: 2] + comp[-5:]
    core = core + comp
    n = 120 if tier == "quick" else 800
    rand = gen_dynamic.generate(seed() * 6007 + 19, n, "choose")
    # random modular programs whose compose blocks choose / shuffle over sub-scenarios and draw run-time values
    nested = gen_dynamic.generate_nested(seed() * 3571 + 19, 30 if tier == "quick" else 300, tables=2, picks=True)
    # choose / shuffle whose items' guards RAISE a rejection (the guards of all items are evaluated)
    import c13

    cases = core + rand + nested + c13.guard_rejection_core(picks=True)
    rows = c12.run_batch(ck, cases, need_actions=["Setup", "BehaviorResume", "Pick", "Finish"], run_real=False)
    texts = [r[1] for r in rows]
    reals = pmap(_law_real, list(zip(cases, texts)))
    # a watchdog timeout under machine load must not become a verdict: such a case is run again, alone,
    # with a generous limit; only a reproducible timeout is reported
    for i, real in enumerate(reals):
        if "law" in real and any("timeout" in k for k in real["law"] if k.startswith('{"error"')):
            reals[i] = _law_real((cases[i], texts[i]), timeout=300)
    # The oracle scripts of Dynamics.tla are bounded per case (orcmax picks in one ScenarioStep / MonitorResume);
    # a bound that is too small loses behaviours (none at all, or weights summing to less than 1).  Such cases are
    # model-checked again with a generous bound before anything is concluded from them.
    def _weight_sum(exps):
        tot = Fraction(0)
        for o in exps:
            w = Fraction(1)
            for a, b, _alt in o["ws"]:
                w *= Fraction(a, b)
            tot += w
        return tot

    short = [i for i, (_c, _t, exps, _r) in enumerate(rows) if not exps or _weight_sum(exps) != 1]
    if short:
        again = [dict(cases[i], orcmax=7) for i in short]
        rows2 = c12.run_batch(ck, again, need_actions=[], run_real=False)
        for i, r2 in zip(short, rows2):
            rows[i] = (cases[i], rows[i][1], r2[2], rows[i][3])
        ck.cov["cases_rerun_with_larger_oracle_bound"] = len(short)
    for (case, text, exps, _r), real in zip(rows, reals):
        if not exps:
            raise MachineryError("no behaviour of Dynamics.tla for a case")
        law = {}
        for o in exps:
            e = dyn.expected_of(o)
            key = json.dumps([e["events"], e["ending"]])
            w = Fraction(1)
            for a, b, _alt in o["ws"]:
                w *= Fraction(a, b)
            law[key] = law.get(key, Fraction(0)) + w
        if sum(law.values()) != 1:
            raise MachineryError(f"Dynamics.tla: weights of the behaviours of a case sum to {sum(law.values())}")
        ck.case((text, json.dumps(case["table"], sort_keys=True)), len(law) >= 2)
        if "error" in real:
            ck.violation(f"real code: {real['error']}", {"property": "C19", "program": text, "case": case, "error": real})
            continue
        rl = {k: Fraction(v[0], v[1]) for k, v in real["law"].items()}
        if any(k.startswith('{"error"') for k in rl):
            bad = [k for k in rl if k.startswith('{"error"')][0]
            known = "nested-try-nonlocal" if "_Scenic_interrupt" in bad else None
            ck.violation(f"real code failed on some RNG branch: {bad[:200]}", {"property": "C19", "program": text, "case": case, "observed": bad}, known_key=known)
            continue
        if rl != law:
            diffs = [
                {"outcome": json.loads(k), "expected": str(law.get(k, 0)), "observed": str(rl.get(k, 0))}
                for k in sorted(set(rl) | set(law)) if rl.get(k, 0) != law.get(k, 0)
            ]
            short = [(d["expected"], d["observed"], [e for e in d["outcome"][0] if e[0] in ("exec", "log", "rnd")][:12]) for d in diffs[:2]]
            ck.violation(f"law over runs differs (expected, observed, run): {short}",
                         {"property": "C19", "program": text, "case": case, "differences": diffs[:6],
                          "rng_calls": real.get("calls")})
        else:
            ck.validated(real["branches"])
        ck.sample({"program": text, "table": case["table"], "outcomes": len(law),
                   "law": sorted(str(v) for v in law.values())}, limit=3)
    return ck.finish()


if __name__ == "__main__":
    sys.exit(main(sys.argv[1] if len(sys.argv) > 1 else "quick"))
