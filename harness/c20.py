"""C20 — road networks are internally consistent for every map, cached or parsed.

Two specifications, two bindings:

* spec/RoadNet.tla (state audit, M3): every real Network (every present map of assets/maps,
  under parser option combinations, parsed and loaded from its cache, plus mutated map files)
  is exported by roadnet_export.py as a finite structure with measured point facts; TLC evaluates
  the conjuncts of WellFormed on each (one named invariant per conjunct) and prints a verdict
  record per network.  In-process mutants of parsed Network objects / exported structures must be
  flagged by TLC on the conjunct the harness predicts (I_MutantsCaught).
* spec/MapCache.tla (protocol, model-checked exhaustively, M1 replay): TLC enumerates every
  sequence of Load / EditMap / ChangeOptions / CorruptCache / BumpVersion up to a bound, checks the
  cache properties on all of them and prints them; each sequence is replayed on a scratch copy of
  a small map with the real Network.fromFile, observing hit/miss through wrapped
  Network.fromPickle / Network.fromOpenDrive and comparing the exported structure of what was
  loaded with a fresh parse.

Nothing is ever written under /repo: maps are copied to the scratch directory first."""

import copy
import glob
import hashlib
import json
import os
import random
import re
import shutil
import sys
import time
import warnings

from common import REPO, SPEC, Check, MachineryError, pmap, run_tlc, scratch, seed

MAPROOT = os.path.join(REPO, "assets", "maps")

# known-finding keys = the names of the as-implemented deviations of RoadNet.tla
DEVIATION_KEYS = {"raw-opendrive-id", "reverse-maneuvers-of-merger"}


def conjunct_invariants():
    text = open(os.path.join(SPEC, "RoadNet.tla")).read()
    return re.findall(r"^(I_\w+) ==", text, re.M)


def roadnet_cfg(strict=True):
    cfg = "SPECIFICATION Spec\nINVARIANT TypeOK\n"
    if strict:
        cfg += "".join(f"INVARIANT {i}\n" for i in conjunct_invariants())
    cfg += "INVARIANT EmitVerdict\nCHECK_DEADLOCK FALSE\n"
    return cfg


# --------------------------------------------------------------------------- maps and jobs


def present_maps():
    allmaps = sorted(glob.glob(os.path.join(MAPROOT, "**", "*.xodr"), recursive=True))
    present = [p for p in allmaps if os.path.getsize(p) > 0]
    return present, [os.path.relpath(p, MAPROOT) for p in allmaps if os.path.getsize(p) == 0]


def optname(opts):
    return ",".join(f"{k}={opts[k]}" for k in sorted(opts)) or "default"


OPTION_SETS = [
    {},
    {"tolerance": 0},
    {"tolerance": 0.5},
    {"fill_intersections": False},
    {"elide_short_roads": True},
    {"fill_gaps": False},
    {"tolerance": 0.2, "fill_intersections": False, "elide_short_roads": True},
    {"ref_points": 10, "fill_gaps": False, "elide_short_roads": True},
]


# ---- text-level mutations of map files ("mutated variants": must fail to build or be well formed)
def mut_unlink_roads(text):
    """remove one road-to-road link at the road level, on BOTH roads (the lane-level links stay):
    two roads that still touch but are no longer declared neighbours"""
    roads = list(re.finditer(r"<road\b[^>]*>.*?</road>", text, re.S))

    def rid(block):
        return re.search(r'\bid="([^"]*)"', re.match(r"<road\b[^>]*>", block).group(0)).group(1)

    def road_links(block):
        """(start, end, target id) of the road-level link tags that point to a road"""
        lm = re.search(r"<link>(.*?)</link>", block, re.S)
        out = []
        if lm:
            for t in re.finditer(r"[ \t]*<(?:successor|predecessor)\b[^>]*/>[ \t]*\n?", lm.group(1)):
                tag = t.group(0)
                if 'elementType="road"' in tag:
                    out.append((lm.start(1) + t.start(), lm.start(1) + t.end(), re.search(r'elementId="([^"]*)"', tag).group(1)))
        return out

    blocks = {rid(m.group(0)): m for m in roads}
    for m in roads:
        a = rid(m.group(0))
        for s0, e0, b in road_links(m.group(0)):
            if b == a or b not in blocks:
                continue
            newa = m.group(0)
            for s1, e1, t in sorted(road_links(newa), reverse=True):
                if t == b:
                    newa = newa[:s1] + newa[e1:]
            mb = blocks[b]
            newb = mb.group(0)
            for s1, e1, t in sorted(road_links(newb), reverse=True):
                if t == a:
                    newb = newb[:s1] + newb[e1:]
            first, second = sorted([(m, newa), (mb, newb)], key=lambda x: x[0].start())
            return (text[: first[0].start()] + first[1] + text[first[0].end(): second[0].start()] + second[1]
                    + text[second[0].end():])
    return None


def mut_scale_widths(text):
    """scale the constant term of every lane width by 1.5"""
    n = [0]

    def rep(m):
        n[0] += 1
        return f'{m.group(1)}{float(m.group(2)) * 1.5:.6e}{m.group(3)}'

    out = re.sub(r'(<width\b[^>]*\ba=")([^"]+)(")', rep, text)
    return out if n[0] else None


def mut_duplicate_road(text):
    """duplicate the first ordinary road under a fresh id, shifted by 200 m (no links)"""
    m = re.search(r"<road\b[^>]*junction=\"-1\"[^>]*>.*?</road>\s*\n", text, re.S)
    if not m:
        return None
    road = m.group(0)
    road = re.sub(r'(<road\b[^>]*\bid=")[^"]+(")', r"\g<1>987654\g<2>", road, count=1)
    road = re.sub(r"<link>.*?</link>", "<link>\n        </link>", road, count=1, flags=re.S)
    road = re.sub(r"<link>\s*<(?:predecessor|successor) id=[^>]*/>(?:\s*<(?:predecessor|successor) id=[^>]*/>)?\s*</link>",
                  "<link>\n</link>", road)
    road = re.sub(r'(<geometry\b[^>]*\by=")([^"]+)(")', lambda g: f"{g.group(1)}{float(g.group(2)) + 200.0:.6e}{g.group(3)}", road)
    return text[: m.end()] + road + text[m.end():]


MAP_MUTATIONS = {
    "unlink-roads": mut_unlink_roads,
    "scale-widths": mut_scale_widths,
    "duplicate-road": mut_duplicate_road,
}


def _quiet():
    warnings.filterwarnings("ignore")


def _limit_memory(gb=4):
    """Workers that unpickle damaged cache files: a damaged pickle can ask for an absurd allocation;
    with an address-space limit that becomes a MemoryError inside fromPickle (which the code under
    test converts to UnpicklingError and survives) instead of exhausting the machine."""
    import resource

    try:
        resource.setrlimit(resource.RLIMIT_AS, (gb << 30, gb << 30))
    except Exception:
        pass


class _Observer:
    """Wraps Network.fromPickle / fromOpenDrive (class attributes, restored on exit) to observe
    which of them fromFile used and how fromPickle ended."""

    def __enter__(self):
        from scenic.domains.driving.roads import Network

        self.N = Network
        self.calls = []
        self.op = Network.__dict__["fromPickle"]
        self.oo = Network.__dict__["fromOpenDrive"]
        op, oo, calls = self.op.__func__, self.oo.__func__, self.calls

        def fp(cls, *a, **k):
            try:
                r = op(cls, *a, **k)
            except Exception as e:
                calls.append("pickle:" + type(e).__name__)
                raise
            calls.append("pickle:ok")
            return r

        def fo(cls, *a, **k):
            calls.append("parse")
            return oo(cls, *a, **k)

        Network.fromPickle = classmethod(fp)
        Network.fromOpenDrive = classmethod(fo)
        return self

    def __exit__(self, *exc):
        self.N.fromPickle = self.op
        self.N.fromOpenDrive = self.oo
        return False


def export_job(job):
    """Worker: build one network from a scratch copy of a map and export it.
    job: dict(label, rel, src, opts, mode 'parsed'|'cached', budget, seed, mutation or None, dir)."""
    _quiet()
    import roadnet_export as X
    from scenic.domains.driving.roads import Network

    t0 = time.time()
    d = job["dir"]
    os.makedirs(d, exist_ok=True)
    path = os.path.join(d, "map.xodr")
    text = open(job["src"], encoding="utf-8", errors="replace").read()
    if job.get("mutation"):
        text = MAP_MUTATIONS[job["mutation"]](text)
        if text is None:
            return {"label": job["label"], "skip": "mutation not applicable"}
    with open(path, "w", encoding="utf-8") as f:
        f.write(text)
    cache = os.path.join(d, "map" + Network.pickledExt)
    if os.path.exists(cache):
        os.remove(cache)
    opts = job["opts"]
    out = {"label": job["label"], "rel": job["rel"], "opts": optname(opts), "mode": job["mode"],
           "mutation": job.get("mutation")}
    try:
        if job["mode"] == "parsed":
            net = Network.fromFile(path, useCache=False, writeCache=False, **opts)
        else:
            Network.fromFile(path, useCache=False, writeCache=True, **opts)
            if not os.path.exists(cache):
                return dict(out, error="writeCache=True wrote no cache file", phase="cache")
            with _Observer() as ob:
                net = Network.fromFile(path, useCache=True, writeCache=False, **opts)
            out["calls"] = list(ob.calls)
            if ob.calls != ["pickle:ok"]:
                return dict(out, error=f"a cache written a moment ago for the same map and options was not used: {ob.calls}",
                            phase="cache")
    except Exception as e:
        import traceback

        return dict(out, error=f"{type(e).__name__}: {e}"[:300], phase="build", tb=traceback.format_exc()[-1200:])
    try:
        out["net"] = X.export_network(net, job["label"], seed=job["seed"], budget=job["budget"],
                                      seed_key=job["rel"] + "|" + optname(opts))
    except Exception as e:
        import traceback

        return dict(out, error=f"{type(e).__name__}: {e}"[:300], phase="export", tb=traceback.format_exc()[-1500:])
    out["wall"] = round(time.time() - t0, 2)
    shutil.rmtree(d, ignore_errors=True)
    return out


# --------------------------------------------------------------------------- in-process mutants


def _struct_mutants(net):
    """Mutants of an exported structure: (name, expected conjuncts, mutated copy)."""
    import roadnet_export as X

    out = []
    F, S, cls, n = net["F"], net["S"], net["cls"], net["n"]

    def clone(name, expect):
        c = copy.deepcopy(net)
        c["mut"] = name
        c["expect"] = expect
        c["name"] = net["name"] + "#" + name
        return c

    # remove a reciprocal successor link: y.pred = x, x.succ = y, nobody else has pred y... -> x.succ := None
    for x in range(1, n + 1):
        y = F["succ"][x - 1]
        if cls[x - 1] in ("lsec", "lane") and 0 < y <= n and cls[y - 1] == cls[x - 1] and F["pred"][y - 1] == x:
            if sum(1 for z in range(1, n + 1) if F["pred"][z - 1] == x and cls[z - 1] == cls[x - 1]) == 1:
                c = clone("drop-successor", ["PredSuccAgree"])
                c["F"]["succ"][x - 1] = 0
                X.add_inverse_index(c)
                out.append(c)
                break
    # re-parent a lane section: s.lane := another lane
    lanes = [i for i in range(1, n + 1) if cls[i - 1] == "lane"]
    for s in range(1, n + 1):
        if cls[s - 1] == "lsec":
            others = [l for l in lanes if l != F["lane"][s - 1]]
            if others:
                c = clone("reparent-section", ["LaneSections", "OwnershipConverse"])
                c["F"]["lane"][s - 1] = others[0]
                out.append(c)
                break
    # laneToLeft without the reciprocal laneToRight
    for s in range(1, n + 1):
        l = F["left"][s - 1]
        if cls[s - 1] == "lsec" and 0 < l <= n and F["isfwd"][l - 1] == F["isfwd"][s - 1]:
            c = clone("one-way-left", ["LeftRightReciprocal"])
            c["F"]["right"][l - 1] = 0
            out.append(c)
            break
    # a lookup reporting an element that does not contain the point
    for q, p in enumerate(net["pts"]):
        if p["laneAt"]:
            wrong = [l for l in lanes if l not in p["inn"] + p["fz0"] + p["near"] + p["fz1"]]
            if wrong:
                c = clone("lookup-elsewhere", ["LookupSound"])
                c["pts"][q]["laneAt"] = wrong[0]
                out.append(c)
                break
    # traffic direction reversed at a point of a lane
    for q, p in enumerate(net["pts"]):
        e = p["elementAt"]
        if e and cls[e - 1] == "road" and p["rd"] >= 0 and any(
            cls[j - 1] == "lane" and F["road"][j - 1] == e for j in p["inn"]
        ):
            c = clone("direction-reversed", ["RoadDirectionTangent"])
            c["pts"][q]["rd"] = (p["rd"] + 18000) % 36000
            out.append(c)
            break
    # a maneuver ending on the wrong lane
    for k, mrec in enumerate(net["mans"]):
        if mrec["conn"]:
            wrong = [l for l in lanes if l not in (mrec["end"], mrec["start"], mrec["conn"])]
            if wrong:
                c = clone("maneuver-wrong-end", ["ManeuverChain"])
                c["mans"][k]["end"] = wrong[-1]
                out.append(c)
                break
    return out


def object_mutant_job(job):
    """Worker: parse a small map, damage the real Network object in-process, export it."""
    _quiet()
    import math

    import roadnet_export as X
    from scenic.core.vectors import VectorField
    from scenic.domains.driving.roads import Network

    d = job["dir"]
    os.makedirs(d, exist_ok=True)
    path = os.path.join(d, "map.xodr")
    shutil.copy(job["src"], path)
    net = Network.fromFile(path, useCache=False, writeCache=False)
    kind = job["kind"]
    expect = None
    if kind == "no-opposite":  # as if the parser forgot LaneGroup._opposite
        two = [g for g in net.laneGroups if g._opposite is not None]
        if two:
            for g in two:
                g._opposite = None
            expect = ["OppositeReciprocal"]
    elif kind == "reparent-lane":  # a lane pointing to the other group of its road
        for r in net.allRoads:
            if r.forwardLanes and r.backwardLanes:
                r.forwardLanes.lanes[0].group = r.backwardLanes
                expect = ["GroupLanes"]
                break
    elif kind == "findPointIn-wrong":  # findPointIn returns the last candidate instead of a containing one
        orig = net.findPointIn

        def wrong(point, elems, reject):
            r = orig(point, elems, reject)
            elems = tuple(elems)
            if r is not None and len(elems) > 1:
                return elems[-1] if elems[-1] is not r else elems[0]
            return r

        net.findPointIn = wrong
        expect = ["LookupSound"]
    elif kind == "direction-flipped":  # roadDirection pointing against the traffic
        old = net.roadDirection
        net.roadDirection = VectorField("roadDirection", lambda p: old[p].yaw + math.pi)
        expect = ["RoadDirectionTangent"]
    elif kind == "maneuver-foreign-lane":  # a maneuver whose start lane is not the lane that lists it
        for lane in net.lanes:
            if lane.maneuvers:
                other = [l for l in net.lanes if l is not lane][0]
                object.__setattr__(lane.maneuvers[0], "startLane", other)
                expect = ["LaneManeuvers"]
                break
    if expect is None:
        return {"label": job["label"], "skip": "mutation not applicable"}
    e = X.export_network(net, job["label"], seed=job["seed"], budget=job["budget"])
    e["mut"] = kind
    e["expect"] = expect
    shutil.rmtree(d, ignore_errors=True)
    return {"label": job["label"], "net": e}


# --------------------------------------------------------------------------- RoadNet audit


def tlc_payload(net):
    """What TLC needs (names of elements and the geometry summary stay in the harness)."""
    out = {k: v for k, v in net.items() if k not in ("uids", "geom", "raw_links", "pts")}
    out["pts"] = [{k: v for k, v in p.items() if k not in ("x", "y", "group_laneAt")} for p in net["pts"]]
    return out


def witness(net, conjunct, w, group_of):
    g = group_of.get(conjunct, 0)
    try:
        if g in (4, 5):
            p = net["pts"][w - 1]
            return {"point": [p["x"] / 100.0, p["y"] / 100.0], "kind": p["kind"],
                    "facts": {k: v for k, v in p.items() if k not in ("x", "y")},
                    "names": {k: net["uids"][v - 1] for k, v in p.items()
                              if isinstance(v, int) and k.endswith("At") and 0 < v <= net["n"]}}
        if g == 3 and conjunct != "LaneManeuvers" and conjunct != "IncomingOutgoing":
            r = net["mans"][w - 1]
            return {"maneuver": w, "rec": r,
                    "names": {k: net["uids"][r[k] - 1] for k in ("start", "conn", "end", "inter") if 0 < r[k] <= net["n"]}}
        if conjunct == "NetworkIndex":
            return {"clause": w}
        return {"element": w, "uid": net["uids"][w - 1] if 0 < w <= net["n"] else None,
                "links": {k: net["F"][k][w - 1] for k in net["F"] if net["F"][k][w - 1]}}
    except Exception as e:  # never let diagnostics break the verdict
        return {"witness": w, "note": f"{type(e).__name__}: {e}"}


def spec_groups():
    text = open(os.path.join(SPEC, "RoadNet.tla")).read()
    out = {}
    for gi in range(1, 6):
        m = re.search(rf"^Group{gi} == <<(.*?)>>", text, re.M | re.S)
        for c in re.findall(r'"(\w+)"', m.group(1)):
            out[c] = gi
    return out


def audit_batch(nets, tag="0", workers=4):
    """Run TLC on a batch of exported networks (no side effects on the Check: may run in a thread).
    Returns ({index in batch: verdict record}, name of the invariant TLC stopped at in strict mode
    or None, [(label, TLCResult)])."""
    path = os.path.join(scratch(), f"nets-{tag}-{os.getpid()}.json")
    with open(path, "w") as f:
        json.dump([tlc_payload(n) for n in nets], f)
    runs = []
    res = run_tlc("RoadNet", roadnet_cfg(True), env={"NETS": path}, coverage=True, expect_fail=True, timeout=3000,
                  workers=workers, heap="4g")
    strict_failed = None
    if not res.ok:
        if res.invariant_violated is None:
            raise MachineryError(f"TLC failed on RoadNet:\n{res.error}\n{res.stdout[-1500:]}")
        # a conjunct is violated on some network: TLC stopped there.  Collect every verdict.
        strict_failed = res.invariant_violated
        if strict_failed == "I_InverseIndexExact":
            raise MachineryError("the exporter's inverse successor/predecessor index is not exact (harness bug)")
        runs.append(("RoadNet(strict, stopped at " + strict_failed + ")", res))
        res = run_tlc("RoadNet", roadnet_cfg(False), env={"NETS": path}, coverage=True, timeout=3000,
                      workers=workers, heap="4g")
    runs.append(("RoadNet", res))
    need = ["AuditLinks", "AuditOwnership", "AuditManeuvers", "AuditLookups", "AuditDirections"]
    missing = [a for a in need if res.coverage.get(a, (0, 0))[1] < len(nets)]
    if missing:
        raise MachineryError(f"RoadNet audit actions not taken for every network (vacuous): {missing} {res.coverage}")
    verdicts = {o["idx"] - 1: o for o in res.outputs if "idx" in o}
    if len(verdicts) != len(nets):
        raise MachineryError(f"RoadNet printed {len(verdicts)} verdicts for {len(nets)} networks")
    os.remove(path)
    return verdicts, strict_failed, runs


def audit(ck, nets):
    vs, strict, runs = audit_batch(nets, "single", workers=8)
    for name, res in runs:
        ck.add_tlc(name, res)
    return vs, strict


def audit_all(ck, allnets, max_bytes, parallel=4):
    """Split into size-balanced batches and run up to `parallel` TLC processes at a time (deserialising
    the JSON constant is single-threaded inside one TLC, so several small JVMs beat one big one)."""
    from concurrent.futures import ThreadPoolExecutor

    sizes = [len(json.dumps(tlc_payload(n))) for n in allnets]
    nb = max(parallel if len(allnets) >= 2 * parallel else 1, -(-sum(sizes) // max_bytes))
    bins = [[] for _ in range(nb)]
    load = [0] * nb
    for i in sorted(range(len(allnets)), key=lambda i: -sizes[i]):
        j = load.index(min(load))
        bins[j].append(i)
        load[j] += sizes[i]
    bins = [sorted(b) for b in bins if b]
    with ThreadPoolExecutor(max_workers=parallel) as ex:
        futs = [ex.submit(audit_batch, [allnets[i] for i in b], str(k), max(2, 16 // parallel)) for k, b in enumerate(bins)]
        outs = [f.result() for f in futs]
    verdict_of = {}
    for b, (vs, _strict, runs) in zip(bins, outs):
        for name, res in runs:
            ck.add_tlc(name, res)
        for j, i in enumerate(b):
            verdict_of[i] = vs[j]
    ck.cov["roadnet_json_bytes"] = sum(sizes)
    return verdict_of


def strip_for_compare(net):
    return {k: v for k, v in net.items() if k not in ("name", "mut", "expect")}


def digest(obj):
    return hashlib.sha1(json.dumps(obj, sort_keys=True).encode()).hexdigest()


def roadnet_part(ck, tier):
    present, empty = present_maps()
    ck.cov["maps_present"] = len(present)
    ck.cov["maps_skipped_empty_placeholders"] = empty
    sd = seed()
    budget = 240 if tier == "quick" else 600
    rel = lambda p: os.path.relpath(p, MAPROOT)
    small = [p for p in present if os.path.getsize(p) < 300_000]
    jobs = []

    def add(p, opts, mode, mutation=None, b=None):
        label = rel(p) + "|" + optname(opts) + "|" + mode + (("|" + mutation) if mutation else "")
        jobs.append({"label": label, "rel": rel(p) + (("|" + mutation) if mutation else ""), "src": p, "opts": opts,
                     "mode": mode, "budget": b or budget, "seed": sd, "mutation": mutation,
                     "dir": os.path.join(scratch(), "job%d" % len(jobs))})

    for p in present:  # every present map, default options, parsed
        add(p, {}, "parsed")
    if tier == "quick":
        rnd = random.Random(sd)
        for p in small:  # small maps: two option sets (rotating with the seed) parsed, one cached
            for o in rnd.sample(OPTION_SETS[1:], 2):
                add(p, o, "parsed", b=120)
            add(p, {}, "cached")
        # two bigger maps from their cache (rotating with the seed), and one under other options
        big = [p for p in present if p not in small]
        for p in rnd.sample(big, min(2, len(big))):
            add(p, {}, "cached")
        if big:
            add(rnd.choice(big), rnd.choice(OPTION_SETS[1:]), "parsed")
        for p in small:  # mutated map files: the link mutation and one of the two others
            for mname in ("unlink-roads", rnd.choice(("scale-widths", "duplicate-road"))):
                add(p, {}, "parsed", mutation=mname, b=120)
    else:
        for p in present:
            for o in OPTION_SETS:
                if o:
                    add(p, o, "parsed")
                add(p, o, "cached")
        for p in small + [q for q in present if q not in small][:3]:
            for mname in MAP_MUTATIONS:
                add(p, {}, "parsed", mutation=mname)

    t0 = time.time()
    results = pmap(export_job, jobs, chunk=1)
    ck.cov.setdefault("phase_wall_s", {})["export_%d_jobs" % len(jobs)] = round(time.time() - t0, 1)
    group_of = spec_groups()

    nets, meta, built = [], [], []
    by_key = {}
    build_failures = []
    for job, r in zip(jobs, results):
        if "skip" in r:
            ck.cov["dropped_by_generator"] += 1
            continue
        if "error" in r:
            if r.get("phase") == "build" and (job["mutation"] or job["opts"]):
                # a mutated map / a non-default option set that cannot be built: vacuous for the
                # property ("for every road network BUILT from a map"), counted
                build_failures.append({"label": r["label"], "error": r["error"]})
                ck.cov["dropped_by_generator"] += 1
                continue
            if r.get("phase") == "export":
                raise MachineryError(f"exporter failed on {r['label']}: {r['error']}\n{r.get('tb')}")
            ck.violation(
                f"{r['label']}: {r['error']}",
                {"property": "C20", "what": "network could not be built / loaded from its cache", "job": {k: v for k, v in job.items() if k != "dir"},
                 "result": r},
            )
            continue
        by_key[(r["rel"], r["opts"], r["mode"])] = r["net"]
        built.append(r)
    ck.cov["build_failures"] = build_failures
    # a network loaded from its cache whose exported structure EQUALS that of the parsed network (compared
    # below, same sample points) needs no second audit: TLC would evaluate the same constant twice
    same_as_parsed = 0
    for r in built:
        if r["mode"] == "cached":
            pnet = by_key.get((r["rel"], r["opts"], "parsed"))
            if pnet is not None and strip_for_compare(pnet) == strip_for_compare(r["net"]):
                same_as_parsed += 1
                ck.case((r["rel"], r["opts"], r["mode"], r["net"]["n"]), r["net"]["n"] >= 5 and len(r["net"]["pts"]) >= 20)
                ck.validated(1)
                continue
        nets.append(r["net"])
        meta.append(r)
    ck.cov["cached_networks_identical_to_parsed_(audited_once)"] = same_as_parsed

    # ---- sensitivity mutants, every run: object-level on two small maps, structure-level on exports
    mjobs = []
    cul = os.path.join(MAPROOT, "opendrive.org", "CulDeSac.xodr")
    cube = os.path.join(MAPROOT, "LGSVL", "cubetown.xodr")
    for src in (cul, cube):
        if not os.path.exists(src) or os.path.getsize(src) == 0:
            continue
        for kind in ("no-opposite", "reparent-lane", "findPointIn-wrong", "direction-flipped", "maneuver-foreign-lane"):
            mjobs.append({"label": rel(src) + "#" + kind, "src": src, "kind": kind, "seed": sd, "budget": 120,
                          "dir": os.path.join(scratch(), "mjob%d" % len(mjobs))})
    mres = pmap(object_mutant_job, mjobs, chunk=1)
    mutants = [r["net"] for r in mres if "net" in r]
    bases = {"LGSVL/cubetown.xodr|default|parsed", "opendrive.org/sample1.1.xodr|default|parsed",
             "misc/shoulders.xodr|default|parsed"}
    for base in nets:
        if base["name"] in bases:
            mutants += _struct_mutants(base)
    for mnet in mutants:
        mnet["name"] = mnet["name"] if "#" in mnet["name"] else mnet["name"] + "#" + mnet["mut"]
    if len(mutants) < 6:
        raise MachineryError(f"only {len(mutants)} sensitivity mutants could be built")

    # ---- TLC
    allnets = nets + mutants
    t0 = time.time()
    verdict_of = audit_all(ck, allnets, max_bytes=6_000_000 if tier == "quick" else 12_000_000)
    ck.cov.setdefault("phase_wall_s", {})["roadnet_tlc"] = round(time.time() - t0, 1)

    # ---- verdicts of the real networks
    nconj = None
    wf = 0
    diag_incoming = {}
    for i, (net, r) in enumerate(zip(nets, meta)):
        v = verdict_of[i]
        nconj = v["conjuncts"]
        if v["map"] != net["name"]:
            raise MachineryError("verdict / network order mismatch")
        devs = {d[0]: d[1] for d in v["deviations"]}
        npts = len(net["pts"])
        nontrivial = net["n"] >= 5 and npts >= 20
        ck.case((r["rel"], r["opts"], r["mode"], net["n"]), nontrivial)
        if v["diag_incoming_not_through"]:
            diag_incoming[net["name"]] = v["diag_incoming_not_through"]
        if v["wellformed"]:
            wf += 1
        for viol in v["violated"]:
            c = viol["c"]
            key = devs.get(c)
            msg = (f"{net['name']}: conjunct {c} of WellFormed violated ({viol['n']} witnesses, first: "
                   f"{json.dumps(witness(net, c, viol['w'], group_of))[:300]})")
            ck.violation(
                msg,
                {"property": "C20", "map": r["rel"], "options": r["opts"], "mode": r["mode"], "mutation": r.get("mutation"),
                 "conjunct": c, "witnesses": viol["n"], "first_witness": witness(net, c, viol["w"], group_of),
                 "deviation": key, "seed": sd,
                 "how_to_replay": "Network.fromFile(<copy of the map>, useCache=False, **options); see roadnet_export.export_network"},
                known_key=key if key in DEVIATION_KEYS else None,
            )
        ck.validated(1)
        if r["rel"] in ("misc/Issue189.xodr", "opendrive.org/CulDeSac.xodr") and r["opts"] == "default" and r["mode"] == "parsed":
            ck.sample({"network": net["name"], "elements": net["n"], "maneuvers": len(net["mans"]), "points": npts,
                       "verdict": {k: v[k] for k in ("wellformed", "violated", "deviations", "diag_incoming_not_through")},
                       "first_point_facts": net["pts"][0] if net["pts"] else None}, limit=6)
    ck.cov["networks_audited"] = len(nets)
    ck.cov["networks_wellformed_without_deviation"] = wf
    ck.cov["conjuncts"] = nconj
    ck.cov["diag_incoming_lanes_not_through_intersection"] = diag_incoming
    ck.cov["sample_points"] = sum(len(n["pts"]) for n in nets)
    ck.cov["elements_audited"] = sum(n["n"] for n in nets)

    # ---- cached == parsed (as exported structures, same sample points)
    ncmp = 0
    for (relname, o, mode), cnet in by_key.items():
        if mode != "cached":
            continue
        pnet = by_key.get((relname, o, "parsed"))
        if pnet is None:
            continue
        ncmp += 1
        a, b = strip_for_compare(cnet), strip_for_compare(pnet)
        if a != b:
            diff = sorted(k for k in a if a[k] != b.get(k))
            ck.violation(
                f"{relname} [{o}]: the network loaded from its cache differs from the parsed one in {diff}",
                {"property": "C20", "map": relname, "options": o, "differs_in": diff, "seed": sd},
            )
    ck.cov["cached_vs_parsed_compared"] = ncmp
    if ncmp == 0 and not ck.violations:
        raise MachineryError("no cached/parsed pair was compared")

    # ---- mutants: TLC itself checks I_MutantsCaught; report which were caught
    caught = {}
    for j, mnet in enumerate(mutants):
        v = verdict_of[len(nets) + j]
        got = {x["c"] for x in v["violated"]}
        ok = set(mnet["expect"]) <= got
        caught[mnet["name"]] = {"expected": mnet["expect"], "flagged": sorted(got), "caught": ok}
        if not ok:
            raise MachineryError(f"sensitivity mutant {mnet['name']} not flagged on {mnet['expect']} (flagged {sorted(got)})")
    ck.cov["mutants_caught"] = {"total": len(mutants), "detail": caught}
    return nets


# --------------------------------------------------------------------------- MapCache replay

CACHE_CFG = """SPECIFICATION Spec
CONSTANT MaxLen = %(maxlen)d
CONSTANT NMaps = %(nmaps)d
CONSTANT NOpts = %(nopts)d
CONSTANT Kinds = {%(kinds)s}
CONSTANT AsImplemented = FALSE
CONSTANT Pairs = %(pairs)s
CONSTRAINT Bounded
INVARIANT TypeOK
INVARIANT FreshNetwork
INVARIANT CacheHonest
INVARIANT LoadTotal
INVARIANT EmitState
PROPERTY HitOnlyWhenAllMatch
PROPERTY HitWhenAllMatch
PROPERTY WriteRewrites
PROPERTY OnlyLoadWrites
PROPERTY CacheIsUsed
CHECK_DEADLOCK FALSE
"""

CACHE_OPTS = {1: {}, 2: {"tolerance": 0.2}, 3: {"elide_short_roads": True, "tolerance": 0.1}}
VERSIONS = {1: None, 2: 1_000_035}  # 1 = the code's own version, 2 = a bumped one


def eff_file(rows):
    """Eff of MapCache.tla (class of the network parsed from map content d under option set o) as a JSON file."""
    path = os.path.join(scratch(), "eff-" + hashlib.sha1(json.dumps(rows).encode()).hexdigest()[:10] + ".json")
    with open(path, "w") as f:
        json.dump(rows, f)
    return path


def option_universe():
    """Every option Network.fromFile forwards to the parser (read from the signature of
    Network.fromOpenDrive, so a new option is picked up automatically), each one: absent, explicitly
    equal to its default, falsy (0 / 0.0 / False), None, and one other value.  One option at a time
    on top of the defaults; option set 1 is {} (all defaults)."""
    import inspect

    from scenic.domains.driving.roads import Network

    sig = inspect.signature(Network.fromOpenDrive)
    out = [{}]
    for name, par in sig.parameters.items():
        if name in ("cls", "self", "path") or par.default is inspect.Parameter.empty:
            continue
        d = par.default
        vals = [d]
        if isinstance(d, bool):
            vals += [False, True, None]
        elif isinstance(d, int):
            vals += [0, None, d // 2 if d > 1 else d + 7]
        elif isinstance(d, float):
            vals += [0, 0.0, None, d * 4 if d else 0.2]
        else:
            vals += [None]
        seen = []
        for v in vals:
            if not any(v is w or (type(v) is type(w) and v == w) for w in seen):
                seen.append(v)
                out.append({name: v})
    return out


def corrupt_bytes(data, kind):
    if kind == "truncate":
        return data[:40]
    if kind == "garbage":
        return data[:76] + b"this is not a gzip stream " * 8
    if kind == "cutbody":
        return data[: 76 + max(1, (len(data) - 76) // 2)]
    raise MachineryError("unknown corruption " + kind)


def _uid(e):
    return None if e is None else e.uid


def observe(net, probes):
    """The option-dependent observable behaviour of a loaded network (part of its identity in the cache
    replay, and printed in violations): tolerance, road / element counts (elide_short_roads), holes in the
    intersection polygons (fill_intersections), total area (fill_gaps, ref_points) and what elementAt /
    roadAt answer at fixed probe points just outside road edges and inside intersection holes."""
    from scenic.core.vectors import Vector

    holes = 0
    for it in net.intersections:
        for g in it.polygons.geoms:
            holes += len(g.interiors)
    at = []
    for x, y in probes:
        v = Vector(x, y)
        try:
            at.append([_uid(net.elementAt(v)), _uid(net.roadAt(v))])
        except Exception as e:
            at.append(["raised", type(e).__name__])
    import roadnet_export as X

    return {"tolerance": float(net.tolerance), "roads": len(net.allRoads), "elements": len(net.elements),
            "intersection_holes": holes,
            "area_cm2": X._cm(sum(e.polygons.area for e in net.elements.values())),
            "drivable_cm2": X._cm(net.drivableRegion.polygons.area), "at_probes": at}


def build_tables(item):
    """Worker: the reference for one map: fresh parses (Network.fromOpenDrive, outside fromFile) of every
    map content under every option set; their signatures, equivalence classes and the probe points.
    Option sets the parser refuses are reported in `refused`."""
    src, d, optlist, nmaps = item
    _quiet()
    import numpy as np

    import roadnet_export as X
    from scenic.domains.driving.roads import Network

    os.makedirs(d, exist_ok=True)
    path = os.path.join(d, "map.xodr")
    text = open(src, encoding="utf-8", errors="replace").read()
    maps = {1: text}
    if nmaps > 1:
        edited = mut_scale_widths(text)
        if edited is None or edited == text:
            raise MachineryError("cannot make a second version of the map")
        maps[2] = edited
    nets, refused = {}, {}
    for d_, t in maps.items():
        with open(path, "w", encoding="utf-8") as f:
            f.write(t)
        for o_, opts in enumerate(optlist, start=1):
            if o_ in refused:
                continue
            try:
                nets[(d_, o_)] = Network.fromOpenDrive(path, **opts)
            except Exception as e:
                refused[o_] = f"{type(e).__name__}: {e}"[:120]
    keep = [o for o in range(1, len(optlist) + 1) if o not in refused]
    # probe points: just outside road edges of the default network, and inside whatever part of the
    # intersections some option set fills and another leaves open
    rng = np.random.default_rng(12345)
    probes = []
    base = nets[(1, 1)]
    for r in list(base.roads)[:2]:
        for off in (0.03, 0.1, 0.3):
            probes += X._ring_points(r.polygons, 2, rng, off)
    import shapely

    ub = shapely.union_all([i.polygons for i in base.intersections]) if base.intersections else None
    if ub is not None:
        for o_ in keep:
            n = nets[(1, o_)]
            if not n.intersections:
                continue
            uo = shapely.union_all([i.polygons for i in n.intersections])
            for a, b in ((ub, uo), (uo, ub)):
                diff = a.difference(b.buffer(0.1))
                parts = list(diff.geoms) if hasattr(diff, "geoms") else [diff]
                for g in sorted((g for g in parts if not g.is_empty and g.area > 0.05), key=lambda g: -g.area)[:3]:
                    rp = g.representative_point()
                    probes.append((rp.x, rp.y))
    probes = [(round(x, 4), round(y, 4)) for x, y in probes][:24]

    def sig(net, points):
        e = X.export_network(net, "cache", seed=0, budget=36, points=points, seed_key="cache")
        e = strip_for_compare(e)
        e["observables"] = observe(net, probes)
        return digest(e)

    cheap, full, obs = {}, {}, {}
    for (d_, o_), net in nets.items():
        if o_ in refused:
            continue
        cheap[f"{d_},{o_}"] = sig(net, False)
        full[f"{d_},{o_}"] = sig(net, True)
        obs[f"{d_},{o_}"] = observe(net, probes)
    # classes per map content: option sets whose fresh parses are indistinguishable
    eff = {}
    for d_ in maps:
        seen = []
        for o_ in keep:
            s = full[f"{d_},{o_}"]
            if s not in seen:
                seen.append(s)
            eff[f"{d_},{o_}"] = seen.index(s) + 1
    shutil.rmtree(d, ignore_errors=True)
    return {"src": src, "maps": maps, "opts": [optlist[o - 1] for o in keep], "refused": {optname(optlist[o - 1]): r for o, r in refused.items()},
            "probes": probes, "cheap": {k: v for k, v in cheap.items()}, "full": full, "obs": obs, "eff": eff, "keep": keep}


def renumber_tables(t):
    """Option ids of the tables were positions in the universe; renumber to 1..K over the accepted ones."""
    m = {o: i + 1 for i, o in enumerate(t["keep"])}

    def rk(dct):
        out = {}
        for k, v in dct.items():
            d_, o_ = k.split(",")
            out[(int(d_), m[int(o_)])] = v
        return out

    return dict(t, cheap=rk(t["cheap"]), full=rk(t["full"]), obs=rk(t["obs"]), eff=rk(t["eff"]))


class CacheWorld:
    """The real world of MapCache.tla: a scratch directory with map.xodr (+ map.snet)."""

    def __init__(self, tables, d):
        _quiet()
        self._memo = {}
        import roadnet_export as X
        from scenic.domains.driving.roads import Network

        self.X, self.N = X, Network
        self.t = tables
        self.opts = {i + 1: o for i, o in enumerate(tables["opts"])}
        self.nopts = len(self.opts)
        os.makedirs(d, exist_ok=True)
        self.dir = d
        self.path = os.path.join(d, "map.xodr")
        self.cache = os.path.join(d, "map" + Network.pickledExt)
        self.maps = {k: v.encode() for k, v in tables["maps"].items()}
        self.mapdig = {k: hashlib.blake2b(v).digest() for k, v in self.maps.items()}
        self.real_version = Network._currentFormatVersion()
        self.orig_version = Network.__dict__["_currentFormatVersion"]
        self.reset()

    def sig(self, net, points):
        e = self.X.export_network(net, "cache", seed=0, budget=36, points=points, seed_key="cache")
        e = strip_for_compare(e)
        e["observables"] = observe(net, self.t["probes"])
        return digest(e)

    def classes_of(self, s, d, points=True):
        """the classes (of map content d) of the reference networks with signature s.  Always the full
        signature (structure + geometry + lookups and directions at the sample points + observables): without
        the point facts two classes can coincide (ref_points on a map of straight roads)."""
        table = self.t["full"]
        return sorted({self.t["eff"][k] for k, x in table.items() if x == s and k[0] == d})

    # ---- state
    def reset(self):
        self.restore((1, 1, 1, None))

    def snapshot(self):
        c = open(self.cache, "rb").read() if os.path.exists(self.cache) else None
        return (self.mapD, self.opt, self.ver, c)

    def restore(self, st):
        self.mapD, self.opt, self.ver, c = st
        with open(self.path, "wb") as f:
            f.write(self.maps[self.mapD])
        if c is None:
            if os.path.exists(self.cache):
                os.remove(self.cache)
        else:
            with open(self.cache, "wb") as f:
                f.write(c)
        self._set_version()

    def _set_version(self):
        if self.ver == 1:
            self.N._currentFormatVersion = self.orig_version
        else:
            v = VERSIONS[2]
            self.N._currentFormatVersion = classmethod(lambda cls: v)

    def close(self):
        self.N._currentFormatVersion = self.orig_version

    # ---- observation of the cache file, in the vocabulary of the spec
    def cache_state(self):
        if not os.path.exists(self.cache):
            return {"k": "absent"}
        data = open(self.cache, "rb").read()
        if len(data) < 76:
            return {"k": "corrupt"}
        key = hashlib.sha1(data).digest()
        if key not in self._memo:
            self._memo[key] = self._cache_state(data)
        return dict(self._memo[key])

    def _cache_state(self, data):
        """{k, d, v, cls}: format version and map content named by the header, class of the network the body
        holds.  (Which option set the 8-byte options digest stands for is not observed: how options are hashed
        is the code's business; whether the cache is *used* for the right options is observed by the loads.)"""
        import struct

        v = struct.unpack("<I", data[:4])[0]
        vv = 1 if v == self.real_version else 2 if v == VERSIONS[2] else -1
        d = [k for k, x in self.mapdig.items() if x == data[4:68]]
        if vv < 0 or not d:
            return {"k": "corrupt"}
        saved = self.N.__dict__["_currentFormatVersion"]
        try:
            self.N._currentFormatVersion = classmethod(lambda cls: v)
            net = self.N.fromPickle(self.cache)
            c = self.classes_of(self.sig(net, True), d[0], True)
        except Exception:
            return {"k": "corrupt"}
        finally:
            self.N._currentFormatVersion = saved
        return {"k": "valid", "d": d[0], "v": vv, "cls": c}

    # ---- actions
    def apply(self, act):
        """Apply one action of the spec to the real world; returns the observation of a Load."""
        a = act["a"]
        if a == "EditMap":
            self.mapD = self.mapD % len(self.maps) + 1
            with open(self.path, "wb") as f:
                f.write(self.maps[self.mapD])
        elif a == "ChangeOptions":
            self.opt = self.opt % self.nopts + 1
        elif a == "SetOptions":
            self.opt = act["o"]
        elif a == "Idle":
            pass
        elif a == "BumpVersion":
            self.ver = 3 - self.ver
            self._set_version()
        elif a == "CorruptCache":
            if not os.path.exists(self.cache):
                return None  # the world already diverged from the model (reported where it happened)
            data = open(self.cache, "rb").read()
            with open(self.cache, "wb") as f:
                f.write(corrupt_bytes(data, act["kind"]))
        elif a == "Load":
            before = open(self.cache, "rb").read() if os.path.exists(self.cache) else None
            obs = {"raised": None, "options": optname(self.opts[self.opt])}
            with _Observer() as ob:
                try:
                    net = self.N.fromFile(self.path, useCache=act["use"], writeCache=act["write"], **self.opts[self.opt])
                except Exception as e:
                    net = None
                    obs["raised"] = f"{type(e).__name__}: {e}"[:200]
            obs["calls"] = list(ob.calls)
            hit = ob.calls[-1:] == ["pickle:ok"] and "parse" not in ob.calls
            obs["outcome"] = "hit" if hit else "parse" if "parse" in ob.calls else "none"
            if net is not None:
                obs["cls"] = self.classes_of(self.sig(net, True), self.mapD, True)
                obs["observables"] = observe(net, self.t["probes"])
            after = open(self.cache, "rb").read() if os.path.exists(self.cache) else None
            obs["cache_rewritten"] = after != before
            return obs
        return None


def _expected_cache(world, c):
    if c["k"] == "valid":
        return {"k": "valid", "d": c["d"], "v": c["v"], "cls": [world.t["eff"][(c["c"][0], c["c"][1])]]}
    return {"k": c["k"]}


def act_text(a, opts=None):
    if a["a"] == "Load":
        return f"Load(use={a['use']},write={a['write']})"
    if a["a"] == "SetOptions":
        return "SetOptions(" + (optname(opts[a["o"] - 1]) if opts else str(a["o"])) + ")"
    return a["a"] + (":" + a["kind"] if a["kind"] else "")


def replay_subtree(item):
    """Worker: depth-first replay of all TLC behaviours below one first action."""
    tables, d, records = item
    _limit_memory(4)
    world = CacheWorld(tables, d)
    eff = tables["eff"]
    # trie of behaviours
    trie = {}
    for r in records:
        node = trie
        for act in r["hist"]:
            key = (act["a"], act["use"], act["write"], act["kind"], act["o"])
            node = node.setdefault(key, {"act": act, "kids": {}, "rec": None})
            last = node
            node = node["kids"]
        last["rec"] = r
    problems = []
    stats = {"edges": 0, "loads": 0, "hits": 0, "parses": 0, "leaves": 0, "why": {}, "dontcare_equivalent_options_hit": 0}

    def walk(kids, state, hist):
        for key in sorted(kids, key=str):
            node = kids[key]
            world.restore(state)
            obs = world.apply(node["act"])
            stats["edges"] += 1
            rec = node["rec"]
            h = hist + [node["act"]]
            if rec is not None:
                if (world.mapD, world.opt, world.ver) != (rec["mapD"], rec["opt"], rec["ver"]):
                    raise MachineryError("replay lost track of the world state")
                bad = []
                dontcare = False
                if node["act"]["a"] == "Load":
                    stats["loads"] += 1
                    L = rec["last"]
                    stats["why"][L["why"]] = stats["why"].get(L["why"], 0) + 1
                    want = eff[(L["net"][0], L["net"][1])]
                    if obs["raised"]:
                        bad.append(f"Load raised {obs['raised']} (a miss must fall back to parsing)")
                    else:
                        stats["hits" if obs["outcome"] == "hit" else "parses"] += 1
                        right = obs["cls"] == [want]
                        if obs["outcome"] == "hit" and L["outcome"] == "parse" and L["why"] == "options-digest" and right:
                            # the cached network was built under another spelling of an equivalent option
                            # valuation and IS the network asked for: hit or parse, both fine (don't-care)
                            dontcare = True
                        else:
                            if obs["outcome"] != L["outcome"]:
                                bad.append(f"observed {obs['outcome']} (calls {obs['calls']}), the specification says {L['outcome']} ({L['why']})")
                            if not right:
                                bad.append(
                                    f"the network returned for options [{obs['options']}] is not the one a fresh parse with the same options gives: "
                                    f"observed {json.dumps(obs['observables'])[:400]}, fresh parse {json.dumps(world.t['obs'][(L['cur'][0], L['cur'][1])])[:400]}")
                if dontcare:
                    stats["dontcare_equivalent_options_hit"] += 1
                    continue  # the cache was legitimately not rewritten: the model's next states do not apply
                exp_cache = _expected_cache(world, rec["cache"])
                got_cache = world.cache_state()
                if got_cache != exp_cache:
                    bad.append(f"cache file is {got_cache}, the specification says {exp_cache}")
                if bad:
                    problems.append({"hist": h, "problems": bad, "observation": obs, "expected": {"last": rec["last"], "cache": rec["cache"]}})
                    continue  # below a divergence the model no longer describes the world: report it once
            if node["kids"]:
                walk(node["kids"], world.snapshot(), h)
            else:
                stats["leaves"] += 1

    try:
        walk(trie, (1, 1, 1, None), [])
    finally:
        world.close()
    shutil.rmtree(d, ignore_errors=True)
    return problems, stats


def cache_fault_sweep(item):
    """Worker: single-byte flips / truncations of a valid cache file (fault enumeration around the
    CorruptCache action).  The load must either hit with the right network or fall back to parsing;
    it must never raise and never return anything else."""
    src, d, offsets = item
    _limit_memory(4)
    world = CacheWorld(renumber_tables(build_tables((src, d + "-ref", [{}], 1))), d)
    world.apply({"a": "Load", "use": False, "write": True, "kind": "", "o": 0})
    good = open(world.cache, "rb").read()
    n = len(good)
    out = {"size": n, "flips": 0, "truncs": 0, "still_hit_same_network": 0, "fell_back": 0,
           "raised": [], "served_damaged": []}
    try:
        for kind, off in offsets:
            if off >= n:
                continue
            if kind == "flip":
                b = bytearray(good)
                b[off] ^= 0xFF
                data = bytes(b)
                out["flips"] += 1
            else:
                data = good[:off]
                out["truncs"] += 1
            with open(world.cache, "wb") as f:
                f.write(data)
            try:
                obs = world.apply({"a": "Load", "use": True, "write": False, "kind": "", "o": 0})
                obs.pop("observables", None)
            except Exception as e:  # what fromFile returned is so damaged that it cannot even be exported
                obs = {"raised": None, "outcome": "hit", "cls": [], "calls": ["pickle:ok"],
                       "unusable": f"{type(e).__name__}: {e}"[:160]}
            if obs["raised"]:
                out["raised"].append({"fault": [kind, off], "observation": obs})
            elif obs.get("cls") == [1]:
                out["still_hit_same_network" if obs["outcome"] == "hit" else "fell_back"] += 1
            else:
                # AS-IMPLEMENTED deviation "corrupt-cache-served" (see MapCache.tla): trigger = the header
                # (first 76 bytes) is intact, the damage is inside the gzip stream, fromPickle returned normally
                trig = off >= 76 and obs["outcome"] == "hit"
                out["served_damaged"].append({"fault": [kind, off], "observation": obs, "trigger": trig})
    finally:
        world.close()
    shutil.rmtree(d, ignore_errors=True)
    return out


def run_cache_model(name, maxlen, nmaps, nopts, kinds, pairs, eff_rows, need):
    """Run TLC on MapCache.tla (no side effects on the Check: several models run in threads)."""
    cfg = CACHE_CFG % {"maxlen": maxlen, "nmaps": nmaps, "nopts": nopts, "kinds": ", ".join(f'"{k}"' for k in kinds),
                       "pairs": "TRUE" if pairs else "FALSE"}
    res = run_tlc("MapCache", cfg, env={"EFF": eff_file(eff_rows)}, coverage=True, timeout=1500, workers=4, heap="2g")
    for a in need:
        if res.coverage.get(a, (0, 0))[1] == 0:
            raise MachineryError(f"{name}: action {a} never taken (vacuous model)")
    records = [o for o in res.outputs if "hist" in o and 0 < len(o["hist"]) <= maxlen]
    if not records:
        raise MachineryError(f"{name} printed no behaviours")
    return name, res, records


def with_prefixes(records, full):
    """the chosen complete behaviours and every behaviour that is a prefix of one of them"""
    want = set()
    for r in full:
        h = r["hist"]
        for k in range(1, len(h) + 1):
            want.add(json.dumps(h[:k], sort_keys=True))
    return [r for r in records if json.dumps(r["hist"], sort_keys=True) in want]


def plan_replay(label, tables, chosen):
    """work items (one per first action) for the behaviours chosen for replay"""
    groups = {}
    for r in chosen:
        groups.setdefault(json.dumps(r["hist"][0], sort_keys=True), []).append(r)
    return [("replay", label, (tables, os.path.join(scratch(), f"cache-{label}-{gi}"), recs))
            for gi, (_k, recs) in enumerate(sorted(groups.items()))]


def cache_job(job):
    """Worker: one replay group or one chunk of the fault sweep (a single pool keeps all workers busy)."""
    kind, label, payload = job
    t0 = time.time()
    out = replay_subtree(payload) if kind == "replay" else cache_fault_sweep(payload)
    return kind, label, out, time.time() - t0


def report_replay(ck, label, tables, recs, problems, stats, tot, why):
    rel = os.path.relpath(tables["src"], MAPROOT)
    for k in tot:
        tot[k] += stats[k]
    for k, v in stats["why"].items():
        why[k] = why.get(k, 0) + v
    for p in problems:
        ck.violation(
            f"cache protocol [{label}], map {rel}, after {[act_text(a, tables['opts']) for a in p['hist']]}: {p['problems'][0]}",
            {"property": "C20", "spec": "MapCache", "map": rel, "behaviour": p["hist"],
             "problems": p["problems"], "observation": p["observation"], "expected": p["expected"],
             "optlist": tables["opts"], "nmaps": len(tables["maps"]),
             "behaviour_text": [act_text(a, tables["opts"]) for a in p["hist"]]},
        )
    for r in recs:
        ck.case(("cache", label, rel, json.dumps(r["hist"])), len(r["hist"]) >= 2)
    ck.validated(len(recs))


def mapcache_part(ck, tier):
    sd = seed()
    rnd = random.Random(sd * 31 + 7)
    quick = tier == "quick"
    if quick:
        maxlen, nopts, kinds = 4, 2, ["truncate", "garbage"]
    else:
        maxlen, nopts, kinds = 4, 3, ["truncate", "garbage", "cutbody"]

    # ---- references (fresh parses outside fromFile) for every world that is replayed
    tiny = os.path.join(MAPROOT, "misc", "zero_width.xodr")
    holes = os.path.join(MAPROOT, "LGSVL", "borregasave.xodr")
    universe = option_universe()
    inter_opts = [{}] + [o for o in universe if "fill_intersections" in o]
    # the pairs map must make every option that has any effect on a small map observable: on
    # suspect_geometries tolerance, ref_points and elide_short_roads (a road shorter than the tolerance) all
    # change the network; fill_intersections needs a map with holes in an intersection (borregasave);
    # fill_gaps changes no Network attribute on any shipped map (see notes)
    tiny_pairs = os.path.join(MAPROOT, "misc", "suspect_geometries.xodr")
    specs = [("free", tiny, [CACHE_OPTS[i] for i in range(1, nopts + 1)], 2),
             ("pairs", tiny_pairs, universe, 2),
             ("pairs-intersections", holes, inter_opts, 1)]
    if not quick:
        specs.append(("free2", os.path.join(MAPROOT, "opendrive.org", "CulDeSac.xodr"), [CACHE_OPTS[i] for i in range(1, nopts + 1)], 2))
    t0 = time.time()
    built = pmap(build_tables, [(src, os.path.join(scratch(), "ref-" + lab), opts, nm) for lab, src, opts, nm in specs], chunk=1)
    T = {lab: renumber_tables(b) for (lab, _s, _o, _n), b in zip(specs, built)}
    ck.cov.setdefault("phase_wall_s", {})["cache_references"] = round(time.time() - t0, 1)

    def eff_rows(t):
        K = len(t["opts"])
        return [[t["eff"][(d, o)] for o in range(1, K + 1)] for d in sorted(t["maps"])]

    for lab in ("free", "free2"):
        if lab in T and any(len(set(row)) != len(row) for row in eff_rows(T[lab])):
            raise MachineryError("reference networks of the free-mode option sets are not pairwise distinguishable")
    # what the option universe looks like on each map (evidence), and the observables the check relies on
    uni = {}
    for lab in ("pairs", "pairs-intersections"):
        t = T[lab]
        uni[lab] = {"map": os.path.relpath(t["src"], MAPROOT), "refused_by_the_parser": t["refused"],
                    "option_sets": [{"options": optname(o), "class": t["eff"][(1, i + 1)],
                                     "observables": {k: v for k, v in t["obs"][(1, i + 1)].items() if k != "at_probes"}}
                                    for i, o in enumerate(t["opts"])],
                    "probe_points": len(t["probes"])}
    ck.cov["cache_option_universe"] = uni

    def cls(lab, opts):
        t = T[lab]
        return t["eff"][(1, t["opts"].index(opts) + 1)] if opts in t["opts"] else None

    if cls("pairs", {"tolerance": 0}) in (None, cls("pairs", {})) or cls("pairs", {"tolerance": 0.0}) in (None, cls("pairs", {})):
        raise MachineryError("tolerance=0 is not distinguishable from the default on the tiny map: the option universe lost its teeth")
    if cls("pairs", {"elide_short_roads": True}) in (None, cls("pairs", {})) or cls("pairs", {"ref_points": 10}) in (None, cls("pairs", {})):
        raise MachineryError("elide_short_roads / ref_points are not distinguishable from the default on the tiny map")
    if cls("pairs-intersections", {"fill_intersections": False}) in (None, cls("pairs-intersections", {})):
        raise MachineryError("fill_intersections=False is not distinguishable from the default on the intersection map")

    tot = {"edges": 0, "loads": 0, "hits": 0, "parses": 0, "leaves": 0, "dontcare_equivalent_options_hit": 0}
    why = {}

    # ---- TLC: the free model, the two pairs models and the deviation run, side by side
    from concurrent.futures import ThreadPoolExecutor

    dev_cfg = ("SPECIFICATION Spec\nCONSTANT MaxLen = 3\nCONSTANT NMaps = 2\nCONSTANT NOpts = 2\n"
               'CONSTANT Kinds = {"truncate"}\nCONSTANT AsImplemented = TRUE\nCONSTANT Pairs = FALSE\n'
               "CONSTRAINT Bounded\nINVARIANT TypeOK\nINVARIANT FreshNetwork\nCHECK_DEADLOCK FALSE\n")
    pair_models = (("pairs", ["truncate", "garbage"]), ("pairs-intersections", ["truncate"]))
    eff_dev = eff_file([[1, 2], [1, 2]])
    t0 = time.time()
    with ThreadPoolExecutor(max_workers=4) as ex:
        f_free = ex.submit(run_cache_model, "MapCache", maxlen, 2, nopts, kinds, False, eff_rows(T["free"]),
                           ("DoLoad", "DoEditMap", "DoChangeOptions", "DoCorruptCache", "DoBumpVersion"))
        f_dev = ex.submit(run_tlc, "MapCache", dev_cfg, env={"EFF": eff_dev}, expect_fail=True, timeout=600, workers=2, heap="1g")
        f_pairs = {lab: ex.submit(run_cache_model, "MapCache(" + lab + ")", 5, len(T[lab]["maps"]), len(T[lab]["opts"]), pk, True,
                                  eff_rows(T[lab]), ("DoSetOptions", "DoLoad", "DoIdle", "DoBumpVersion", "DoCorruptCache"))
                   for lab, pk in pair_models}
        name, res, records = f_free.result()
        ck.add_tlc(name, res)
        dres = f_dev.result()
        pair_out = {}
        for lab, _pk in pair_models:
            name, pres, precs = f_pairs[lab].result()
            ck.add_tlc(name, pres)
            pair_out[lab] = precs
    ck.cov.setdefault("phase_wall_s", {})["cache_tlc"] = round(time.time() - t0, 1)
    # the named as-implemented deviation must be a real deviation: with it TLC refutes FreshNetwork
    if dres.invariant_violated != "FreshNetwork":
        raise MachineryError(f"MapCache with the as-implemented deviation should violate FreshNetwork, got {dres.invariant_violated} / {dres.error}")
    ck.cov["cache_deviation_refuted_by_tlc"] = "FreshNetwork"

    # ---- 1. free mode: every action sequence up to maxlen over a few option sets
    whys = {}
    for r in records:
        if r["hist"][-1]["a"] == "Load":
            whys[r["last"]["why"]] = whys.get(r["last"]["why"], 0) + 1
    for w in ("match", "version", "map-digest", "options-digest", "corrupt", "no-cache-file", "cache-not-requested"):
        if not whys.get(w):
            raise MachineryError(f"MapCache: no behaviour exercises a load with cache decision '{w}'")
    ck.cov["cache_behaviours"] = len(records)
    ck.cov["cache_load_decisions_in_model"] = whys
    if quick:  # all behaviours of length <= 3 and a seeded sample of length 4
        full = [r for r in records if len(r["hist"]) == maxlen]
        keep = {json.dumps(r["hist"]) for r in rnd.sample(full, min(len(full), 180))}
        chosen = [r for r in records if len(r["hist"]) < maxlen or json.dumps(r["hist"]) in keep]
        ck.cov["cache_replay_rule"] = f"free mode: all behaviours of length <= {maxlen - 1} and {len(keep)} seeded of length {maxlen}"
    else:
        chosen = records
        ck.cov["cache_replay_rule"] = f"free mode: all behaviours of length <= {maxlen}"
    jobs = plan_replay("free", T["free"], chosen)
    if "free2" in T:
        jobs += plan_replay("free2", T["free2"], chosen)
    for r in records:
        if len(r["hist"]) == 3 and r["last"]["outcome"] == "hit":
            ck.sample({"cache_behaviour": r["hist"], "expected_last_load": r["last"], "expected_cache": r["cache"]}, limit=8)
            break

    # ---- 2. pairs mode: the whole option universe, every ordered pair of option sets, with the cache
    #         present / absent / stale (map edited, version bumped) / corrupt in between
    pair_stats = {}
    for lab, nsample in (("pairs", 120 if quick else None), ("pairs-intersections", 0 if quick else None)):
        t = T[lab]
        K = len(t["opts"])
        recs = pair_out[lab]
        full = [r for r in recs if len(r["hist"]) == 5]
        core = [r for r in full if r["hist"][1]["write"] and r["hist"][2]["a"] == "Idle"]  # cache present and fresh
        if len(core) != K * K:
            raise MachineryError(f"{lab}: expected {K * K} ordered pairs of option sets, TLC printed {len(core)}")
        rest = [r for r in full if not (r["hist"][1]["write"] and r["hist"][2]["a"] == "Idle")]
        if nsample is not None:
            rest = rnd.sample(rest, min(len(rest), nsample))
        jobs += plan_replay(lab, t, with_prefixes(recs, core + rest))
        pair_stats[lab] = {"option_sets": K, "classes": len({t["eff"][(1, o)] for o in range(1, K + 1)}),
                           "behaviours_in_model": len(full), "ordered_pairs_replayed": len(core), "other_shapes_replayed": len(rest)}
        for r in core:
            if r["last"]["why"] == "options-digest" and r["hist"][3]["o"] != 1:
                ck.sample({"cache_behaviour": [act_text(a, t["opts"]) for a in r["hist"]], "expected_last_load": r["last"]}, limit=8)
                break

    # ---- 3. fault enumeration around CorruptCache on the smallest map
    src = os.path.join(MAPROOT, "misc", "Issue274.xodr")
    world_size = 8000
    step = 17 if quick else 1
    offs = [("flip", o) for o in range(seed() % step, world_size, step)]
    offs += [("trunc", o) for o in range(0, world_size, step * 4 if quick else 3)]
    jobs += [("sweep", "sweep", (src, os.path.join(scratch(), f"sweep{i}"), offs[i::6])) for i in range(6)]

    # ---- one pool for everything that touches the real code (the slow intersection map first)
    order = {"pairs-intersections": 0, "free2": 1, "free": 2, "pairs": 3, "sweep": 4}
    jobs.sort(key=lambda j: order.get(j[1], 9))
    t0 = time.time()
    done = pmap(cache_job, jobs, chunk=1)
    ck.cov.setdefault("phase_wall_s", {})["cache_replay_and_sweep"] = round(time.time() - t0, 1)
    work = {}
    agg = {"flips": 0, "truncs": 0, "still_hit_same_network": 0, "fell_back": 0, "raised": 0, "served_damaged": 0}
    for (kind, label, payload), (_k, _l, out, dt) in zip(jobs, done):
        work[label] = round(work.get(label, 0) + dt, 1)
        if kind == "replay":
            before = dict(tot)
            report_replay(ck, label, payload[0], payload[2], out[0], out[1], tot, why)
            if label in pair_stats:
                for k in ("loads", "hits"):
                    pair_stats[label][k] = pair_stats[label].get(k, 0) + tot[k] - before[k]
            continue
        sw = out
        for k in ("flips", "truncs", "still_hit_same_network", "fell_back"):
            agg[k] += sw[k]
        agg["cache_file_bytes"] = sw["size"]
        for p in sw["raised"]:
            agg["raised"] += 1
            ck.violation(
                f"damaged cache ({p['fault'][0]} at byte {p['fault'][1]}): Network.fromFile raised instead of falling back to parsing: {p['observation']['raised']}",
                {"property": "C20", "spec": "MapCache/CorruptCache", "map": "misc/Issue274.xodr", "fault": p["fault"], "observation": p["observation"]},
            )
        for p in sw["served_damaged"]:
            agg["served_damaged"] += 1
            ck.violation(
                f"damaged cache ({p['fault'][0]} at byte {p['fault'][1]} of {sw['size']}) was served as a hit although what it holds is not the parsed network: {p['observation']}",
                {"property": "C20", "spec": "MapCache/CorruptCache", "map": "misc/Issue274.xodr", "fault": p["fault"], "observation": p["observation"],
                 "how_to_replay": "Network.fromFile(copy of the map) to write map.snet; flip the byte; Network.fromFile(map, useCache=True) returns without error"},
                known_key="corrupt-cache-served" if p["trigger"] else None,
            )
    ck.cov["cache_worker_seconds"] = work
    ck.cov["cache_option_pairs"] = pair_stats
    ck.cov["cache_replay"] = dict(tot, load_decisions=why)
    if (tot["hits"] == 0 or tot["parses"] == 0) and not ck.violations:
        raise MachineryError("cache replay saw no hit or no parse: observation is broken")
    ck.cov["cache_fault_sweep"] = agg
    ck.validated(agg["flips"] + agg["truncs"])
    if agg["fell_back"] == 0 or agg["flips"] == 0:
        raise MachineryError("cache fault sweep did not exercise the fallback")


def replay(path):
    """./check C20 --replay <file>: re-run the single case of a replay file on the current tree.
    Exit 1 when the disagreement reproduces, 0 when it does not."""
    _quiet()
    r = json.load(open(path))
    print(json.dumps({k: v for k, v in r.items() if k not in ("first_witness", "observation", "expected")}, indent=1)[:1500])
    ck = Check("C20", "quick", "model_checking")
    if "behaviour" in r:  # a MapCache behaviour
        src = os.path.join(MAPROOT, r["map"])
        tables = renumber_tables(build_tables((src, os.path.join(scratch(), "replay-ref"), r["optlist"], r.get("nmaps", 2))))
        world = CacheWorld(tables, os.path.join(scratch(), "replay"))
        try:
            for act in r["behaviour"]:
                obs = world.apply(act)
                print(act_text(act, tables["opts"]), "->", obs, "cache:", world.cache_state())
        finally:
            world.close()
        print("expected by MapCache.tla:", json.dumps(r.get("expected")))
        return 1
    if "fault" in r:
        src = os.path.join(MAPROOT, r["map"])
        out = cache_fault_sweep((src, os.path.join(scratch(), "replay"), [tuple(r["fault"])]))
        print(json.dumps(out, indent=1)[:1500])
        return 1 if out["raised"] or out["served_damaged"] else 0
    if "conjunct" in r:
        opts = {}
        for kv in (r["options"].split(",") if r["options"] != "default" else []):
            k, v = kv.split("=")
            opts[k] = {"True": True, "False": False}.get(v, float(v) if "." in v else int(v))
        rel = r["map"].split("|")[0]
        job = {"label": "replay", "rel": r["map"], "src": os.path.join(MAPROOT, rel), "opts": opts, "mode": r["mode"],
               "budget": 240, "seed": r.get("seed", 0), "mutation": r.get("mutation"), "dir": os.path.join(scratch(), "replay")}
        res = export_job(job)
        if "net" not in res:
            print(res)
            return 1
        vs, strict = audit(ck, [res["net"]])
        print(json.dumps(vs[0], indent=1))
        return 1 if any(v["c"] == r["conjunct"] for v in vs[0]["violated"]) else 0
    print(json.dumps(r, indent=1)[:3000])
    return 0


def main(tier):
    _quiet()
    ck = Check("C20", tier, "model_checking")
    ck.cov["rule"] = (
        "RoadNet: one case per (map, parser options, parsed|cached|mutated file); non-trivial = at least 5 elements and "
        "20 measured points; distinct by (map, options, mode). MapCache: one case per behaviour (action sequence) "
        "printed by TLC and replayed on the real Network.fromFile; non-trivial = at least two actions"
    )
    ck.assumptions += [
        "geometric facts (which polygons contain / are within tolerance of a point, centreline tangents) are measured by "
        "the harness with shapely and numpy on the element polygons and centrelines; TLC decides the relational consistency",
        "points closer than 1e-7 to a polygon or within 1e-6 of the tolerance are don't-cares (may count either way)",
        "direction tolerance 2 degrees modulo 360; at a centreline vertex / section joint either adjacent segment is accepted",
        "sample points are a seeded finite sample (lane sections, intersections, drivable area, shoulders, sidewalks, rings just "
        "outside roads), not all points",
        "networks are identified in the cache replay by the digest of their exported structure (links, geometry summary, "
        "lookups at 36+ sample points)",
        "emptied placeholder maps (size 0) are skipped and counted",
    ]
    ck.cov["phase_wall_s"] = {}
    t = time.time()
    roadnet_part(ck, tier)
    ck.cov["phase_wall_s"]["roadnet"] = round(time.time() - t, 1)
    t = time.time()
    mapcache_part(ck, tier)
    ck.cov["phase_wall_s"]["mapcache"] = round(time.time() - t, 1)
    ck.cov["exhaustive"] = False
    ck.cov["explanation"] = (
        "MapCache.tla: exhaustive over all action sequences up to the bound (TLC), replayed on the real code; "
        "RoadNet.tla: TLC evaluates every conjunct of WellFormed on every exported network (state audit)"
    )
    return ck.finish()


if __name__ == "__main__":
    sys.exit(main(sys.argv[1] if len(sys.argv) > 1 else "quick"))
