"""Shared machinery for all checks: scratch dirs, TLC driver, evidence, findings, verdicts.

Run with /venv/bin/python (imports scenic from /repo/src through the editable install).
Exit-code contract (DESIGN.md Appendix C): 0 held, 1 VIOLATION line printed, 2 machinery failure.
"""

import atexit
import hashlib
import json
import os
import re
import shutil
import subprocess
import sys
import tempfile
import time

for _v in ("OMP_NUM_THREADS", "OPENBLAS_NUM_THREADS", "MKL_NUM_THREADS", "NUMEXPR_NUM_THREADS"):
    os.environ.setdefault(_v, "1")
os.environ.setdefault("PYTHONHASHSEED", "0")

VERIF = os.path.dirname(os.path.dirname(os.path.abspath(__file__)))
REPO = os.environ.get("VERIF_REPO", "/repo")
SPEC = os.path.join(VERIF, "spec")
EVIDENCE = os.path.join(VERIF, "evidence")
REPLAYS = os.path.join(VERIF, "replays")
KNOWN = os.path.join(VERIF, "KNOWN_FINDINGS.txt")
NCPU = min(16, os.cpu_count() or 1)
PY = "/venv/bin/python"

_scratch = None


def scratch():
    """Per-run scratch directory outside /repo and /verif, removed at exit."""
    global _scratch
    if _scratch is None:
        _scratch = tempfile.mkdtemp(prefix="scenic-verif-")
        atexit.register(shutil.rmtree, _scratch, ignore_errors=True)
    return _scratch


def seed():
    try:
        return int(os.environ.get("VERIF_SEED", "0"))
    except ValueError:
        return 0


class MachineryError(Exception):
    """The verification machinery itself failed (exit 2, never a VIOLATION)."""


# --------------------------------------------------------------------------- TLC


class TLCResult:
    def __init__(self):
        self.outputs = []  # parsed JSON values printed by the spec (PrintT(ToJson(..)))
        self.generated = 0
        self.distinct = 0
        self.depth = 0
        self.coverage = {}  # action name -> (distinct, total)
        self.error = None  # text of the TLC error section, if any
        self.invariant_violated = None
        self.stdout = ""
        self.wall = 0.0
        self.ok = False


_re_states = re.compile(r"(\d+) states generated, (\d+) distinct states found")
_re_depth = re.compile(r"The depth of the complete state graph search is (\d+)")
_re_inv = re.compile(r"Error: Invariant (\S+) is violated")
_re_actprop = re.compile(r"Error: Action property (\S+) is violated")
_re_cov = re.compile(r"^<(\w+) line .*?>: (\d+):(\d+)")


def run_tlc(
    module,
    cfg,
    env=None,
    workers=NCPU,
    simulate=None,
    depth=None,
    coverage=False,
    timeout=3600,
    seed_=None,
    dfs=False,
    expect_fail=False,
    extra=(),
    heap="8g",
):
    """Run TLC on spec/<module>.tla with the given cfg text.  Returns TLCResult.

    Output lines that are JSON string literals (PrintT(ToJson(x))) are parsed into
    result.outputs.  Any TLC error other than an invariant violation that the caller
    expects raises MachineryError.
    """
    sdir = tempfile.mkdtemp(prefix="tlc-", dir=scratch())
    cfgpath = os.path.join(sdir, module + ".cfg")
    with open(cfgpath, "w") as f:
        f.write(cfg)
    # TLC wants the module next to its cfg or on the path: copy the spec tree (small).
    for root, _dirs, files in os.walk(SPEC):
        for fn in files:
            if fn.endswith(".tla"):
                dst = os.path.join(sdir, fn)
                if not os.path.exists(dst):
                    shutil.copy(os.path.join(root, fn), dst)
    cmd = [
        "java",
        "-XX:+UseParallelGC",
        "-Xmx" + heap,
        "-Xss64m",
    ]
    if dfs:
        cmd.append("-Dtlc2.tool.queue.IStateQueue=StateDeque")
    cmd += [
        "-cp",
        "/opt/veriftools/tla/tla2tools.jar:/opt/veriftools/tla/CommunityModules-deps.jar",
        "tlc2.TLC",
        "-workers",
        str(workers),
        "-metadir",
        os.path.join(sdir, "meta"),
        "-noGenerateSpecTE",
        "-config",
        cfgpath,
    ]
    if coverage:
        cmd += ["-coverage", "1"]
    if simulate is not None:
        cmd += ["-simulate", simulate]
        if depth:
            cmd += ["-depth", str(depth)]
    if seed_ is not None:
        cmd += ["-seed", str(seed_)]
    cmd += list(extra)
    cmd.append(os.path.join(sdir, module + ".tla"))
    e = dict(os.environ)
    if env:
        e.update({k: str(v) for k, v in env.items()})
    t0 = time.time()
    try:
        p = subprocess.run(
            cmd, cwd=sdir, env=e, capture_output=True, text=True, timeout=timeout
        )
    except subprocess.TimeoutExpired:
        raise MachineryError(f"TLC timed out after {timeout}s on {module}")
    res = TLCResult()
    res.wall = time.time() - t0
    res.stdout = p.stdout
    errlines = []
    in_err = False
    for line in p.stdout.splitlines():
        if line.startswith('"') and line.endswith('"') and len(line) > 1:
            try:
                inner = json.loads(line)
                res.outputs.append(json.loads(inner))
                continue
            except Exception:
                pass
        m = _re_states.search(line)
        if m:
            res.generated, res.distinct = int(m.group(1)), int(m.group(2))
        m = _re_depth.search(line)
        if m:
            res.depth = int(m.group(1))
        m = _re_inv.search(line) or _re_actprop.search(line)
        if m:
            res.invariant_violated = m.group(1)
        m = _re_cov.match(line)
        if m:
            name = m.group(1)
            d, t = int(m.group(2)), int(m.group(3))
            od, ot = res.coverage.get(name, (0, 0))
            res.coverage[name] = (od + d, ot + t)
        if line.startswith("Error:") or in_err:
            in_err = True
            errlines.append(line)
            if len(errlines) > 60:
                in_err = False
    if errlines:
        res.error = "\n".join(errlines)
    res.ok = p.returncode == 0 and not errlines
    if not res.ok and not expect_fail:
        tail = "\n".join(p.stdout.splitlines()[-40:])
        raise MachineryError(
            f"TLC failed on {module} (rc={p.returncode}):\n{res.error or tail}\n{p.stderr[-2000:]}"
        )
    shutil.rmtree(sdir, ignore_errors=True)
    return res


def tlc_classpath_ok():
    return os.path.exists("/opt/veriftools/tla/tla2tools.jar")


# --------------------------------------------------------------------------- findings


class Findings:
    """KNOWN_FINDINGS.txt: `known: property=Cxx key=<key> text` / `fixed: property=Cxx <commit> text`.
    Never written at run time."""

    def __init__(self, prop):
        self.prop = prop
        self.known = {}
        self.hit = {}
        if os.path.exists(KNOWN):
            for line in open(KNOWN):
                line = line.strip()
                if not line.startswith("known:"):
                    continue
                m = re.match(r"known:\s+property=(\S+)\s+key=(\S+)\s+(.*)", line)
                if m and m.group(1) == prop:
                    self.known[m.group(2)] = m.group(3)

    def is_known(self, key):
        if key in self.known:
            self.hit[key] = self.hit.get(key, 0) + 1
            return True
        return False

    def print_hits(self):
        for key, n in sorted(self.hit.items()):
            print(f"KNOWN-FINDING: property={self.prop} key={key} ({n} cases) {self.known[key]}")


# --------------------------------------------------------------------------- verdicts


class Check:
    """One run of one property's check: collects coverage, violations, evidence."""

    def __init__(self, prop, tier, level):
        self.prop = prop
        self.tier = tier
        self.level = level
        self.t0 = time.time()
        self.findings = Findings(prop)
        self.violations = []
        self.cov = {
            "states": 0,
            "transitions": 0,
            "traces_validated_against_impl": 0,
            "evaluations": 0,
            "distinct_nontrivial": 0,
            "samples": [],
            "rule": "",
            "exhaustive": False,
            "tlc_runs": [],
            "dropped_by_generator": 0,
            "known_findings_seen": {},
        }
        self.assumptions = []
        self._distinct = set()

    # -- bookkeeping
    def add_tlc(self, name, res):
        self.cov["states"] += res.distinct
        self.cov["transitions"] += res.generated
        self.cov["tlc_runs"].append(
            {
                "spec": name,
                "distinct_states": res.distinct,
                "states_generated": res.generated,
                "depth": res.depth,
                "wall_s": round(res.wall, 2),
                "action_coverage": {k: list(v) for k, v in sorted(res.coverage.items())},
            }
        )

    def case(self, key, nontrivial=True):
        self.cov["evaluations"] += 1
        if nontrivial:
            h = hashlib.sha1(repr(key).encode()).digest()[:8]
            self._distinct.add(h)

    def validated(self, n=1):
        self.cov["traces_validated_against_impl"] += n

    def sample(self, obj, limit=5):
        if len(self.cov["samples"]) < limit:
            self.cov["samples"].append(obj)

    def violation(self, key, replay, known_key=None):
        """Report a disagreement.  known_key: key computed by the spec's as-implemented
        deviation + trigger predicate; when listed in KNOWN_FINDINGS it is not a violation."""
        if known_key and self.findings.is_known(known_key):
            self.cov["known_findings_seen"][known_key] = (
                self.cov["known_findings_seen"].get(known_key, 0) + 1
            )
            return False
        os.makedirs(REPLAYS, exist_ok=True)
        body = json.dumps(replay, indent=1, sort_keys=True, default=str)
        h = hashlib.sha1(body.encode()).hexdigest()[:10]
        path = os.path.join(REPLAYS, f"{self.prop}-{h}.json")
        with open(path, "w") as f:
            f.write(body)
        self.violations.append((key, path))
        if len(self.violations) <= 20:
            print(f"VIOLATION property={self.prop} replay={path}", flush=True)
            print(f"  {key}", flush=True)
        return True

    def finish(self):
        self.cov["distinct_nontrivial"] = len(self._distinct)
        self.findings.print_hits()
        ev = {
            "property_id": self.prop,
            "tier": self.tier,
            "seed": seed(),
            "level": self.level,
            "coverage": self.cov,
            "assumptions": self.assumptions,
            "wall_s": round(time.time() - self.t0, 2),
            "violations": len(self.violations),
        }
        os.makedirs(EVIDENCE, exist_ok=True)
        # (runs against seeded changes set VERIF_EVIDENCE_SUFFIX so that they do not overwrite
        #  the evidence of the unchanged tree)
        path = os.path.join(EVIDENCE, f"{self.prop}{os.environ.get('VERIF_EVIDENCE_SUFFIX', '')}.json")
        tmp = path + ".tmp"
        with open(tmp, "w") as f:
            json.dump(ev, f, indent=1, default=str)
        os.replace(tmp, path)
        n = len(self.violations)
        print(
            f"[{self.prop}] tier={self.tier} evaluations={self.cov['evaluations']} "
            f"distinct={self.cov['distinct_nontrivial']} tlc_states={self.cov['states']} "
            f"validated={self.cov['traces_validated_against_impl']} violations={n} "
            f"wall={ev['wall_s']}s",
            flush=True,
        )
        return 1 if n else 0


# --------------------------------------------------------------------------- parallel map


def _roomy(f):
    return f()


# CPython 3.12 mmaps/munmaps a 16 KiB "data stack chunk" whenever the recursion crosses a chunk
# boundary; Scenic's recursive-descent parser does that ~90x per compiled program and page faults
# are very expensive on this VM.  A frame that claims a huge evaluation stack makes CPython
# allocate ONE big chunk for everything below it (measured: 60 compilations 1.3 s instead of
# 7-13 s).  Purely a performance device of the harness; nothing in /repo changes.
_roomy.__code__ = _roomy.__code__.replace(co_stacksize=400000)


def roomy(fn, *args):
    return _roomy(lambda: fn(*args))


def _roomy_call(arg):
    fn, x = arg
    return _roomy(lambda: fn(x))


def pmap(fn, items, procs=6, chunk=None, fresh=False):
    """Map fn over items in forked worker processes (each imports scenic afresh from /repo).
    fn must be a top-level function; results are returned in order."""
    import multiprocessing as mp

    try:  # import once in the parent so that forked workers share it
        import scenic  # noqa: F401
    except Exception:
        pass
    items = list(items)
    if not items:
        return []
    procs = max(1, min(procs, len(items)))
    if procs == 1:
        return [roomy(fn, x) for x in items]
    ctx = mp.get_context("fork")
    pairs = [(fn, x) for x in items]
    if fresh:  # one forked child per item: every item starts from the parent's pristine state
        with ctx.Pool(procs, maxtasksperchild=1) as pool:
            return pool.map(_roomy_call, pairs, chunksize=1)
    if chunk is None:
        chunk = max(1, len(items) // (procs * 8))
    with ctx.Pool(procs) as pool:
        return pool.map(_roomy_call, pairs, chunksize=chunk)


def canon_float(x, tol=1e-6):
    """Render a float as an exact rational on the 1/8 lattice when within tol, else None."""
    q = round(x * 8)
    if abs(x * 8 - q) <= tol * 8:
        return q
    return None
