"""Shared machinery for the dynamic checks (C12, C13, C19): the case format of spec/Dynamics.tla,
its printer to Scenic source text, the helper module imported by generated programs, the logging
simulator, and the runner that executes one case on the real code and returns its event log.

One internal tree (the JSON case itself), two consumers: Dynamics.tla reads it as a constant,
`to_scenic` prints it as a Scenic program (trusted glue, DESIGN.md 1.3)."""

import os
import signal
import sys
from fractions import Fraction

HELPER = '''"""Helper imported by generated Scenic programs: user-level events and table look-ups."""
import scenic.syntax.veneer as veneer
from scenic.core.simulators import Action

EVENTS = []
TABLE = {}
RTABLE = {}      # condition name -> row of booleans: evaluating the condition at step t raises a rejection


def now():
    return veneer.currentSimulation.currentTime


def tv(name):
    if name in RTABLE:
        rrow = RTABLE[name]
        if rrow[now()] if now() < len(rrow) else rrow[-1]:
            from scenic.core.dynamics.utils import RejectSimulationException
            raise RejectSimulationException("rejection raised while evaluating " + name)
    row = TABLE[name]
    t = now()
    return bool(row[t] if t < len(row) else row[-1])


def log(label):
    EVENTS.append(["log", label, now()])


def rec(name):
    EVENTS.append(["rec", name, now()])
    return now()


def rnd(label, value):
    EVENTS.append(["rnd", label, int(value), now()])


class Act(Action):
    def __init__(self, i):
        self.i = i

    def applyTo(self, obj, sim):
        pass

    def __repr__(self):
        return f"Act({self.i})"
'''


# ------------------------------------------------------------------ printer: case -> Scenic text
def _cond(c):
    return f'tv("{c}")'


_WSCALE = [1]     # weights are printed divided by this power of two (set by to_scenic from the case's wscale)


def _w(w):
    return str(w) if _WSCALE[0] == 1 else repr(w / _WSCALE[0])


_SHARED = [False]   # every `do D()` statement of a behaviour invokes ONE behaviour object, created when the invoking
                    # behaviour starts and used each time control reaches that statement (set by to_scenic from the
                    # case's "shared"): a sub-behaviour that was stopped or has finished must be startable again
_SITES = []         # (site number, definition) of the behaviour being printed


def _inv(d, name):
    if not _SHARED[0]:
        return f"{name(d)}()"
    _SITES.append((len(_SITES) + 1, d))
    return f"_s{len(_SITES)}"


def _invoked(stmts):
    """definitions invoked by do / do-for / do-until statements of a block (recursively)"""
    out = []
    for s in stmts:
        if s[0] in ("do", "dofor", "dountil"):
            out.append(s[1])
        elif s[0] == "if":
            out += _invoked(s[2]) + _invoked(s[3])
        elif s[0] == "while":
            out += _invoked(s[2])
        elif s[0] == "try":
            out += _invoked(s[1])
            for _c, h in s[2]:
                out += _invoked(h)
    return out


def _items(items, name):
    if all(w == 1 for _d, w in items) and _WSCALE[0] == 1:
        return ", ".join(f"{name(d)}()" for d, _w in items)
    return "{" + ", ".join(f"{name(d)}(): {_w(w)}" for d, w in items) + "}"


def _block(stmts, ind, name, ismon):
    pad = "    " * ind
    if not stmts:
        return [pad + "pass"]
    out = []
    for s in stmts:
        k = s[0]
        if k == "take":
            out.append(f"{pad}take Act({s[1]})")
        elif k == "wait":
            out.append(f"{pad}wait")
        elif k == "log":
            out.append(f'{pad}log("{s[1]}")')
        elif k == "require":
            out.append(f"{pad}require {_cond(s[1])}")
        elif k == "terminate":
            out.append(f"{pad}terminate")
        elif k == "termsim":
            out.append(f"{pad}terminate simulation")
        elif k == "if":
            out.append(f"{pad}if {_cond(s[1])}:")
            out += _block(s[2], ind + 1, name, ismon)
            if s[3]:
                out.append(f"{pad}else:")
                out += _block(s[3], ind + 1, name, ismon)
        elif k == "while":
            out.append(f"{pad}while {_cond(s[1])}:")
            out += _block(s[2], ind + 1, name, ismon)
        elif k == "do":
            out.append(f"{pad}do {_inv(s[1], name)}")
        elif k == "dofor":
            out.append(f"{pad}do {_inv(s[1], name)} for {s[2]} {s[3]}")
        elif k == "dountil":
            out.append(f"{pad}do {_inv(s[1], name)} until {_cond(s[2])}")
        elif k == "waitfor":
            out.append(f"{pad}wait for {s[1]} {s[2]}")
        elif k == "waituntil":
            out.append(f"{pad}wait until {_cond(s[1])}")
        elif k == "choose":
            out.append(f"{pad}do choose {_items(s[1], name)}")
        elif k == "shuffle":
            out.append(f"{pad}do shuffle {_items(s[1], name)}")
        elif k == "rand":
            out.append(f'{pad}rnd("{s[3]}", DiscreteRange({s[1]}, {s[2]}))')
        elif k == "disc":
            out.append(f'{pad}rnd("{s[2]}", Discrete({{' + ", ".join(f"{v}: {_w(w)}" for v, w in s[1]) + "}))")
        elif k == "try":
            out.append(f"{pad}try:")
            out += _block(s[1], ind + 1, name, ismon)
            for c, h in s[2]:
                out.append(f"{pad}interrupt when {_cond(c)}:")
                out += _block(h, ind + 1, name, ismon)
        elif k in ("abort", "break", "continue", "return"):
            out.append(f"{pad}{k}")
        else:
            raise ValueError(s)
    return out


def normalize(case):
    """Old-style cases (a single top-level scenario given by flat fields) get the scenario-definition
    form Dynamics.tla reads: sdefs (pre, termWhen, termSimWhen, termAfter, records, monitors,
    hascompose, compose) and top."""
    case.setdefault("impl", 0)
    case.setdefault("invimpl", 0)
    case.setdefault("rtable", {})
    if "sdefs" not in case:
        case["sdefs"] = [{
            "pre": [], "termWhen": case["termWhen"], "termSimWhen": case["termSimWhen"],
            "termAfter": case["termAfter"], "records": case["records"], "monitors": case["monitors"],
            "hascompose": False, "compose": [],
        }]
        case["top"] = 1
    for sd in case["sdefs"]:
        sd.setdefault("objs", [])     # behaviour definitions (0: none) of the objects its setup block creates
    if "orcmax" not in case:
        case["orcmax"], case["orcalt"] = _orc_bounds(case)
    return case


def _pick_sites(stmts):
    """(number of random picks a block can ask for in one pass, largest number of alternatives)"""
    n, alt = 0, 1
    for s in stmts:
        k = s[0]
        if k in ("choose", "schoose"):
            n, alt = n + 1, max(alt, len(s[1]))
        elif k in ("shuffle", "sshuffle"):
            n, alt = n + len(s[1]) - 1, max(alt, len(s[1]))
        elif k == "rand":
            n, alt = n + 1, max(alt, s[2] - s[1] + 1)
        elif k == "disc":
            n, alt = n + 1, max(alt, len(s[1]))
        elif k == "if":
            for b in (s[2], s[3]):
                m, a = _pick_sites(b)
                n, alt = n + m, max(alt, a)
        elif k == "while":
            m, a = _pick_sites(s[2])
            n, alt = n + 2 * m, max(alt, a)
        elif k == "try":
            for b in [s[1]] + [h for _c, h in s[2]]:
                m, a = _pick_sites(b)
                n, alt = n + m, max(alt, a)
    return n, alt


def _orc_bounds(case):
    """Bounds of the oracle scripts of Dynamics.tla (picks made by compose blocks / monitors in one
    ScenarioStep / MonitorResume).  A bound that is too small loses behaviours, which the checks
    detect (the weights of a case's behaviours no longer sum to 1)."""
    monset = set(m for sd in case["sdefs"] for m in sd["monitors"])
    n, alt = 0, 1
    for sd in case["sdefs"]:
        m, a = _pick_sites(sd["compose"] if sd["hascompose"] else [])
        n, alt = n + m, max(alt, a)
    for d in monset:
        m, a = _pick_sites(case["defs"][d - 1]["body"])
        n, alt = n + m, max(alt, a)
    return (min(n, 4), alt) if n else (0, 1)


def _sblock(stmts, ind, name, sname):
    """compose-block statements: `do` invokes scenarios"""
    pad = "    " * ind
    out = []
    for s in stmts:
        k = s[0]
        if k == "sdo":
            out.append(f"{pad}do " + ", ".join(f"{sname(x)}()" for x in s[1]))
        elif k == "sdofor":
            out.append(f"{pad}do " + ", ".join(f"{sname(x)}()" for x in s[1]) + f" for {s[2]} {s[3]}")
        elif k == "sdountil":
            out.append(f"{pad}do " + ", ".join(f"{sname(x)}()" for x in s[1]) + f" until {_cond(s[2])}")
        elif k == "schoose":
            out.append(f"{pad}do choose {_items(s[1], sname)}")
        elif k == "sshuffle":
            out.append(f"{pad}do shuffle {_items(s[1], sname)}")
        elif k == "if":
            out.append(f"{pad}if {_cond(s[1])}:")
            out += _sblock(s[2], ind + 1, name, sname) or [pad + "    pass"]
            if s[3]:
                out.append(f"{pad}else:")
                out += _sblock(s[3], ind + 1, name, sname)
        elif k == "while":
            out.append(f"{pad}while {_cond(s[1])}:")
            out += _sblock(s[2], ind + 1, name, sname)
        elif k == "try":
            out.append(f"{pad}try:")
            out += _sblock(s[1], ind + 1, name, sname)
            for c, h in s[2]:
                out.append(f"{pad}interrupt when {_cond(c)}:")
                out += _sblock(h, ind + 1, name, sname)
        else:
            out += _block([s], ind, name, True)
    return out


def _setup_lines(sd, name):
    lines = []
    for d in sd["monitors"]:
        lines.append(f"require monitor {name(d)}()")
    for kind, nm in sd["records"]:
        kw = {"rec": "record", "init": "record initial", "final": "record final"}[kind]
        lines.append(f'{kw} rec("{nm}") as {nm}')
    for c in sd["termWhen"]:
        lines.append(f"terminate when {_cond(c)}")
    for c in sd["termSimWhen"]:
        lines.append(f"terminate simulation when {_cond(c)}")
    if sd["termAfter"]:
        lines.append(f"terminate after {sd['termAfter'][0]} {sd['termAfter'][1]}")
    return lines


def to_scenic(case):
    normalize(case)
    _WSCALE[0] = case.get("wscale", 1)
    _SHARED[0] = bool(case.get("shared"))
    sdefs = case["sdefs"]
    monset = set(m for sd in sdefs for m in sd["monitors"])
    name = lambda d: ("M" if d in monset else "D") + str(d)
    sname = lambda s: f"S{s}"
    lines = ["from vlog import log, tv, rec, rnd, Act"]
    for d, df in enumerate(case["defs"], start=1):
        kw = "monitor" if d in monset else "behavior"
        lines.append(f"{kw} {name(d)}():")
        for c in df["pre"]:
            lines.append(f"    precondition: {_cond(c)}")
        for c in df["inv"]:
            lines.append(f"    invariant: {_cond(c)}")
        del _SITES[:]
        body_lines = _block(df["body"], 1, name, d in monset)
        lines += [f"    _s{n} = {name(sub)}()" for n, sub in _SITES] + body_lines
    objs = []
    for i, d in enumerate(case["agents"]):
        var = "ego" if i == 0 else f"obj{i}"
        b = f", with behavior {name(d)}()" if d else ""
        objs.append(
            f"{var} = new Object at ({10 * i}, 0, 0), with allowCollisions True, with requireVisible False{b}"
        )
    flat = len(sdefs) == 1 and not sdefs[0]["hascompose"] and not sdefs[0]["pre"]
    if flat:
        lines += objs + _setup_lines(sdefs[0], name)
        return "\n".join(lines) + "\n"
    for s, sd in enumerate(sdefs, start=1):
        lines.append(f"scenario {sname(s)}():")
        for c in sd["pre"]:
            lines.append(f"    precondition: {_cond(c)}")
        own = []
        if s != case["top"]:
            for j, d in enumerate(sd["objs"]):
                b = f", with behavior {name(d)}()" if d else ""
                own.append(f"new Object at ({10 * j}, {7 * s}, 0), with allowCollisions True, with requireVisible False{b}")
        body = (objs if s == case["top"] else own) + _setup_lines(sd, name)
        lines.append("    setup:")
        lines += ["        " + x for x in (body or ["pass"])]
        if sd["hascompose"]:
            lines.append("    compose:")
            lines += _sblock(sd["compose"], 2, name, sname)
    return f"# TOP: {sname(case['top'])}\n" + "\n".join(lines) + "\n"


def runs_sub_under_wrapper(case):
    """Trigger of the named deviation invimpl: a behaviour with invariants runs a sub-behaviour under
    do-for / do-until or inside a try/interrupt statement."""
    def has_do(stmts):
        for st in stmts:
            if st[0] in ("do", "dofor", "dountil", "choose", "shuffle"):
                return True
            if st[0] == "if" and (has_do(st[2]) or has_do(st[3])):
                return True
            if st[0] == "while" and has_do(st[2]):
                return True
            if st[0] == "try" and (has_do(st[1]) or any(has_do(h) for _c, h in st[2])):
                return True
        return False

    def wrapped(stmts):
        for st in stmts:
            if st[0] in ("dofor", "dountil"):
                return True
            if st[0] == "try" and (has_do(st[1]) or any(has_do(h) for _c, h in st[2])):
                return True
            if st[0] == "if" and (wrapped(st[2]) or wrapped(st[3])):
                return True
            if st[0] == "while" and wrapped(st[2]):
                return True
            if st[0] == "try" and (wrapped(st[1]) or any(wrapped(h) for _c, h in st[2])):
                return True
        return False

    return any(d["inv"] and wrapped(d["body"]) for d in case["defs"])


# ------------------------------------------------------------------ running a case on the real code
class Timeout(Exception):
    pass


def _alarm(_sig, _frm):
    raise Timeout()


_helper_dir = None


def install_helper(scratch_dir):
    """Write vlog.py into scratch and put it on sys.path (once per process)."""
    global _helper_dir
    if _helper_dir is None:
        path = os.path.join(scratch_dir, "vloghelper")
        os.makedirs(path, exist_ok=True)
        with open(os.path.join(path, "vlog.py"), "w") as f:
            f.write(HELPER)
        sys.path.insert(0, path)
        _helper_dir = path
    import vlog

    return vlog


def make_simulator(vlog, sched):
    from scenic.core.simulators import DummySimulation, Simulator

    class LogSimulation(DummySimulation):
        def createObjectInSimulator(self, obj):
            vlog.EVENTS.append(["create", self.objects.index(obj) + 1])   # (already appended to the simulation's list)

        def scheduleForAgents(self):
            t = self.currentTime
            vlog.EVENTS.append(["sched", t])
            perm = sched[t % len(sched)]
            byidx = {self.objects.index(a) + 1: a for a in self.agents}
            return [byidx[i] for i in perm if i in byidx] + [byidx[i] for i in sorted(byidx) if i > len(perm)]

        def executeActions(self, allActions):
            vlog.EVENTS.append(
                ["exec", self.currentTime, [[a.i for a in allActions[o]] if o in allActions else [] for o in self.objects],
                 [self.objects.index(o) + 1 for o in allActions]]   # the order of the entries: the order of application
            )
            super().executeActions(allActions)

        def step(self):
            vlog.EVENTS.append(["simstep", self.currentTime])
            super().step()

        def updateObjects(self):
            vlog.EVENTS.append(["read", self.currentTime])
            super().updateObjects()

    class LogSimulator(Simulator):
        def createSimulation(self, scene, **kwargs):
            return LogSimulation(scene, **kwargs)

    return LogSimulator()


_compiled = {}


def compile_case(text):
    import scenic

    if text not in _compiled:
        if len(_compiled) > 64:
            _compiled.clear()
        top = text.split("\n", 1)[0][7:].strip() if text.startswith("# TOP: ") else None
        scenario = scenic.scenarioFromString(text, scenario=top, mode2D=False)
        scene, _ = scenario.generate(maxIterations=5)
        _compiled[text] = (scenario, scene)
    return _compiled[text]


def run_case(case, text, scratch_dir, raise_guards=False, timeout=10):
    """Execute one case on the real code.  Returns dict(events, ending, nexec, ntraj, records) or
    dict(error=...).  Deterministic unless the program draws (then call under rng.Scripted)."""
    vlog = install_helper(scratch_dir)
    from scenic.core.dynamics.guards import GuardViolation, PreconditionViolation

    try:
        scenario, scene = compile_case(text)
    except Exception as e:
        return {"error": f"compile: {type(e).__name__}: {e}"}
    vlog.TABLE.clear()
    vlog.TABLE.update(case["table"])
    vlog.RTABLE.clear()
    vlog.RTABLE.update(case.get("rtable", {}))
    del vlog.EVENTS[:]
    sim = make_simulator(vlog, case["sched"])
    dt = Fraction(case["dt"][0], case["dt"][1])
    old = signal.signal(signal.SIGALRM, _alarm)
    signal.alarm(timeout)
    try:
        res = sim.simulate(
            scene, maxSteps=case["maxSteps"], maxIterations=1, timestep=float(dt), raiseGuardViolations=raise_guards
        )
    except Timeout:
        return {"error": "timeout", "events": list(vlog.EVENTS)}
    except GuardViolation as e:
        kind = "guardpre" if isinstance(e, PreconditionViolation) else "guardinv"
        return {"events": [list(x) for x in vlog.EVENTS], "ending": ["raised", kind], "nexec": None, "ntraj": None}
    except Exception as e:
        import traceback

        return {"error": f"{type(e).__name__}: {e}", "events": list(vlog.EVENTS), "tb": traceback.format_exc()[-1200:],
                "exc_type": type(e).__name__}
    finally:
        signal.alarm(0)
        signal.signal(signal.SIGALRM, old)
    events = [list(e) for e in vlog.EVENTS]
    if res is None:
        return {"events": events, "ending": ["rejected"], "nexec": None, "ntraj": None}
    r = res.result
    return {
        "events": events,
        "ending": [r.terminationType.name, res.currentTime],
        "nexec": len(r.actions),
        "ntraj": len(r.trajectory),
        "records": sorted(r.records.keys()),
    }


def settle(case, text, scratch_dir, real, raise_guards=False):
    """A watchdog timeout under machine load must not become a verdict: re-run once, alone, with a
    generous limit (rule 3 of DESIGN 2.8); only a reproducible timeout is reported."""
    if real.get("error") == "timeout":
        return run_case(case, text, scratch_dir, raise_guards=raise_guards, timeout=150)
    return real


def expected_of(out, raise_guards=False):
    """Normalise a Dynamics.tla terminal record into the same shape as run_case's result."""
    ev = [list(e) if isinstance(e, (list, tuple)) else e for e in out["ev"]]
    ending = out["ending"]
    if ending[0] == "rejected":
        kind = ending[2] if len(ending) > 2 else "reject"
        if raise_guards and kind in ("guardpre", "guardinv"):
            return {"events": ev, "ending": ["raised", kind], "nexec": None, "ntraj": None}
        return {"events": ev, "ending": ["rejected"], "nexec": None, "ntraj": None}
    return {"events": ev, "ending": [ending[0], ending[1]], "nexec": out["nexec"], "ntraj": out["ntraj"]}


def compare(exp, real):
    """First difference between expected and observed, or None.  After a rejection the events of
    the rejected run are compared up to the rejection point (the rejected step's partial events
    are part of the phase order, so they are compared too)."""
    if "error" in real:
        return f"real code: {real['error']}"
    if exp["ending"] != real["ending"]:
        return f"ending: expected {exp['ending']} observed {real['ending']}"
    n = min(len(exp["events"]), len(real["events"]))
    for i in range(n):
        if exp["events"][i] != real["events"][i]:
            return f"event {i}: expected {exp['events'][i]} observed {real['events'][i]}"
    if len(exp["events"]) != len(real["events"]):
        longer = exp["events"] if len(exp["events"]) > n else real["events"]
        which = "expected" if len(exp["events"]) > n else "observed"
        return f"event {n}: only {which} has {longer[n]}"
    if exp["nexec"] != real["nexec"] or exp["ntraj"] != real["ntraj"]:
        return f"action log / trajectory length: expected {exp['nexec']}/{exp['ntraj']} observed {real['nexec']}/{real['ntraj']}"
    return None


CFG = """SPECIFICATION Spec
INVARIANT OneEntryPerStep
INVARIANT WeightsAreProbabilities
INVARIANT StepBound
INVARIANT Emit1
PROPERTY PhaseOrder
PROPERTY ClockOnlyInTick
PROPERTY NothingAfterEnding
PROPERTY EachAgentOncePerStep
CHECK_DEADLOCK FALSE
"""
