"""Programs for C18 (Codec.tla): the finite-discrete fragment of gen_discrete with integer
leaves on the width boundaries of the integer field, plus float / Vector leaves with a
scripted finite support.  Reuses gen_discrete's AST, its Scenic printer and its DAG printer;
`to_codec` rewrites the Sampler.tla constant into the Codec.tla one (integer values as
9-byte two's complement sequences)."""

import random
import struct

import gen_discrete as gd

# DiscreteRange(lo, hi) leaves straddling every boundary of writeInt / readInt
BOUNDARY_LEAVES = [
    (251, 254),  # 1 byte | tag 253
    (-2, 1),  # negative values never take the 1-byte form
    (32766, 32769),  # tag 253 | tag 254
    (-32770, -32767),
    (65534, 65537),  # 2^16
    (300, 302),  # the 2-byte example of DESIGN.md 7 #17
    (2**31 - 2, 2**31 + 1),  # tag 254 | tag 255
    (-(2**31) - 2, -(2**31) + 1),
    (2**39 - 2, 2**39 + 1),  # length 5 | 6
    (-(2**39) - 2, -(2**39) + 1),
    (2**63 - 2, 2**63 + 1),  # length 8 | 9
    (-(2**63) - 2, -(2**63) + 1),
]
QUICK_LEAVES = [l for l in BOUNDARY_LEAVES[:8] if l != (65534, 65537)]


def b9(v):
    return list(int(v).to_bytes(9, "little", signed=True))


def from_b9(b):
    return int.from_bytes(bytes(b), "little", signed=True)


def to_codec(prog, hdr, info=None):
    """Sampler.tla constant -> Codec.tla constant."""
    nodes = []
    for i, nd in enumerate(prog["nodes"]):
        if nd["k"] == "const":
            nodes.append({"k": "const", "a": [], "c": b9(nd["c"][0])})
        elif nd["k"] == "tleaf":
            nodes.append({"k": "tleaf", "a": [], "c": list(nd["c"]), "toks": sorted(list(t) for t in nd["toks"])})
        else:
            nodes.append({"k": nd["k"], "a": list(nd["a"]), "c": list(nd["c"])})
            if "thr" in nd:
                nodes[-1]["thr"] = list(nd["thr"])
    return {"nodes": nodes, "roots": prog["roots"], "outs": prog["outs"], "hdr": list(hdr), "tab": 0,
            "sweep": 1 if (info or {}).get("sweep") else 0}


def uniform_halves(a, b):
    """Scripted random.uniform: two lattice values per call."""
    from fractions import Fraction

    return [(a + (b - a) * q, Fraction(1, 2)) for q in (0.25, 0.75)]


def _c(v):
    return {"k": "const", "a": [], "c": [v]}


def _t(w):
    return {"k": "tleaf", "a": [], "c": [w], "toks": []}


def typed_programs(tier):
    """Hand-written programs with float (8-byte) and Vector (24-byte) primitive values: alone,
    as options of a multiplexer next to integers, shared, last / not last in the stream.  The
    finite support of a leaf (its `toks`) is filled in by the harness from the scripted
    random.uniform; the values are opaque byte strings for Codec.tla."""
    P = []

    def add(text, nodes, roots, outs, outnames):
        P.append((text, {"nodes": nodes, "roots": roots, "outs": outs, "reqs": [], "maxIter": 1},
                  {"outnames": outnames, "uniform": uniform_halves, "branches": 0, "typed": True}))

    add("x = Range(1, 2)\nparam p = x\n", [_t(8)], [1], [1], [["param", "p"]])
    add("x = Range(1, 2)\ny = Uniform(x, 5)\nparam p = y\nparam q = x\n",
        [_t(8), _c(0), _c(1), {"k": "drange", "a": [2, 3], "c": []}, _c(5), {"k": "mux", "a": [4, 1, 5], "c": []}],
        [6, 1], [6, 1], [["param", "p"], ["param", "q"]])
    add("x = Range(1, 2)\ny = DiscreteRange(300, 301)\nz = Uniform(x, y)\nparam p = z\n",
        [_t(8), _c(300), _c(301), {"k": "drange", "a": [2, 3], "c": []}, _c(0), _c(1), {"k": "drange", "a": [5, 6], "c": []},
         {"k": "mux", "a": [7, 1, 4], "c": []}],
        [8], [8], [["param", "p"]])
    # (Range(DiscreteRange(..), 2) does not compile: DiscreteRange.__repr__ fails without weights)
    add("y = Uniform(-2, -1)\nx = Range(y, 2)\nz = Discrete({x: 1, y: 2, 9: 1})\nparam p = z\nparam q = y\n",
        [_c(-2), _c(-1), _c(0), _c(1), {"k": "drange", "a": [3, 4], "c": []}, {"k": "mux", "a": [5, 1, 2], "c": []},
         dict(_t(8), a=[6]), {"k": "wsel", "a": [], "c": [1, 2, 1]}, _c(9), {"k": "mux", "a": [8, 7, 6, 9], "c": []}],
        [10, 6], [10, 6], [["param", "p"], ["param", "q"]])
    add("ego = new Object in RectangularRegion((1, 2, 0), 0, 4, 4)\n", [_t(24)], [1], [1], [["prop", "position"]])
    add("ego = new Object in RectangularRegion((1, 2, 0), 0, 4, 4), with foo Range(0, 1)\nparam p = Uniform(ego.foo, 3)\n",
        [_t(24), _t(8), _c(0), _c(1), {"k": "drange", "a": [3, 4], "c": []}, _c(3), {"k": "mux", "a": [5, 2, 6], "c": []}],
        [1, 2, 7], [1, 2, 7], [["prop", "position"], ["prop", "foo"], ["param", "p"]])
    return P


DOMAIN_PRELUDE = """import math
from scenic.core.distributions import distributionFunction
LST = [10, 20, 30]
@distributionFunction
def vidx(i):
    return LST[i]
@distributionFunction
def vsqrt(x):
    return math.sqrt(x)
@distributionFunction
def vlog(x):
    return math.log(x)
@distributionFunction
def vacos(x):
    return math.acos(x)
@distributionFunction
def vchr(n):
    return ord(chr(n))
"""
OPAQUE_KINDS = ("tdiv", "pow10", "sqrt", "log", "acos")  # results kept as terms by Codec.tla


def pow10_threshold():
    """The smallest double r with 10.0 ** r raising OverflowError (bisection on the bit pattern;
    Python's own float power is the meaning here)."""

    def overflows(bits):
        try:
            10.0 ** struct.unpack("<d", struct.pack("<q", bits))[0]
            return False
        except OverflowError:
            return True

    lo = struct.unpack("<q", struct.pack("<d", 308.0))[0]
    hi = struct.unpack("<q", struct.pack("<d", 309.0))[0]
    assert not overflows(lo) and overflows(hi)
    while hi - lo > 1:
        mid = (lo + hi) // 2
        if overflows(mid):
            hi = mid
        else:
            lo = mid
    return list(struct.pack("<q", hi))


def domain_programs(tier):
    """Programs whose deterministic nodes have a RESTRICTED DOMAIN and are fed by random values:
    true / floor division and modulo by a random integer, a power of a random float, math.sqrt /
    log / acos of a random float, list indexing by a random index, ord(chr(n)).  Decoding recomputes
    them from the decoded values, so a corrupted stored value can leave the domain.  sweep = 1: the
    corruption sweep over their encodings is exhaustive (every value of the swept bytes)."""
    P = []
    dr = lambda a, b: {"k": "drange", "a": [a, b], "c": []}

    def add(body, nodes, roots, outs, outnames):
        P.append((DOMAIN_PRELUDE + body + "ego = new Object\n",
                  {"nodes": nodes, "roots": roots, "outs": outs, "reqs": [], "maxIter": 1},
                  {"outnames": outnames, "uniform": uniform_halves, "branches": 0, "typed": True, "sweep": True}))

    pq = [["param", "p"], ["param", "q"]]
    add("n = DiscreteRange(1, 4)\nparam p = 12 / n\nparam q = n\n",
        [_c(1), _c(4), dr(1, 2), _c(12), {"k": "tdiv", "a": [4, 3], "c": []}], [5, 3], [5, 3], pq)
    add("n = DiscreteRange(1, 3)\nparam p = 12 // n\nparam q = 7 % n\n",
        [_c(1), _c(3), dr(1, 2), _c(12), {"k": "floordiv", "a": [4, 3], "c": []}, _c(7), {"k": "mod", "a": [6, 3], "c": []}],
        [5, 7], [5, 7], pq)
    add("x = DiscreteRange(-7, -6)\nn = DiscreteRange(2, 3)\nparam p = x % n\nparam q = x // n\n",
        [_c(-7), _c(-6), dr(1, 2), _c(2), _c(3), dr(4, 5), {"k": "mod", "a": [3, 6], "c": []}, {"k": "floordiv", "a": [3, 6], "c": []}],
        [7, 8], [7, 8], pq)
    add("n = Uniform(1, 2, 4)\nparam p = 8 // n\nparam q = n\n",
        [_c(1), _c(2), _c(4), _c(0), _c(2), dr(4, 5), {"k": "mux", "a": [6, 1, 2, 3], "c": []}, _c(8),
         {"k": "floordiv", "a": [8, 7], "c": []}], [9, 7], [9, 7], pq)
    add("r = Range(1, 2)\nparam p = 10 ** r\nparam q = r\n",
        [_t(8), {"k": "pow10", "a": [1], "c": [], "thr": pow10_threshold()}], [2, 1], [2, 1], pq)
    one = list(struct.pack("<d", 1.0))
    for fn, lo, hi in (("sqrt", 1, 2), ("log", 1, 2), ("acos", 0, 1)):
        add(f"r = Range({lo}, {hi})\nparam p = v{fn}(r)\nparam q = r\n",
            [_t(8), {"k": fn, "a": [1], "c": [], "thr": one}], [2, 1], [2, 1], pq)
    add("i = DiscreteRange(0, 2)\nparam p = vidx(i)\nparam q = i\n",
        [_c(0), _c(2), dr(1, 2), {"k": "index", "a": [3], "c": [10, 20, 30]}], [4, 3], [4, 3], pq)
    add("n = DiscreteRange(65, 66)\nparam p = vchr(n)\nparam q = n\n",
        [_c(65), _c(66), dr(1, 2), {"k": "chr", "a": [3], "c": []}], [4, 3], [4, 3], pq)
    return P


def lit(v):
    return ("lit", v)


def leaf(lo, hi):
    return ("drange", lit(lo), lit(hi))


def boundary_core(leaves):
    """For every boundary leaf L: alone, as a parameter and an object property, as a shared
    multiplexer option, under two multiplexers, as a bound of another range, resampled."""
    X = ("var", "x")
    out = []
    for lo, hi in leaves:
        L = leaf(lo, hi)
        shapes = [
            [("let", "x", L), ("param", "p", X)],
            [("let", "x", L), ("object", X), ("param", "p", X)],
            [("let", "x", L), ("let", "y", ("uniform", [X, lit(7)])), ("param", "p", ("var", "y")), ("param", "q", X)],
            [("let", "x", L), ("let", "y", ("uniform", [X, lit(7)])), ("param", "p", ("var", "y"))],
            [("let", "x", L), ("let", "y", ("uniform", [lit(7), X])),
             ("let", "z", ("discrete", [(X, 1), (("var", "y"), 2), (lit(5), 1)])),
             ("param", "p", ("var", "z")), ("param", "q", ("var", "y"))],
            [("let", "x", L), ("let", "y", ("drange", X, lit(hi + 1))), ("param", "p", ("var", "y"))],
            [("let", "x", L), ("let", "y", ("uniform", [X, ("resample", X)])), ("param", "p", ("var", "y"))],
            [("let", "x", L), ("let", "y", ("call", "vmax", [X, lit(lo + 1)], [])), ("param", "p", ("var", "y")),
             ("require", None, ("cmp", "ge", X, lit(lo)))],
        ]
        if max(abs(lo), abs(hi)) >= 2**52:
            # a random range bound is coerced to float by the sampler: not exact up there (sampling, not codec)
            shapes = [sh for sh in shapes if not any(st[0] == "let" and st[2][0] == "drange" and st[2][1] == X for st in sh)]
        out.extend(shapes)
    return out


def shift_leaves(ast, rng, leaves):
    """Move some constant-bounded ranges of a random program onto a width boundary."""

    def tr(e):
        if not isinstance(e, tuple):
            return e
        if e[0] == "drange" and e[1][0] == "lit" and e[2][0] == "lit" and e[2][1] >= e[1][1] and rng.random() < 0.5:
            lo, hi = rng.choice(leaves)
            w = min(e[2][1] - e[1][1], hi - lo)
            s = rng.randint(lo, hi - w)
            return ("drange", lit(s), lit(s + w))
        if e[0] in ("uniform",):
            return (e[0], [tr(x) for x in e[1]])
        if e[0] == "discrete":
            return (e[0], [(tr(x), w) for x, w in e[1]])
        if e[0] == "resample":
            return (e[0], tr(e[1]))
        if e[0] == "bin":
            return (e[0], e[1], tr(e[2]), tr(e[3]))
        if e[0] == "un":
            return (e[0], e[1], tr(e[2]))
        if e[0] == "call":
            return (e[0], e[1], [tr(x) for x in e[2]], [(k, tr(x)) for k, x in e[3]])
        return e

    out = []
    for s in ast:
        if s[0] == "let":
            out.append(("let", s[1], tr(s[2])))
        elif s[0] == "param":
            out.append(("param", s[1], tr(s[2])))
        elif s[0] == "object":
            out.append(("object", tr(s[1])))
        else:
            out.append(s)
    return out


def float_hazard(ast):
    """A range whose bound is a random value is sampled through float(bound): not exact beyond
    2^53 (sampling semantics, not the codec) -- such programs are not generated."""
    big, varbound = [False], [False]

    def walk(e):
        if not isinstance(e, (tuple, list)):
            return
        if len(e) and e[0] == "lit" and abs(e[1]) >= 2**52:
            big[0] = True
        if len(e) and e[0] == "drange" and (e[1][0] != "lit" or e[2][0] != "lit"):
            varbound[0] = True
        for x in e:
            if isinstance(x, (tuple, list)):
                walk(x)

    walk(ast)
    return big[0] and varbound[0]


def build(ast):
    """-> (scenic text, Sampler-format prog, info) or None when ill-formed."""
    try:
        prog, info = gd.to_prog(ast, 1)
    except gd.IllFormed:
        return None
    if not prog["roots"]:
        return None
    info["ast"] = repr(ast)
    return gd.to_scenic(ast), prog, info


def generate(seed, count, leaves, max_rows=24, sizes=(1, 2, 3, 4)):
    """boundary core + seeded random programs (half of them moved onto width boundaries).
    Returns (list of (text, prog, info), dropped)."""
    rng = random.Random(seed)
    out, dropped, seen = [], 0, set()
    for ast in boundary_core(leaves):
        b = build(ast)
        if b is None or b[2]["branches"] > max_rows:
            dropped += 1
            continue
        out.append(b)
        seen.add(b[0])
    target = len(out) + count
    while len(out) < target:
        ast = gd.random_ast(rng, rng.choice(sizes))
        if rng.random() < 0.6:
            ast = shift_leaves(ast, rng, leaves)
        b = None if float_hazard(ast) else build(ast)
        if b is None or b[2]["branches"] > max_rows or b[2]["branches"] < 1 or b[0] in seen:
            dropped += 1
            continue
        seen.add(b[0])
        out.append(b)
    return out, dropped
