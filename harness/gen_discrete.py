"""Programs of the finite-discrete fragment (C01; reused by C15, C18).

One internal tree (statement list over expression trees), two printers:
  to_scenic(ast) -> Scenic source text
  to_prog(ast)   -> the JSON constant read by Sampler.tla (DAG of nodes in creation order)
This printer pair is the trusted glue between the two worlds (DESIGN.md 1.3).

Expressions: ("lit", v) ("var", name) ("drange", e, e) ("uniform", [e..])
             ("discrete", [(e, w)..]) ("resample", e) ("bin", op, e, e) ("un", op, e)
             ("call", fn, [e..], [(kw, e)..])
  containers / attributes / star-unpacking (container_core, C01 only):
             ("tuni", kind, [[e..]..])  Uniform over tuples ("t") / lists ("l") of equal length -- a HANDLE,
                                        only usable through a name: ("tidx", ("var", u), e) = u[e],
                                        ("starcall", fn, ("var", u)) = fn(*u)
             ("vec", e, e) ("vadd"|"vsub", V, V) -- vector handles; ("vattr", V, "x"|"y") = V.x / V.y
             ("gparam", name) = globalParameters.name   ("tlit", [e..], j) = (e, .., e)[j] (plain Python)
Conditions:  ("cmp", op, e, e) ("and", c, c) ("or", c, c) ("not", c)
Statements:  ("let", name, e) ("param", name, e) ("require", Fraction|None, c) ("object", e)
             ("objecttup", kind, [e..])  an object whose property foo is the tuple / list of the expressions
"""

import random
from fractions import Fraction

PRELUDE = """from scenic.core.distributions import distributionFunction
@distributionFunction
def vmin(a, b=0):
    return min(a, b)
@distributionFunction
def vmax(a, b=0):
    return max(a, b)
@distributionFunction
def vite(c, a, b=0):
    return a if c else b
"""

BINSYM = {"add": "+", "sub": "-", "mul": "*"}
CMPSYM = {"lt": "<", "le": "<=", "eq": "==", "ne": "!=", "gt": ">", "ge": ">="}


# ----------------------------------------------------------------- printer 1: Scenic text
def expr_text(e):
    t = e[0]
    if t == "lit":
        return str(e[1]) if e[1] >= 0 else f"({e[1]})"
    if t == "var":
        return e[1]
    if t == "egofoo":      # the property of whatever object `ego` names at this point of the program
        return "ego.foo"
    if t == "drange":
        return f"DiscreteRange({expr_text(e[1])}, {expr_text(e[2])})"
    if t == "drangeh":  # constant bounds in half units (fractional end points)
        return f"DiscreteRange({e[1] / 2}, {e[2] / 2})"
    if t == "uniform":
        return "Uniform(" + ", ".join(expr_text(x) for x in e[1]) + ")"
    if t == "discrete":
        return "Discrete({" + ", ".join(f"{expr_text(x)}: {w}" for x, w in e[1]) + "})"
    if t == "resample":
        return f"resample({expr_text(e[1])})"
    if t == "bin":
        return f"({expr_text(e[2])} {BINSYM[e[1]]} {expr_text(e[3])})"
    if t == "un":
        return f"(-{expr_text(e[2])})" if e[1] == "neg" else f"abs({expr_text(e[2])})"
    if t == "call":
        args = [expr_text(x) for x in e[2]] + [f"{k}={expr_text(x)}" for k, x in e[3]]
        return f"{e[1]}({', '.join(args)})"
    if t == "tuni":
        br = "()" if e[1] == "t" else "[]"
        tail = "," if e[1] == "t" else ""   # (x,) is a tuple, (x) is not
        return "Uniform(" + ", ".join(br[0] + ", ".join(expr_text(x) for x in row) + tail + br[1] for row in e[2]) + ")"
    if t == "tcat":     # a constant tuple / list concatenated with a random container (either side)
        br = "()" if e[1] == "t" else "[]"
        lit = br[0] + ", ".join(str(v) for v in e[2]) + ("," if e[1] == "t" else "") + br[1]
        return f"({lit} + {expr_text(e[3])})" if e[4] == "left" else f"({expr_text(e[3])} + {lit})"
    if t == "tidx":
        return f"{expr_text(e[1])}[{expr_text(e[2])}]"
    if t == "starcall":
        return f"{e[1]}(*{expr_text(e[2])})"
    if t == "vec":
        return f"({expr_text(e[1])} @ {expr_text(e[2])})"
    if t in ("vadd", "vsub"):
        return f"({expr_text(e[1])} {'+' if t == 'vadd' else '-'} {expr_text(e[2])})"
    if t == "vattr":
        return f"{expr_text(e[1])}.{e[2]}"
    if t == "gparam":
        return f"globalParameters.{e[1]}"
    if t == "tlit":
        return "(" + ", ".join(expr_text(x) for x in e[1]) + f",)[{e[2]}]"
    raise ValueError(e)


def cond_text(c):
    t = c[0]
    if t == "cmp":
        return f"{expr_text(c[2])} {CMPSYM[c[1]]} {expr_text(c[3])}"
    if t in ("and", "or"):
        return f"({cond_text(c[1])}) {t} ({cond_text(c[2])})"
    if t == "not":
        return f"not ({cond_text(c[1])})"
    raise ValueError(c)


def to_scenic(ast):
    lines = [PRELUDE]
    nobj = 0
    for s in ast:
        if s[0] == "let":
            lines.append(f"{s[1]} = {expr_text(s[2])}")
        elif s[0] == "param":
            lines.append(f"param {s[1]} = {expr_text(s[2])}")
        elif s[0] == "require":
            if s[1] is None:
                lines.append(f"require {cond_text(s[2])}")
            else:
                lines.append(f"require[{float(s[1])}] {cond_text(s[2])}")
        elif s[0] == "object":
            # (a program may assign `ego` several times: every object stays in the scene, `ego` names the last)
            at = "" if nobj == 0 else f"at ({10 * nobj}, 0), "
            lines.append(f"ego = new Object {at}with foo {expr_text(s[1])}")
            nobj += 1
        elif s[0] == "objecttup":
            at = "" if nobj == 0 else f"at ({10 * nobj}, 0), "
            br = "()" if s[1] == "t" else "[]"
            lines.append(f"ego = new Object {at}with foo {br[0]}{', '.join(expr_text(x) for x in s[2])}{',' if br[0] == '(' else ''}{br[1]}")
            nobj += 1
    return "\n".join(lines) + "\n"


# ----------------------------------------------------------------- printer 2: Sampler.tla constant
class IllFormed(Exception):
    pass


def to_prog(ast, max_iter):
    """Build the node DAG the way evaluating the program builds distribution objects.
    Returns dict(nodes, roots, outs, reqs, maxIter) plus sizing info."""
    nodes = []
    rng_ = {}  # node -> (lo, hi) interval (sizing / well-formedness only)

    def node(k, a=(), c=(), lo=0, hi=0):
        nodes.append({"k": k, "a": list(a), "c": list(c)})
        n = len(nodes)
        rng_[n] = (lo, hi)
        return n

    def const(v):
        return node("const", c=[v], lo=v, hi=v)

    def isconst(n):
        return nodes[n - 1]["k"] == "const"

    def cval(n):
        return nodes[n - 1]["c"][0]

    env = {}

    def ev(e):
        t = e[0]
        if t == "lit":
            return const(e[1])
        if t == "var":
            if e[1] not in env:
                raise IllFormed("unbound " + e[1])
            return env[e[1]]
        if t == "egofoo":
            if "ego.foo" not in env:
                raise IllFormed("no ego yet")
            return env["ego.foo"]
        if t == "drange":
            a, b = ev(e[1]), ev(e[2])
            return node("drange", a=[a, b], lo=min(rng_[a][0], rng_[b][1]), hi=max(rng_[b][1], rng_[a][0]))
        if t == "drangeh":
            lo, hi = -((-e[1]) // 2), e[2] // 2
            return node("drange2", c=[e[1], e[2]], lo=min(lo, hi), hi=max(lo, hi))
        if t == "uniform":
            opts = [ev(x) for x in e[1]]
            idx = node("drange", a=[const(0), const(len(opts) - 1)], lo=0, hi=len(opts) - 1)
            return node("mux", a=[idx] + opts, lo=min(rng_[o][0] for o in opts), hi=max(rng_[o][1] for o in opts))
        if t == "discrete":
            opts = [ev(x) for x, _w in e[1]]
            keys = [("c", cval(o)) if isconst(o) else ("n", o) for o in opts]
            if len(set(keys)) != len(keys):
                raise IllFormed("duplicate dict key")
            ws = [w for _x, w in e[1]]
            idx = node("wsel", c=ws, lo=0, hi=len(opts) - 1)
            return node("mux", a=[idx] + opts, lo=min(rng_[o][0] for o in opts), hi=max(rng_[o][1] for o in opts))
        if t == "resample":
            src = ev(e[1])
            sn = nodes[src - 1]
            if sn["k"] == "drange":
                return node("drange", a=sn["a"], lo=rng_[src][0], hi=rng_[src][1])
            if sn["k"] == "drange2":
                return node("drange2", c=sn["c"], lo=rng_[src][0], hi=rng_[src][1])
            if sn["k"] == "mux":
                i0 = sn["a"][0]
                idx = nodes[i0 - 1]
                if idx["k"] == "drange":
                    ni = node("drange", a=[const(0), const(len(sn["a"]) - 2)], lo=0, hi=len(sn["a"]) - 2)
                else:
                    ni = node("wsel", c=idx["c"], lo=0, hi=len(idx["c"]) - 1)
                return node("mux", a=[ni] + sn["a"][1:], lo=rng_[src][0], hi=rng_[src][1])
            if sn["k"] == "const":
                return src
            raise IllFormed("resample of non-primitive")
        if t == "bin":
            a, b = ev(e[2]), ev(e[3])
            if isconst(a) and isconst(b):
                v = {"add": cval(a) + cval(b), "sub": cval(a) - cval(b), "mul": cval(a) * cval(b)}[e[1]]
                return const(v)
            # construction-time identity rewrites belong to C05: keep them out of this fragment
            if e[1] in ("add", "sub") and isconst(b) and cval(b) == 0:
                raise IllFormed("identity rewrite")
            if e[1] == "add" and isconst(a) and cval(a) == 0:
                raise IllFormed("identity rewrite")
            if e[1] == "mul" and ((isconst(b) and cval(b) == 1) or (isconst(a) and cval(a) == 1)):
                raise IllFormed("identity rewrite")
            (al, ah), (bl, bh) = rng_[a], rng_[b]
            if e[1] == "add":
                lo, hi = al + bl, ah + bh
            elif e[1] == "sub":
                lo, hi = al - bh, ah - bl
            else:
                pr = [x * y for x in (al, ah) for y in (bl, bh)]
                lo, hi = min(pr), max(pr)
            return node(e[1], a=[a, b], lo=lo, hi=hi)
        if t == "un":
            a = ev(e[2])
            al, ah = rng_[a]
            if isconst(a):
                return const(-cval(a) if e[1] == "neg" else abs(cval(a)))
            if e[1] == "neg":
                return node("neg", a=[a], lo=-ah, hi=-al)
            return node("abs", a=[a], lo=0, hi=max(abs(al), abs(ah)))
        if t == "call":
            fn = e[1]
            args = [ev(x) for x in e[2]]
            kw = dict((k, ev(x)) for k, x in e[3])
            if fn in ("vmin", "vmax"):
                a = args[0]
                b = args[1] if len(args) > 1 else kw.get("b")
                if b is None:
                    b = const(0)
                if isconst(a) and isconst(b):
                    return const(min(cval(a), cval(b)) if fn == "vmin" else max(cval(a), cval(b)))
                f = min if fn == "vmin" else max
                return node(fn[1:], a=[a, b], lo=f(rng_[a][0], rng_[b][0]), hi=f(rng_[a][1], rng_[b][1]))
            if fn == "vite":
                c, a = args[0], args[1]
                b = args[2] if len(args) > 2 else kw.get("b")
                if b is None:
                    b = const(0)
                if isconst(c) and isconst(a) and isconst(b):
                    return const(cval(a) if cval(c) else cval(b))
                return node("ite", a=[c, a, b], lo=min(rng_[a][0], rng_[b][0]), hi=max(rng_[a][1], rng_[b][1]))
        if t == "gparam":
            if "param:" + e[1] not in env:
                raise IllFormed("no such param yet")
            return env["param:" + e[1]]
        if t == "tuni":     # a handle: (index node, rows of element nodes); the index is drawn once per scene
            rows = [[ev(x) for x in row] for row in e[2]]
            if len({len(r) for r in rows}) != 1:
                raise IllFormed("ragged")
            if all(isconst(n) for r in rows for n in r):
                raise IllFormed("constant options are not lifted element-wise")
            idx = node("drange", a=[const(0), const(len(rows) - 1)], lo=0, hi=len(rows) - 1)
            return ("T", idx, rows)
        if t == "tcat":     # same index node as the container: every row gets the constants on that side
            h = ev(e[3])
            if not (isinstance(h, tuple) and h[0] == "T"):
                raise IllFormed("concatenation with a non-container")
            cs = [const(v) for v in e[2]]
            return ("T", h[1], [(cs + list(r)) if e[4] == "left" else (list(r) + cs) for r in h[2]])
        if t == "tidx":
            h = ev(e[1])
            if not (isinstance(h, tuple) and h[0] == "T"):
                raise IllFormed("index of a non-container")
            _T, idx, rows = h
            m = len(rows[0])
            i2 = ev(e[2])
            if rng_[i2][0] < -m or rng_[i2][1] >= m:
                raise IllFormed("index out of range")
            flat = [n for r in rows for n in r]
            return node("sel2", a=[idx, i2] + flat, c=[m], lo=min(rng_[n][0] for n in flat), hi=max(rng_[n][1] for n in flat))
        if t == "starcall":
            h = ev(e[2])
            if not (isinstance(h, tuple) and h[0] == "T") or e[1] not in ("vmin", "vmax", "vite"):
                raise IllFormed("starcall")
            _T, idx, rows = h
            m = len(rows[0])
            if (e[1] == "vite" and m not in (2, 3)) or (e[1] != "vite" and m not in (1, 2)):
                raise IllFormed("arity")
            flat = [n for r in rows for n in r]
            lo, hi = min(rng_[n][0] for n in flat), max(rng_[n][1] for n in flat)
            els = [node("sel2", a=[idx, const(j)] + flat, c=[m], lo=lo, hi=hi) for j in range(m)]
            if e[1] == "vite":
                els = els + [const(0)] * (3 - m)
                return node("ite", a=els, lo=min(lo, 0), hi=max(hi, 0))
            els = els + [const(0)] * (2 - m)
            f = min if e[1] == "vmin" else max
            return node(e[1][1:], a=els, lo=f(lo, 0) if m == 1 else lo, hi=f(hi, 0) if m == 1 else hi)
        if t == "vec":
            return ("V", ev(e[1]), ev(e[2]))
        if t in ("vadd", "vsub"):
            a, b = ev(e[1]), ev(e[2])
            if not all(isinstance(h, tuple) and h[0] == "V" for h in (a, b)):
                raise IllFormed("vector op of non-vectors")
            comp = []
            for x, y in ((a[1], b[1]), (a[2], b[2])):
                if isconst(x) and isconst(y):
                    comp.append(const(cval(x) + cval(y) if t == "vadd" else cval(x) - cval(y)))
                else:
                    (xl, xh), (yl, yh) = rng_[x], rng_[y]
                    lo, hi = (xl + yl, xh + yh) if t == "vadd" else (xl - yh, xh - yl)
                    comp.append(node("add" if t == "vadd" else "sub", a=[x, y], lo=lo, hi=hi))
            return ("V", comp[0], comp[1])
        if t == "vattr":
            h = ev(e[1])
            if not (isinstance(h, tuple) and h[0] == "V"):
                raise IllFormed("attribute of a non-vector")
            x, y = (h[1], h[2]) if e[2] == "x" else (h[2], h[1])
            if isconst(x) and isconst(y):
                return x
            # the attribute of a random vector depends on the whole vector: both components are sampled
            return node("pick", a=[x, y], lo=rng_[x][0], hi=rng_[x][1])
        if t == "tlit":
            els = [ev(x) for x in e[1]]
            return els[e[2]]
        raise IllFormed(repr(e))

    def evc(c):
        t = c[0]
        if t == "cmp":
            a, b = ev(c[2]), ev(c[3])
            op = c[1]
            if op == "gt":
                return ["lt", b, a]
            if op == "ge":
                return ["le", b, a]
            return [op, a, b]
        if t in ("and", "or"):
            return [t, evc(c[1]), evc(c[2])]
        if t == "not":
            return ["not", evc(c[1])]
        raise IllFormed(repr(c))

    def cond_nodes(t, acc):
        if t[0] in ("and", "or"):
            cond_nodes(t[1], acc)
            cond_nodes(t[2], acc)
        elif t[0] == "not":
            cond_nodes(t[1], acc)
        else:
            acc.extend(t[1:])
        return acc

    obj_roots, param_roots, req_roots = [], [], []
    nobjs = [0]
    outs, outnames, reqs = [], [], []
    for s in ast:
        if s[0] == "let":
            env[s[1]] = ev(s[2])
        elif s[0] == "param":
            n = ev(s[2])
            if isinstance(n, tuple):
                raise IllFormed("handle as a parameter")
            env["param:" + s[1]] = n
            param_roots.append(n)
            outs.append(n)
            outnames.append(["param", s[1]])
        elif s[0] == "object":
            n = ev(s[1])
            env["ego.foo"] = n
            # (the index of the object is given only from the second object on: single-object programs, which
            #  other checks consume too, keep the two-element form)
            if isinstance(n, tuple):
                raise IllFormed("handle as a property")
            outnames.append(["prop", "foo"] if not nobjs[0] else ["prop", "foo", nobjs[0]])
            nobjs[0] += 1
            obj_roots.append(n)
            outs.append(n)
        elif s[0] == "objecttup":
            ns = [ev(x) for x in s[2]]
            if any(isinstance(n, tuple) for n in ns):
                raise IllFormed("handle as an element")
            for j, n in enumerate(ns):
                outnames.append(["propidx", "foo", nobjs[0], j])
                outs.append(n)
            nobjs[0] += 1
            obj_roots.extend(ns)
        elif s[0] == "require":
            c = evc(s[2])
            pr = Fraction(1) if s[1] is None else Fraction(s[1])
            reqs.append({"c": c, "p": [pr.numerator, pr.denominator]})
            for n in cond_nodes(c, []):
                if not isconst(n):
                    req_roots.append(n)
    # Scenario.dependencies = instances + params + requirement deps (+ behaviour globals)
    roots = []
    for n in obj_roots + param_roots + req_roots:
        if not isconst(n) and n not in roots:
            roots.append(n)
    # reachability and sizing
    reach = set()

    def visit(n):
        if n in reach:
            return
        reach.add(n)
        for m in nodes[n - 1]["a"]:
            visit(m)

    for n in roots:
        visit(n)
    branches = 1
    for n in sorted(reach):
        nd = nodes[n - 1]
        if nd["k"] == "drange":
            lo = rng_[nd["a"][0]][0]
            hi = rng_[nd["a"][1]][1]
            branches *= max(1, hi - lo + 1)
        elif nd["k"] == "drange2":
            branches *= max(1, nd["c"][1] // 2 - (-((-nd["c"][0]) // 2)) + 1)
        elif nd["k"] == "wsel":
            branches *= len(nd["c"])
    maxabs = max([abs(v) for n in reach for v in rng_[n]] + [0])
    return {
        "nodes": nodes,
        "roots": roots,
        "outs": outs,
        "reqs": reqs,
        "maxIter": max_iter,
    }, {"branches": branches, "maxabs": maxabs, "outnames": outnames, "nprims": sum(1 for n in reach if nodes[n - 1]["k"] in ("drange", "wsel"))}


# ----------------------------------------------------------------- random programs
def random_ast(rng, size, vals=3, half_bounds=False):
    names = []  # names bound to random values
    allnames = []
    ast = []
    counter = [0]

    def lit():
        return ("lit", rng.randint(0, vals))

    def operand(need_random=False):
        if names and (need_random or rng.random() < 0.7):
            return ("var", rng.choice(names))
        return lit()

    def rand_expr():
        kind = rng.choice(["drange", "drange", "uniform", "discrete", "bin", "bin", "un", "call", "resample", "nested"])
        if not names and kind in ("bin", "un", "call", "resample", "nested"):
            kind = "drange"
        if kind == "drange":
            a, b = operand(), operand()
            if a[0] == "lit" and b[0] == "lit":
                lo = rng.randint(0, vals)
                hi = lo + rng.randint(0, vals - 1) if rng.random() < 0.93 else lo - 1
                a, b = ("lit", lo), ("lit", hi)
                if half_bounds and rng.random() < 0.15:  # fractional end points: ceil / floor
                    return ("drangeh", 2 * lo - rng.randint(0, 1), 2 * hi + rng.randint(0, 1))
            return ("drange", a, b)
        if kind == "uniform":
            return ("uniform", [operand() for _ in range(rng.randint(2, 3))])
        if kind == "discrete":
            opts, seen = [], set()
            for _ in range(rng.randint(2, 3)):
                o = operand()
                if o not in seen:
                    seen.add(o)
                    opts.append((o, rng.randint(1, 3)))
            if len(opts) < 2:
                opts = [(("lit", 0), 1), (("lit", 1 + rng.randint(0, vals)), 2)]
            return ("discrete", opts)
        if kind == "bin":
            op = rng.choice(["add", "sub", "mul"])
            a = operand(need_random=True)
            b = operand()
            if b[0] == "lit" and b[1] in (0, 1):
                b = ("lit", 2)
            if rng.random() < 0.3 and b[0] == "lit":
                if op == "sub" and half_bounds:  # `0 - x` is NOT an identity: keep it in the fragment
                    b = ("lit", rng.choice([0, 0, b[1]]))
                return ("bin", op, b, a)
            return ("bin", op, a, b)
        if kind == "un":
            return ("un", rng.choice(["neg", "abs"]), operand(need_random=True))
        if kind == "call":
            fn = rng.choice(["vmin", "vmax", "vite"])
            a = operand(need_random=True)
            b = operand()
            if fn == "vite":
                c = operand()
                return ("call", fn, [a, b], [("b", c)]) if rng.random() < 0.5 else ("call", fn, [a, b, c], [])
            return ("call", fn, [a], [("b", b)]) if rng.random() < 0.5 else ("call", fn, [a, b], [])
        if kind == "resample":
            return ("resample", ("var", rng.choice(names)))
        # nested anonymous expression
        return ("uniform", [operand(need_random=True), ("resample", ("var", rng.choice(names)))])

    def cond(depth=0):
        r = rng.random()
        if depth < 2 and r < 0.2:
            return (rng.choice(["and", "or"]), cond(depth + 1), cond(depth + 1))
        if depth < 2 and r < 0.3:
            return ("not", cond(depth + 1))
        a = operand(need_random=True)
        b = operand()
        op = rng.choice(["lt", "le", "eq", "ne", "gt", "ge"])
        if b[0] == "lit" and rng.random() < 0.3:
            return ("cmp", op, b, a)
        return ("cmp", op, a, b)

    nreq = nparam = 0
    probs = []
    used_obj = False
    for _ in range(size):
        counter[0] += 1
        nm = f"v{counter[0]}"
        ast.append(("let", nm, rand_expr()))
        names.append(nm)
        r = rng.random()
        if r < 0.35 and nreq < 2:
            pr = None
            if rng.random() < 0.45:
                pr = rng.choice([Fraction(1, 4), Fraction(1, 2), Fraction(3, 4)])
                if probs and pr not in probs:
                    pr = probs[0]
                probs.append(pr)
            ast.append(("require", pr, cond()))
            nreq += 1
            if rng.random() < 0.4:
                victim = rng.choice(names)
                lo = rng.randint(0, vals)
                ast.append(("let", victim, ("drange", ("lit", lo), ("lit", lo + rng.randint(0, 2)))))
        elif r < 0.8:
            e = operand(need_random=True)
            if rng.random() < 0.3:
                e = ("bin", "add", e, ("lit", rng.randint(1, vals)))
            ast.append(("param", f"p{nparam}", e))
            nparam += 1
        elif not used_obj:
            used_obj = True
            ast.append(("object", operand(need_random=True)))
    if nparam == 0 and not used_obj:
        ast.append(("param", "p0", ("var", names[-1])))
    return ast


def choose_max_iter(info, nreq_soft_cells):
    b = info["branches"] * nreq_soft_cells
    if b <= 12:
        return 3
    if b <= 70:
        return 2
    return 1


def generate(seed, count, sizes=(1, 2, 3, 4), max_branches=400, max_abs=60):
    """Seeded random programs.  Returns list of (scenic_text, prog_json, info)."""
    rng = random.Random(seed)
    out = []
    dropped = 0
    while len(out) < count:
        ast = random_ast(rng, rng.choice(sizes), half_bounds=True)
        try:
            prog, info = to_prog(ast, 1)
        except IllFormed:
            dropped += 1
            continue
        if not prog["roots"] or info["branches"] > max_branches or info["maxabs"] > max_abs:
            dropped += 1
            continue
        probs = {Fraction(*r["p"]) for r in prog["reqs"] if r["p"] != [1, 1]}
        cells = (len(probs) + 1) ** len(prog["reqs"])
        prog["maxIter"] = choose_max_iter(info, cells)
        info["thresholds"] = sorted(str(p) for p in probs)
        info["ast"] = repr(ast)
        out.append((to_scenic(ast), prog, info))
    return out, dropped


def ego_core():
    """Programs that assign `ego` twice with requirements, variables and parameters mentioning `ego.foo` in
    between: an expression refers to the object `ego` named WHEN THE STATEMENT WAS EXECUTED."""
    E = ("egofoo",)
    X = ("var", "x")
    firsts = [("drange", ("lit", 0), ("lit", 3)), ("discrete", [(("lit", 0), 1), (("lit", 2), 3)])]
    seconds = [("drange", ("lit", 0), ("lit", 3)), ("drange", ("lit", 0), E), ("bin", "add", E, ("drange", ("lit", 0), ("lit", 1))),
               ("uniform", [E, ("lit", 5)])]
    shapes = [
        lambda f, g, pr: [("object", f), ("require", pr, ("cmp", "ge", E, ("lit", 2))), ("object", g)],
        lambda f, g, pr: [("object", f), ("require", pr, ("cmp", "ge", E, ("lit", 2))), ("object", g),
                          ("require", None, ("cmp", "le", E, ("lit", 2)))],
        lambda f, g, pr: [("object", f), ("let", "x", E), ("object", g), ("require", pr, ("cmp", "lt", X, E))],
        lambda f, g, pr: [("object", f), ("param", "p", E), ("require", pr, ("cmp", "ne", E, ("lit", 0))), ("object", g),
                          ("param", "q", E)],
    ]
    out = []
    for f in firsts:
        for g in seconds:
            for shape in shapes:
                for pr in (None, Fraction(1, 2)):
                    ast = shape(f, g, pr)
                    try:
                        prog, info = to_prog(ast, 1)
                    except IllFormed:
                        continue
                    cells = 2 if pr is not None else 1
                    prog["maxIter"] = choose_max_iter(info, cells)
                    info["thresholds"] = [str(pr)] if pr is not None else []
                    info["ast"] = repr(ast)
                    out.append((to_scenic(ast), prog, info))
    return out


def exhaustive_core():
    """Every program `x = L; y = S(x); [require C(x,y)]; param p = y; param q = x` over a
    reduced constructor set: all shapes of sharing between two draws, with every
    requirement form, hard and soft."""
    X = ("var", "x")
    Y = ("var", "y")
    leaves = [("drange", ("lit", 0), ("lit", 1)), ("drange", ("lit", 1), ("lit", 3)), ("drangeh", 1, 5),
              ("discrete", [(("lit", 0), 1), (("lit", 2), 3)])]
    seconds = [
        ("drange", X, ("lit", 3)), ("drange", ("lit", 0), X), ("drange", ("lit", 2), X),
        ("uniform", [X, ("lit", 2)]), ("uniform", [X, X, ("lit", 0)]),
        ("discrete", [(X, 2), (("lit", 5), 1)]), ("resample", X),
        ("bin", "add", X, X), ("bin", "sub", X, ("resample", X)), ("bin", "mul", X, ("lit", 2)),
        ("bin", "sub", ("lit", 2), X), ("bin", "sub", ("lit", 0), X), ("un", "neg", X),
        ("call", "vite", [X, ("lit", 1)], [("b", ("lit", 4))]),
        ("call", "vmin", [X], [("b", ("drange", ("lit", 0), ("lit", 2)))]),
        ("uniform", [X, ("resample", X)]),
        ("uniform", [("drange", ("lit", 0), X), ("lit", 7)]),
    ]
    conds = [None, ("cmp", "lt", X, Y), ("cmp", "ne", X, Y), ("cmp", "le", Y, ("lit", 2)),
             ("not", ("cmp", "eq", X, Y)), ("or", ("cmp", "lt", X, ("lit", 2)), ("cmp", "gt", Y, ("lit", 2))),
             ("cmp", "lt", Y, ("lit", -50))]
    probs = [None, Fraction(1, 2), Fraction(1, 4)]
    out = []
    for lf in leaves:
        for sc in seconds:
            for cd in conds:
                for pr in probs if cd is not None else [None]:
                    for rebind in (False, True) if cd is not None else (False,):
                        ast = [("let", "x", lf), ("let", "y", sc)]
                        if cd is not None:
                            ast.append(("require", pr, cd))
                        if rebind:
                            ast.append(("let", "x", ("drange", ("lit", 5), ("lit", 6))))
                        ast.append(("param", "p", Y))
                        ast.append(("param", "q", X))
                        try:
                            prog, info = to_prog(ast, 1)
                        except IllFormed:
                            continue
                        cells = 2 if pr is not None else 1
                        prog["maxIter"] = choose_max_iter(info, cells)
                        info["thresholds"] = [str(pr)] if pr is not None else []
                        info["ast"] = repr(ast)
                        out.append((to_scenic(ast), prog, info))
    return out


def container_core():
    """Containers, attributes, star-unpacking and dependent global parameters (the forms the property's
    quantifier names beyond scalar operators): Uniform over tuples / lists with random elements indexed by
    constant, negative and random indices (the index of the Uniform is drawn ONCE however often the
    container is used), `f(*u)`, coordinates of random vectors and of their sums, `globalParameters.p`
    feeding later draws, objects whose property is a tuple / list of random values; each with requirement
    forms over the derived values, hard and soft, and with the container name rebound after the `require`."""
    X, Y, U = ("var", "x"), ("var", "y"), ("var", "u")
    L = lambda v: ("lit", v)
    DR = lambda a, b: ("drange", L(a), L(b))
    heads = [
        [("let", "x", DR(0, 1)), ("let", "y", DR(1, 2))],
        [("let", "x", DR(0, 2)), ("let", "y", ("drange", X, L(2)))],
        [("let", "x", ("discrete", [(L(0), 1), (L(3), 2)])), ("let", "y", ("resample", X))],
    ]
    bodies = []
    for kind in ("t", "l"):
        bodies += [
            # two uses of one container: the same row must be selected in both
            [("let", "u", ("tuni", kind, [[X, Y], [Y, L(7)]])), ("param", "a", ("tidx", U, L(0))), ("param", "b", ("tidx", U, L(1)))],
            [("let", "u", ("tuni", kind, [[X, L(4)], [L(5), Y]])), ("let", "i", DR(0, 1)), ("param", "a", ("tidx", U, ("var", "i"))),
             ("param", "b", ("tidx", U, L(-1)))],
            [("let", "u", ("tuni", kind, [[X, Y], [Y, X], [L(0), L(9)]])), ("param", "a", ("starcall", "vmax", U)),
             ("param", "b", ("tidx", U, ("drange", L(-2), L(1))))],
            [("let", "u", ("tuni", kind, [[X, Y, L(3)], [L(0), X, Y]])), ("param", "a", ("starcall", "vite", U)),
             ("param", "b", ("bin", "add", ("tidx", U, L(2)), ("tidx", U, L(0))))],
            [("let", "u", ("tuni", kind, [[X], [("drange", L(2), Y)]])), ("param", "a", ("starcall", "vmin", U)), ("param", "b", ("tidx", U, L(0)))],
            # a CONSTANT container on either side of `+`: the order of the operands is the order of the elements
            [("let", "u", ("tuni", kind, [[X, Y], [Y, L(7)]])), ("param", "a", ("tidx", ("tcat", kind, [8, 9], U, "left"), L(0))),
             ("param", "b", ("tidx", ("tcat", kind, [8, 9], U, "right"), ("drange", L(-1), L(0))))],
        ]
    V = ("vec", X, Y)
    bodies += [
        [("param", "a", ("vattr", V, "x")), ("param", "b", ("vattr", ("vadd", V, ("vec", L(1), X)), "y"))],
        [("let", "w", ("drange", L(0), L(1))), ("param", "a", ("vattr", ("vsub", ("vec", ("var", "w"), Y), V), "x")),
         ("param", "b", ("vattr", ("vec", ("var", "w"), ("drange", L(0), X)), "x"))],
        [("param", "p", X), ("let", "z", ("drange", L(0), ("gparam", "p"))), ("param", "a", ("var", "z")),
         ("param", "b", ("bin", "add", ("gparam", "p"), Y))],
        [("objecttup", "t", [X, ("bin", "add", X, Y)]), ("param", "a", ("tlit", [Y, X], 1)), ("param", "b", Y)],
        [("objecttup", "l", [Y, ("uniform", [X, Y])]), ("objecttup", "t", [("resample", Y)]), ("param", "a", X), ("param", "b", L(1))],
    ]
    A, B = ("gparam", "a"), ("gparam", "b")
    conds = [None, ("cmp", "lt", A, B), ("cmp", "ne", A, B), ("or", ("cmp", "ge", A, L(2)), ("cmp", "eq", B, L(1)))]
    out = []
    for hd in heads:
        for bd in bodies:
            for cd in conds:
                for pr in (None, Fraction(1, 2)) if cd is not None else (None,):
                    for rebind in (False, True) if cd is not None else (False,):
                        ast = list(hd) + list(bd)
                        if cd is not None:
                            ast.append(("require", pr, cd))
                        if rebind:
                            ast.append(("let", "x", DR(5, 6)))
                            ast.append(("let", "u", DR(5, 6)))
                        try:
                            prog, info = to_prog(ast, 1)
                        except IllFormed:
                            continue
                        if info["branches"] > 1500:
                            continue
                        cells = 2 if pr is not None else 1
                        prog["maxIter"] = choose_max_iter(info, cells)
                        info["thresholds"] = [str(pr)] if pr is not None else []
                        info["ast"] = repr(ast)
                        out.append((to_scenic(ast), prog, info))
    return out
