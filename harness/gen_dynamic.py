"""Generators of cases for spec/Dynamics.tla (C12 core fragment, C13 interrupts/guards, C19 choose/shuffle).

Only *productive* programs are generated (DESIGN.md C13): every loop body and every interrupt
handler begins with a statement that takes a time step (or aborts), sub-behaviours are not
recursive.  Conditions are names in a step-indexed truth table; "T"/"F" are constant."""

import itertools
import json
import random

DTS = [[1, 1], [1, 2], [1, 4], [2, 1]]


def _table(rng, names, horizon):
    tab = {"T": [True], "F": [False]}
    for n in names:
        style = rng.random()
        if style < 0.25:  # becomes true at some step and stays
            k = rng.randint(0, horizon)
            tab[n] = [i >= k for i in range(horizon + 1)]
        elif style < 0.4:  # true then false
            k = rng.randint(0, horizon)
            tab[n] = [i < k for i in range(horizon + 1)]
        else:
            tab[n] = [rng.random() < 0.4 for _ in range(horizon + 1)]
    return tab


def _sched(rng, n):
    perms = list(itertools.permutations(range(1, n + 1)))
    return [list(rng.choice(perms)) for _ in range(rng.randint(1, 3))]


class G:
    def __init__(self, rng, conds, fragment):
        self.rng = rng
        self.conds = conds
        self.fragment = fragment  # "core" | "interrupt" | "choose"
        self.label = 0
        self.action = 0

    def lab(self):
        self.label += 1
        return f"L{self.label}"

    def act(self):
        self.action += 1
        return self.action

    def cond(self):
        return self.rng.choice(self.conds)

    def dur(self):
        n = self.rng.randint(0, 3)
        return n, self.rng.choice(["steps", "steps", "seconds"])

    def yielding(self, ismon):
        return ["wait"] if ismon or self.rng.random() < 0.3 else ["take", self.act()]

    def stmt(self, depth, subs, ismon, inloop, intry):
        r = self.rng
        kinds = ["take", "take", "log", "wait", "waitfor", "waituntil", "if", "while"]
        if subs and not ismon:
            kinds += ["do", "dofor", "dountil"]
        if depth == 0:
            kinds += ["require", "end"]
        if self.fragment == "interrupt" and depth < 2:
            kinds += ["try", "try"]
            if inloop:
                kinds += ["break", "continue"]
            if not ismon:
                kinds += ["return"]
        if self.fragment == "choose" and subs and not ismon:
            kinds += ["choose", "choose", "shuffle", "rand"]
        k = r.choice(kinds)
        if k == "take":
            return self.yielding(ismon)
        if k == "wait":
            return ["wait"]
        if k == "log":
            return ["log", self.lab()]
        if k == "waitfor":
            n, u = self.dur()
            return ["waitfor", n, u]
        if k == "waituntil":
            return ["waituntil", self.cond()]
        if k == "require":
            return ["require", r.choice(self.conds + ["T", "T"])]
        if k == "end":
            return [r.choice(["terminate", "termsim"])]
        if k == "if":
            return ["if", self.cond(), self.block(depth + 1, subs, ismon, inloop, intry, 2),
                    self.block(depth + 1, subs, ismon, inloop, intry, 1) if r.random() < 0.5 else []]
        if k == "while":
            body = [self.yielding(ismon)] + self.block(depth + 1, subs, ismon, True, False, 2)
            return ["while", r.choice(self.conds + ["T"]), body]
        if k == "do":
            return ["do", r.choice(subs)]
        if k == "dofor":
            n, u = self.dur()
            return ["dofor", r.choice(subs), n, u]
        if k == "dountil":
            return ["dountil", r.choice(subs), self.cond()]
        if k == "try":
            body = self.block(depth + 1, subs, ismon, inloop, True, 3, minlen=1)
            hs = []
            for _ in range(r.randint(1, 3 if depth == 0 else 2)):
                first = r.choice([self.yielding(ismon), self.yielding(ismon), ["abort"]])
                h = [first]
                if first[0] != "abort":
                    h += self.block(depth + 1, subs, ismon, inloop, True, 2)
                    if r.random() < 0.3:
                        h.append(["abort"])
                hs.append([self.cond(), h])
            return ["try", body, hs]
        if k in ("break", "continue", "return"):
            return [k]
        if k in ("choose", "shuffle"):
            n = r.randint(2, min(3, len(subs))) if len(subs) >= 2 else 1
            ds = r.sample(subs, n)
            if r.random() < 0.5:
                return [k, [[d, 1] for d in ds]]
            return [k, [[d, r.randint(1, 3)] for d in ds]]
        if k == "rand":
            lo = r.randint(0, 1)
            return ["rand", lo, lo + r.randint(1, 2), self.lab()]
        raise ValueError(k)

    def block(self, depth, subs, ismon, inloop, intry, maxlen, minlen=0):
        n = self.rng.randint(minlen, maxlen)
        out = []
        for _ in range(n):
            s = self.stmt(depth, subs, ismon, inloop, intry)
            out.append(s)
            if s[0] in ("terminate", "termsim", "break", "continue", "return", "abort"):
                break
        return out


_YIELDING = {"take", "wait", "waitfor", "waituntil", "do", "dofor", "dountil", "choose", "shuffle", "terminate", "termsim"}


def _has_yield(stmts):
    for s in stmts:
        if s[0] in _YIELDING:
            return True
        if s[0] == "if" and (_has_yield(s[2]) or _has_yield(s[3])):
            return True
        if s[0] == "while" and _has_yield(s[2]):
            return True
        if s[0] == "try" and (_has_yield(s[1]) or any(_has_yield(h) for _c, h in s[2])):
            return True
    return False


def gen_case(rng, fragment):
    horizon = rng.randint(4, 7)
    nconds = rng.randint(2, 4)
    cnames = [f"c{i}" for i in range(nconds)]
    gnames = [f"g{i}" for i in range(2)] if fragment in ("interrupt", "choose") else []
    g = G(rng, cnames, fragment)
    nsub = rng.randint(0, 2) if fragment == "core" else (rng.randint(2, 3) if fragment == "choose" else rng.randint(1, 3))
    nmain = rng.randint(1, 2)
    nmon = rng.randint(0, 1)
    total = nmain + nsub + nmon
    # ids: mains 1..nmain, subs next, monitor last; sub-behaviours may invoke later subs only
    subs = list(range(nmain + 1, nmain + nsub + 1))
    defs = []
    for d in range(1, total + 1):
        ismon = d > nmain + nsub
        issub = d in subs
        avail = [s for s in subs if s > d] if issub else subs
        body = g.block(0, avail, ismon, False, False, 4 if not issub else 3, minlen=1)
        if issub and not any(s[0] in ("take", "wait") for s in body):
            body.insert(0, g.yielding(False))
        if not _has_yield(body):  # a behaviour/monitor without any take/wait/do is a compile-time error
            body.insert(0, g.yielding(ismon))
        if fragment == "choose" and d <= nmain and len(subs) >= 2 and not any(s[0] in ("choose", "shuffle") for s in body):
            k = rng.choice(["choose", "shuffle"])
            ds = rng.sample(subs, rng.randint(2, min(3, len(subs))))
            items = [[x, 1] for x in ds] if rng.random() < 0.4 else [[x, rng.randint(1, 3)] for x in ds]
            body.insert(rng.randint(0, min(1, len(body))), [k, items])
        pre, inv = [], []
        if gnames and (issub or (d <= nmain and rng.random() < 0.3)):
            if rng.random() < 0.5:
                pre = [rng.choice(gnames)]
            if rng.random() < 0.35:
                inv = [rng.choice(gnames)]
        defs.append({"pre": pre, "inv": inv, "body": body})
    nobj = rng.randint(nmain, 3)
    agents = list(range(1, nmain + 1)) + [0] * (nobj - nmain)
    rng.shuffle(agents)
    if agents[0] == 0 and rng.random() < 0.7:  # usually give the ego a behaviour
        i = next(i for i, a in enumerate(agents) if a)
        agents[0], agents[i] = agents[i], agents[0]
    table = _table(rng, cnames, horizon)
    for gname in gnames:  # guards are mostly true so that runs get somewhere
        table[gname] = [rng.random() < 0.8 for _ in range(horizon + 1)]
    records = []
    for kind in ("init", "rec", "final"):
        if rng.random() < 0.4:
            records.append([kind, f"r{kind}"])
    case = {
        "defs": defs,
        "agents": agents,
        "monitors": [total] if nmon else [],
        "records": records,
        "termWhen": [rng.choice(cnames)] if rng.random() < 0.3 else [],
        "termSimWhen": [rng.choice(cnames)] if rng.random() < 0.3 else [],
        "termAfter": [rng.randint(0, 4), rng.choice(["steps", "seconds"])] if rng.random() < 0.35 else [],
        "maxSteps": horizon,
        "dt": rng.choice(DTS),
        "table": table,
        "sched": _sched(rng, nobj),
    }
    return case


def generate(seed, count, fragment, tables=4):
    """count programs, each with `tables` different truth tables / schedules (same program text)."""
    rng = random.Random(seed)
    out = []
    for _ in range(count):
        case = gen_case(rng, fragment)
        out.append(case)
        names = [n for n in case["table"] if n not in ("T", "F")]
        for _k in range(tables - 1):
            c2 = dict(case)
            tab = _table(rng, [n for n in names if n.startswith("c")], case["maxSteps"])
            for n in names:
                if n.startswith("g"):
                    tab[n] = [rng.random() < 0.8 for _ in range(case["maxSteps"] + 1)]
            c2["table"] = tab
            c2["sched"] = _sched(rng, len(case["agents"]))
            out.append(c2)
    return out


_PICKS = [False]   # random picks in compose blocks (set by gen_nested(picks=True) for C19's random programs)


def _compose_block(g, rng, subs, depth, maxlen, minlen=1, inloop=False):
    """Statements of a compose block: wait/log/require/durations/if/while/do S.../terminate."""
    out = []
    for _ in range(rng.randint(minlen, maxlen)):
        kinds = ["wait", "wait", "log", "waitfor", "waituntil", "require"]
        if subs:
            kinds += ["sdo", "sdo", "sdo", "sdofor", "sdountil"]
        if _PICKS[0] and not inloop:
            kinds += ["rand", "disc"]
            if len(subs) >= 2:
                kinds += ["schoose", "schoose", "sshuffle"]
        if depth < 2:
            kinds += ["if", "while"]
            if subs:
                kinds += ["try"]
        if depth == 0:
            kinds += ["end"]
        k = rng.choice(kinds)
        if k in ("schoose", "sshuffle"):
            ss = rng.sample(subs, rng.randint(2, min(3, len(subs))))
            out.append([k, [[x, rng.choice([1, 1, 2, 3])] for x in ss]])
            continue
        if k == "rand":
            lo = rng.randint(0, 1)
            out.append(["rand", lo, lo + rng.randint(1, 2), g.lab()])
            continue
        if k == "disc":
            out.append(["disc", [[v, rng.choice([1, 2, 3])] for v in rng.sample(range(5), 2)], g.lab()])
            continue
        if k == "try":
            # try/interrupt in a compose block; handlers are productive (start with a step or abort)
            body = _compose_block(g, rng, subs, depth + 1, 2)
            if not _has_yield_compose(body):
                body.append(["wait"])
            hs = []
            for _h in range(rng.randint(1, 2)):
                if rng.random() < 0.25:
                    hb = [["abort"]]
                else:
                    # (a handler must take a step itself: a sub-scenario can end without one)
                    hb = [["wait"]] + _compose_block(g, rng, subs, depth + 1, 2, minlen=0)
                hs.append([g.cond(), hb])
            out.append(["try", body, hs])
        elif k == "wait":
            out.append(["wait"])
        elif k == "log":
            out.append(["log", g.lab()])
        elif k == "waitfor":
            n, u = g.dur()
            out.append(["waitfor", n, u])
        elif k == "waituntil":
            out.append(["waituntil", g.cond()])
        elif k == "require":
            out.append(["require", rng.choice(g.conds + ["T", "T", "T"])])
        elif k == "end":
            out.append([rng.choice(["terminate", "termsim"])])
            break
        elif k == "if":
            out.append(["if", g.cond(), _compose_block(g, rng, subs, depth + 1, 2),
                        _compose_block(g, rng, subs, depth + 1, 1) if rng.random() < 0.4 else []])
        elif k == "while":
            out.append(["while", rng.choice(g.conds + ["T"]), [["wait"]] + _compose_block(g, rng, subs, depth + 1, 2, minlen=0, inloop=True)])
        else:
            ss = rng.sample(subs, rng.randint(1, min(2, len(subs))))
            if k == "sdo":
                out.append(["sdo", ss])
            elif k == "sdofor":
                n, u = g.dur()
                out.append(["sdofor", ss, n, u])
            else:
                out.append(["sdountil", ss, g.cond()])
    return out


def gen_nested(rng, picks=False):
    """A program with nested scenarios: a top-level scenario with a compose block invoking
    sub-scenarios (which have their own monitors, records, terminate-when / terminate-simulation-
    when / terminate-after statements and possibly compose blocks invoking further scenarios)."""
    _PICKS[0] = picks
    horizon = rng.randint(4, 7) if not picks else rng.randint(3, 5)
    cnames = [f"c{i}" for i in range(rng.randint(2, 4))]
    g = G(rng, cnames, "core")
    nmain = rng.randint(1, 2)
    nmon = rng.randint(1, 3)
    defs = []
    for d in range(1, nmain + nmon + 1):
        ismon = d > nmain
        body = g.block(0, [], ismon, False, False, 3, minlen=1)
        if not _has_yield(body):
            body.insert(0, g.yielding(ismon))
        defs.append({"pre": [], "inv": [], "body": body})
    mons = list(range(nmain + 1, nmain + nmon + 1))
    nsd = rng.randint(2, 4)
    sdefs = []
    for s in range(1, nsd + 1):
        later = list(range(s + 1, nsd + 1))  # a scenario only invokes later ones: no recursion
        istop = s == 1
        hascompose = istop or rng.random() < 0.55
        compose = _compose_block(g, rng, later, 0, 4 if istop else 3) if hascompose else []
        if hascompose and not _has_yield_compose(compose):
            compose.insert(0, ["wait"])
        records = []
        if rng.random() < 0.4:
            records.append(["rec", f"r{s}"])
        if istop and rng.random() < 0.3:
            records.append(["init", "rinit"])
        if istop and rng.random() < 0.3:
            records.append(["final", "rfinal"])
        mymons = []
        if mons and rng.random() < (0.5 if istop else 0.4):
            mymons.append(mons.pop(0))
        sd = {
            "pre": [rng.choice(["T", "T", "T"] + cnames)] if (not istop and rng.random() < 0.2) else [],
            "termWhen": [rng.choice(cnames)] if rng.random() < 0.35 else [],
            "termSimWhen": [rng.choice(cnames)] if rng.random() < 0.2 else [],
            "termAfter": [rng.randint(0, 3), rng.choice(["steps", "seconds"])] if rng.random() < 0.35 else [],
            "records": records, "monitors": mymons, "hascompose": hascompose, "compose": compose,
            # objects created by the setup block of a sub-scenario (with a behaviour of the program, or none)
            "objs": [rng.choice([0] + list(range(1, nmain + 1))) for _ in range(rng.choice([0, 0, 1, 2]))] if not istop else [],
        }
        if not istop and not hascompose and not sd["termWhen"] and not sd["termAfter"]:
            sd["termAfter"] = [rng.randint(1, 3), "steps"]
        sdefs.append(sd)
    used = {m for sd in sdefs for m in sd["monitors"]}
    # unused monitor definitions would be printed as behaviours nobody uses: harmless, keep
    nobj = rng.randint(nmain, 3)
    agents = list(range(1, nmain + 1)) + [0] * (nobj - nmain)
    rng.shuffle(agents)
    case = {
        "defs": defs, "agents": agents, "sdefs": sdefs, "top": 1,
        "monitors": sorted(used), "records": [], "termWhen": [], "termSimWhen": [], "termAfter": [],
        "maxSteps": horizon, "dt": rng.choice(DTS), "table": _table(rng, cnames, horizon),
        "sched": _sched(rng, nobj), "impl": 0,
    }
    return case


def _has_yield_compose(stmts):
    for s in stmts:
        if s[0] in ("wait", "waitfor", "waituntil", "sdo", "sdofor", "sdountil", "terminate", "termsim", "schoose", "sshuffle"):
            return True
        if s[0] == "if" and (_has_yield_compose(s[2]) or _has_yield_compose(s[3])):
            return True
        if s[0] == "while" and _has_yield_compose(s[2]):
            return True
        if s[0] == "try" and _has_yield_compose(s[1]):
            return True
    return False


def generate_nested(seed, count, tables=3, picks=False):
    rng = random.Random(seed)
    out = []
    for _ in range(count):
        case = gen_nested(rng, picks)
        _PICKS[0] = False
        out.append(case)
        names = [n for n in case["table"] if n not in ("T", "F")]
        for _k in range(tables - 1):
            c2 = dict(case)
            c2["table"] = _table(rng, names, case["maxSteps"])
            c2["sched"] = _sched(rng, len(case["agents"]))
            out.append(c2)
    return out


def nested_core():
    """Targeted nested-scenario cases: every statement a sub-scenario's setup block may contain
    (terminate when / terminate simulation when / terminate after / record / monitor), a sub-scenario
    with and without compose block, parallel sub-scenarios, do ... for/until over scenarios, a
    monitor of a sub-scenario that terminates it."""
    cases = []
    beh = {"pre": [], "inv": [], "body": [["while", "T", [["take", 1]]]]}
    mon_log = {"pre": [], "inv": [], "body": [["while", "T", [["log", "m"], ["wait"]]]]}
    mon_term = {"pre": [], "inv": [], "body": [["wait"], ["log", "mt"], ["terminate"]]}
    mon_ts = {"pre": [], "inv": [], "body": [["wait"], ["wait"], ["termsim"]]}

    def sd(**kw):
        d = {"pre": [], "termWhen": [], "termSimWhen": [], "termAfter": [], "records": [], "monitors": [],
             "hascompose": False, "compose": []}
        d.update(kw)
        return d

    subs = [
        sd(termWhen=["c"]), sd(termSimWhen=["c"]), sd(termAfter=[2, "steps"]), sd(termAfter=[1, "seconds"]),
        sd(records=[["rec", "rs"]], termAfter=[2, "steps"]),
        sd(monitors=[2], termAfter=[3, "steps"]),
        sd(monitors=[3], hascompose=True, compose=[["while", "T", [["wait"], ["log", "sub"]]]]),
        sd(monitors=[4], hascompose=True, compose=[["while", "T", [["wait"]]]]),
        sd(hascompose=True, compose=[["log", "s0"], ["wait"], ["log", "s1"], ["wait"], ["log", "s2"]]),
        sd(hascompose=True, compose=[["wait"], ["terminate"], ["log", "never"]]),
        sd(hascompose=True, compose=[["wait"], ["termsim"]]),
        sd(hascompose=True, compose=[["require", "c"], ["wait"], ["require", "c"], ["wait"]]),
        # terminate-when conditions are checked AFTER the compose block has run for the step
        sd(termWhen=["c"], hascompose=True, compose=[["while", "T", [["log", "w"], ["wait"]]]]),
        sd(termWhen=["c"], hascompose=True, compose=[["log", "k0"], ["wait"], ["log", "k1"], ["wait"], ["log", "k2"]]),
        sd(termWhen=["c"], termAfter=[2, "steps"], hascompose=True, compose=[["while", "T", [["log", "v"], ["wait"]]]]),
    ]
    tops = [
        [["log", "a"], ["sdo", [2]], ["log", "b"], ["wait"], ["log", "c"]],
        [["sdo", [2, 3]], ["log", "b"], ["wait"]],
        [["sdofor", [2], 2, "steps"], ["log", "b"], ["wait"], ["wait"]],
        [["sdountil", [2], "d"], ["log", "b"], ["wait"]],
        [["wait"], ["sdo", [2]], ["sdo", [2]], ["log", "b"]],
    ]
    tables = [
        {"c": [False, False, True, True, True, True, True, True], "d": [False, False, False, True]},
        {"c": [True], "d": [False]},
        {"c": [False], "d": [False, True]},
    ]
    for sub in subs:
        for top in tops:
            for tab in tables[: (2 if top is not tops[0] else 3)]:
                sdefs = [sd(hascompose=True, compose=top, records=[["rec", "rt"]],
                            termWhen=(["d"] if (len(cases) % 3 == 0) else [])),     # (also on the top-level scenario)
                         sub, sd(hascompose=True, compose=[["log", "p0"], ["wait"], ["log", "p1"]])]
                t = {"T": [True], "F": [False]}
                t.update(tab)
                cases.append({
                    "defs": [beh, mon_log, mon_term, mon_ts], "agents": [1], "sdefs": sdefs, "top": 1,
                    "monitors": sorted({m for s_ in sdefs for m in s_["monitors"]}), "records": [], "termWhen": [],
                    "termSimWhen": [], "termAfter": [], "maxSteps": 7, "dt": [1, 2] if sub["termAfter"][1:] == ["seconds"] else [1, 1],
                    "table": t, "sched": [[1]], "impl": 0,
                })
    # a monitor of the PARENT executes `terminate` in a step in which monitors of its running sub-scenarios do
    # something observable (log / require false / terminate simulation): the parent stops after ALL monitors ran
    mon_req = {"pre": [], "inv": [], "body": [["wait"], ["require", "c"], ["wait"], ["require", "c"]]}
    for submons in ([2], [4], [5], [2, 4]):
        for tab in tables:
            for mid in (False, True):
                sub = sd(monitors=submons, hascompose=True, compose=[["while", "T", [["wait"], ["log", "sub"]]]])
                if mid:     # Main > Mid (terminating monitor) > Leaf (observing monitors)
                    sdefs = [sd(hascompose=True, compose=[["sdo", [2]], ["log", "b"], ["wait"], ["wait"]]),
                             sd(monitors=[3], hascompose=True, compose=[["sdo", [3]], ["log", "never"]]), sub]
                else:
                    sdefs = [sd(monitors=[3], hascompose=True, compose=[["sdo", [2]], ["log", "b"], ["wait"]]), sub,
                             sd(hascompose=True, compose=[["wait"]])]
                t = {"T": [True], "F": [False]}
                t.update(tab)
                cases.append({
                    "defs": [beh, mon_log, mon_term, mon_ts, mon_req], "agents": [1], "sdefs": sdefs, "top": 1,
                    "monitors": sorted({m for s_ in sdefs for m in s_["monitors"]}), "records": [], "termWhen": [],
                    "termSimWhen": [], "termAfter": [], "maxSteps": 7, "dt": [1, 1],
                    "table": t, "sched": [[1]], "impl": 0,
                })
    return cases


def dynobj_core():
    """Objects created at run time by the setup blocks of sub-scenarios: with and without behaviours, guards
    that fail at the time of the invocation, two sub-scenarios invoked in one `do`, a sub-scenario invoked twice
    (two generations of objects), schedules that put the new agents before / after the old ones, the creating
    scenario ending (limit / terminate when) while its agents go on."""
    cases = []
    main = {"pre": [], "inv": [], "body": [["while", "T", [["take", 1]]]]}
    b2 = {"pre": [], "inv": [], "body": [["take", 2], ["log", "b2"], ["take", 3], ["take", 3]]}
    b3 = {"pre": ["g"], "inv": [], "body": [["while", "T", [["take", 4], ["log", "b3"]]]]}
    b4 = {"pre": [], "inv": ["h"], "body": [["take", 5], ["wait"], ["take", 6], ["terminate"]]}

    def sd(**kw):
        d = {"pre": [], "termWhen": [], "termSimWhen": [], "termAfter": [], "records": [], "monitors": [],
             "hascompose": False, "compose": [], "objs": []}
        d.update(kw)
        return d

    subs = [
        sd(objs=[2], termAfter=[2, "steps"]),
        sd(objs=[0, 3], termWhen=["c"]),
        sd(objs=[3, 2], hascompose=True, compose=[["log", "s"], ["wait"], ["wait"]]),
        sd(objs=[4], termAfter=[4, "steps"]),
        sd(objs=[2, 4], pre=["p"], termAfter=[3, "steps"]),
    ]
    tops = [
        [["log", "a"], ["sdo", [2]], ["log", "b"], ["wait"], ["wait"]],
        [["wait"], ["sdo", [2, 3]], ["log", "b"], ["wait"]],
        [["sdo", [2]], ["sdo", [2]], ["log", "b"], ["wait"]],
        [["wait"], ["wait"], ["sdofor", [2], 2, "steps"], ["log", "b"], ["wait"], ["wait"]],
    ]
    tables = [
        {"c": [False, False, True], "g": [True], "h": [True], "p": [True]},
        {"c": [False], "g": [True, False, True], "h": [True, True, False, True], "p": [True]},
        {"c": [False, True], "g": [False], "h": [False], "p": [True, False]},
    ]
    scheds = [[[1, 2, 3, 4, 5, 6]], [[6, 5, 4, 3, 2, 1]], [[2, 1, 4, 3, 6, 5], [1, 3, 2, 5, 4, 6]]]
    k = 0
    for sub in subs:
        for top in tops:
            for tab in tables:
                other = subs[(subs.index(sub) + 1) % len(subs)]
                sdefs = [sd(hascompose=True, compose=top, records=[["rec", "rt"]]), sub, other]
                t = {"T": [True], "F": [False]}
                t.update(tab)
                cases.append({
                    "defs": [main, b2, b3, b4], "agents": [1], "sdefs": sdefs, "top": 1,
                    "monitors": [], "records": [], "termWhen": [], "termSimWhen": [], "termAfter": [],
                    "maxSteps": 7, "dt": [1, 1], "table": t, "sched": scheds[k % len(scheds)], "impl": 0,
                })
                k += 1
    return cases


def idle_core():
    """Steps in which NO agent has a behaviour: the action dict is empty, and the step still consists of
    executeActions (with the empty dict), one simulator step, the clock increment and the read-back.  The only
    object has no behaviour (compose blocks, monitors and records still run); or agents appear only when a
    sub-scenario creates them, so the first steps have none."""
    out = []
    for c in nested_core()[::7]:
        c = json.loads(json.dumps(c))
        c["agents"] = [0]
        c["sched"] = [[1]]
        out.append(c)
    for c in dynobj_core()[::5]:
        c = json.loads(json.dumps(c))
        c["agents"] = [0]
        out.append(c)
    return out


def duration_core():
    """Exhaustive core for durations: every duration construct x n in 0..3 x unit x time step,
    with a parent that acts in the step control returns to it."""
    cases = []
    # (besides the time steps used everywhere, some that do not divide the durations: 0.4, 1.5, 0.75 s)
    for dt in DTS + [[2, 5], [3, 2], [3, 4]]:
        for unit in ("steps", "seconds"):
            for n in range(0, 4):
                for form in ("dofor", "waitfor", "termAfter", "dountil", "waituntil"):
                    body = [["take", 1]]
                    sub = {"pre": [], "inv": [], "body": [["while", "T", [["take", 7], ["log", "s"]]]]}
                    tab = {"T": [True], "F": [False], "c": [i >= n for i in range(10)]}
                    term = []
                    if form == "dofor":
                        body += [["dofor", 2, n, unit]]
                    elif form == "waitfor":
                        body += [["waitfor", n, unit]]
                    elif form == "dountil":
                        body += [["dountil", 2, "c"]]
                    elif form == "waituntil":
                        body += [["waituntil", "c"]]
                    else:
                        term = [n, unit]
                        body += [["while", "T", [["take", 3]]]]
                    body += [["log", "after"], ["take", 2], ["log", "end"]]
                    if form in ("dountil", "waituntil") and (unit == "seconds" or dt != [1, 1]):
                        continue
                    cases.append({
                        "defs": [{"pre": [], "inv": [], "body": body}, sub],
                        "agents": [1], "monitors": [], "records": [["rec", "r"]],
                        "termWhen": [], "termSimWhen": [], "termAfter": term,
                        "maxSteps": 9, "dt": dt, "table": tab, "sched": [[1]],
                    })
    return cases
