"""Expression cases for C05 (Expr.tla).

One internal representation (a node list in creation order, the JSON constant read by
Expr.tla), and printers:
  scenic_text(case)   -> Scenic program binding every node to a global parameter
  py_rows(case)       -> CPython's own evaluation of the same DAG (generator sanity / yield
                         pre-screen and cross-validation of the spec; never the verdict)
The printer pair is the trusted glue (DESIGN.md 1.3).

This module is also imported BY the generated Scenic programs (`from gen_expr import ...`):
Box, vsum, vlt.., vite are the user-level helpers the expression trees call.
"""

import collections
import itertools
import math
import random
import zlib
from fractions import Fraction

from scenic.core.distributions import distributionFunction, distributionMethod

# --------------------------------------------------------------------------- helpers used by the programs


class Box(collections.namedtuple("BoxBase", ["u", "v"])):
    """A namedtuple with a plain method and a distribution method."""

    __slots__ = ()

    def f(self, a, b=0):
        return self.u + 10 * a + 100 * b

    @distributionMethod
    def g(self, a, b=0):
        return self.v + 10 * a + 100 * b

    def h(self, *ds):
        return _vdig(self.u, *ds)

    @distributionMethod
    def k(self, *ds):
        return _vdig(self.v, *ds)


def _vdig(*ds):
    """Horner digits: order-sensitive in every argument position."""
    total = 0
    for d in ds:
        total = 10 * total + d
    return total


def _vcat(a, b):
    return a + b


def _vkind(s):
    if type(s) is list:
        return 2
    if type(s) is tuple:
        return 1
    if isinstance(s, Box):
        return 3
    if isinstance(s, (int, float)):
        return 0
    raise TypeError(f"unexpected container type {type(s).__name__}")


def _vcount(s, x):
    return s.count(x)


def _vsum(a, b=0, c=0):
    return a + 10 * b + 100 * c


def _vlt(a, b):
    return a < b


def _vle(a, b):
    return a <= b


def _veq(a, b):
    return a == b


def _vne(a, b):
    return a != b


def _vgt(a, b):
    return a > b


def _vge(a, b):
    return a >= b


def _vite(c, a, b=0):
    return a if c else b


vsum = distributionFunction(_vsum)
vlt = distributionFunction(_vlt)
vle = distributionFunction(_vle)
veq = distributionFunction(_veq)
vne = distributionFunction(_vne)
vgt = distributionFunction(_vgt)
vge = distributionFunction(_vge)
vite = distributionFunction(_vite)
vdig = distributionFunction(_vdig)
vcat = distributionFunction(_vcat)
vkind = distributionFunction(_vkind)
vcount = distributionFunction(_vcount)

PRELUDE = (
    "from gen_expr import Box, vsum, vlt, vle, veq, vne, vgt, vge, vite, vdig, vcat, vkind, vcount\n"
    "from scenic.core.vectors import VectorField\n"
    'F = VectorField("F", lambda pos: pos.x)\n'
)

FN = {
    1: ("vsum", ["a", "b", "c"], _vsum),
    2: ("max", [], max),
    3: ("min", [], min),
    4: ("vlt", ["a", "b"], _vlt),
    5: ("vle", ["a", "b"], _vle),
    6: ("veq", ["a", "b"], _veq),
    7: ("vne", ["a", "b"], _vne),
    8: ("vgt", ["a", "b"], _vgt),
    9: ("vge", ["a", "b"], _vge),
    10: ("vite", ["c", "a", "b"], _vite),
    11: ("hypot", [], math.hypot),
    12: ("int", [], int),
    13: ("round", ["number", "ndigits"], round),
    14: ("float", [], float),
    15: ("vdig", [], _vdig),
    16: ("vcat", ["a", "b"], _vcat),
    17: ("vkind", ["s"], _vkind),
    18: ("vcount", ["s", "x"], _vcount),
}
METH = {1: ("f", ["a", "b"]), 2: ("g", ["a", "b"]), 3: ("h", []), 4: ("k", [])}
BINSYM = {"add": "+", "sub": "-", "mul": "*", "truediv": "/", "floordiv": "//", "mod": "%", "pow": "**"}
PRIMS = ("drange", "uniform", "discrete", "range", "unistar")
PROPS = ["px", "pa", "pb", "pc", "pd"]  # property 1 is the x coordinate of the position

# --------------------------------------------------------------------------- case builder


class Case:
    def __init__(self, tag=""):
        self.nodes = []  # {"k":..., "a":[...], "c":[...]}
        self.ty = []  # generator-side static type: int num tup lst box
        self.tag = tag
        self.np = 0
        self.defs = []
        self.withs = []
        self.classes = []  # object cases: list (most derived first) of {prop: node}
        self.top = set()  # object cases: nodes bound to top-level variables

    def add(self, k, a=(), c=(), ty="num"):
        self.nodes.append({"k": k, "a": [int(x) for x in a], "c": [int(x) for x in c]})
        self.ty.append(ty)
        return len(self.nodes)

    # constructors -----------------------------------------------------
    def const(self, v):
        f = Fraction(v)
        return self.add("const", c=[f.numerator, f.denominator], ty="int" if f.denominator == 1 else "num")

    def kind(self, n):
        return self.nodes[n - 1]["k"]

    def json(self):
        return {"nodes": self.nodes, "np": self.np, "defs": self.defs, "withs": self.withs,
                "it": [1 if t == "int" else 0 for t in self.ty]}

    def is_random(self, n, memo=None):
        nd = self.nodes[n - 1]
        if nd["k"] in PRIMS:
            return True
        return any(x and self.is_random(x) for x in nd["a"])

    def key(self):
        return repr((self.nodes, self.np, self.defs, self.withs))


def intty(case, ids):
    return all(case.ty[i - 1] == "int" for i in ids)


# --------------------------------------------------------------------------- printer 1: Scenic text


def lit(c):
    f = Fraction(c[0], c[1])
    s = str(f.numerator) if f.denominator == 1 else repr(float(f))
    return s if f >= 0 else f"({s})"


def node_text(case, n, ref):
    """Text of node n with operands printed by ref(child)."""
    nd = case.nodes[n - 1]
    k, a, c = nd["k"], nd["a"], nd["c"]
    r = [ref(x) if x else None for x in a]
    if k == "const":
        return lit(c)
    if k == "tuple":
        return "(" + "".join(x + ", " for x in r) + ")"
    if k == "list":
        return "[" + ", ".join(r) + "]"
    if k == "box":
        return f"Box({r[0]}, {r[1]})"
    if k == "drange":
        return f"DiscreteRange({r[0]}, {r[1]})"
    if k == "uniform":
        return "Uniform(" + ", ".join(r) + ")"
    if k == "discrete":
        return "Discrete({" + ", ".join(f"{x}: {w}" for x, w in zip(r, c)) + "})"
    if k == "range":
        return f"Range({r[0]}, {r[1]})"
    if k == "unistar":
        return f"Uniform(*{r[0]})"
    if k in BINSYM:
        return f"({r[0]} {BINSYM[k]} {r[1]})"
    if k == "divmod":
        return f"divmod({r[0]}, {r[1]})"
    if k == "neg":
        return f"(-{r[0]})"
    if k == "pos":
        return f"(+{r[0]})"
    if k == "abs":
        return f"abs({r[0]})"
    if k == "len":
        return f"len({r[0]})"
    if k == "getitem":
        return f"{r[0]}[{r[1]}]"
    if k == "slice":
        s = f"{r[1] or ''}:{r[2] or ''}"
        if r[3] is not None:
            s += f":{r[3]}"
        return f"{r[0]}[{s}]"
    if k == "attr":
        return f"{r[0]}.{'uv'[c[0] - 1]}"
    if k in ("call", "meth"):
        if k == "call":
            name, params, _ = FN[c[0]]
            head, args = name, r
        else:
            name, params = METH[c[0]]
            head, args = f"{r[0]}.{name}", r[1:]
        parts = []
        for x, fl in zip(args, c[1:]):
            if fl == 0:
                parts.append(x)
            elif fl == -1:
                parts.append("*" + x)
            else:
                parts.append(f"{params[fl - 1]}={x}")
        return f"{head}({', '.join(parts)})"
    if k == "vmulx":
        return f"(Vector({r[0]}, 2, 0) * {r[1]}).x"
    if k == "prop":
        return f"self.{PROPS[c[0] - 1]}"
    if k == "rel":
        return f"({lit(c[:2])} relative to F).yaw"
    raise ValueError(k)


def bound_nodes(case):
    return [n for n in range(1, len(case.nodes) + 1) if case.kind(n) != "const"]


def inline_text(case, n, stop):
    """Fully nested text of node n; nodes in `stop` are referenced by variable."""

    def ref(x):
        if x in stop:
            return f"v{x}"
        return node_text(case, x, ref)

    return ref(n)


def scenic_text(case):
    """Plain case: every non-constant node bound to a variable and a global parameter, plus
    the root once more as one nested expression over the leaf variables."""
    if case.np:
        return object_text(case)
    lines = [PRELUDE]

    def ref(x):
        return lit(case.nodes[x - 1]["c"]) if case.kind(x) == "const" else f"v{x}"

    bn = bound_nodes(case)
    for n in bn:
        lines.append(f"v{n} = {node_text(case, n, ref)}")
    for n in bn:
        lines.append(f"param n{n} = v{n}")
    root = len(case.nodes)
    prims = {n for n in bn if case.kind(n) in PRIMS}
    lines.append(f"param root = {inline_text(case, root, prims)}")
    return "\n".join(lines) + "\n"


def object_text(case):
    """Object case: a chain of classes with `self.`-dependent defaults, one object whose
    specifiers give some properties; nodes in case.top are top-level variables."""
    lines = [PRELUDE]
    top = sorted(case.top)

    def ref(x):
        return f"v{x}" if x in case.top else node_text(case, x, ref)

    for n in top:
        lines.append(f"v{n} = {node_text(case, n, ref)}")
    nlev = len(case.classes)
    for lvl in range(nlev - 1, -1, -1):  # base class first
        name = f"C{nlev - 1 - lvl}"
        base = f"(C{nlev - 2 - lvl})" if lvl < nlev - 1 else ""
        lines.append(f"class {name}{base}:")
        body = [f"    {PROPS[p - 1]}: {ref(n)}" for p, n in sorted(case.classes[lvl].items()) if p != 1]
        lines += body or ["    pass"]
    specs = []
    if case.withs[0]:
        specs.append(f"at ({ref(case.withs[0])}, 0)")
    for p in range(2, case.np + 1):
        if case.withs[p - 1]:
            specs.append(f"with {PROPS[p - 1]} {ref(case.withs[p - 1])}")
    lines.append(f"ego = new C{nlev - 1} " + ", ".join(specs))
    return "\n".join(lines) + "\n"


# --------------------------------------------------------------------------- CPython evaluation (sanity / pre-screen)


class Reject(Exception):
    pass


class Outside(Exception):
    pass


def _chk(v):
    if isinstance(v, bool):
        return v
    if isinstance(v, int):
        if abs(v) > 30000:
            raise Outside("big")
    elif isinstance(v, float):
        if v != v or abs(v) > 30000 or (v * 64) != int(v * 64):
            raise Outside("not dyadic")
    elif isinstance(v, (tuple, list)):
        for x in v:
            _chk(x)
    return v


def py_node(case, n, vals, choice, finals=None, prev=None):
    nd = case.nodes[n - 1]
    k, a, c = nd["k"], nd["a"], nd["c"]
    cv = [vals[x - 1] if x else None for x in a]
    if k == "const":
        f = Fraction(c[0], c[1])
        return int(f) if f.denominator == 1 else float(f)
    if k == "prop":
        return prev[finals[c[0] - 1] - 1]
    if k == "rel":
        w = prev[finals[c[2] - 1] - 1]
        if w is _UNSET:
            return _UNSET
        r = float(Fraction(c[0], c[1])) + w
        if abs(r) > 3:
            raise Outside("yaw wraps")
        return r
    if any(x is _UNSET for x in cv):
        return _UNSET
    if k == "tuple":
        return tuple(cv)
    if k == "list":
        return list(cv)
    if k == "box":
        return Box(*cv)
    if k in PRIMS:
        if n not in choice:
            return _UNSET
        x = choice[n]
        if k == "drange":
            return x
        if k in ("uniform", "discrete"):
            return cv[x - 1]
        if k == "range":
            return [cv[0], (cv[0] + cv[1]) / 2, cv[1]][x - 1]
        return cv[0][x - 1]
    if k == "add":
        return cv[0] + cv[1]
    if k == "sub":
        return cv[0] - cv[1]
    if k == "mul":
        if not all(isinstance(x, (int, float)) for x in cv):
            raise Outside("sequence repetition")
        return cv[0] * cv[1]
    if k == "truediv":
        return cv[0] / cv[1]
    if k == "floordiv":
        return cv[0] // cv[1]
    if k == "mod":
        return cv[0] % cv[1]
    if k == "divmod":
        return divmod(cv[0], cv[1])
    if k == "pow":
        if cv[1] != int(cv[1]) or abs(cv[1]) > 4 or abs(cv[0]) > 64:
            raise Outside("pow")
        return cv[0] ** cv[1]
    if k == "vmulx":
        if not all(isinstance(x, (int, float)) for x in cv):
            raise TypeError("vector component / scalar expected")
        return cv[0] * cv[1]
    if k == "neg":
        return -cv[0]
    if k == "pos":
        return +cv[0]
    if k == "abs":
        return abs(cv[0])
    if k == "len":
        return len(cv[0])
    if k == "getitem":
        return cv[0][cv[1]]
    if k == "slice":
        return cv[0][slice(cv[1], cv[2], cv[3])]
    if k == "attr":
        return getattr(cv[0], "uv"[c[0] - 1])
    if k in ("call", "meth"):
        if k == "call":
            name, params, fn = FN[c[0]]
            args = cv
        else:
            name, params = METH[c[0]]
            fn = getattr(Box, name)
            fn = getattr(fn, "__wrapped__", fn)
            args = cv[1:]
        pos, kw = ([cv[0]] if k == "meth" else []), {}
        for x, fl in zip(args, c[1:]):
            if fl == 0:
                pos.append(x)
            elif fl == -1:
                pos.extend(x)
            else:
                kw[params[fl - 1]] = x
        if k == "call" and c[0] == 11 and not all(isinstance(x, int) and not isinstance(x, bool) for x in pos):
            raise Outside("hypot of non-integers")
        if k == "call" and c[0] == 13 and (len(pos) + len(kw) == 2) and (pos + list(kw.values()))[-1] != 0:
            raise Outside("round ndigits")
        r = fn(*pos, **kw)
        if k == "call" and c[0] == 11 and r != int(r):
            raise Outside("hypot not exact")
        return r
    raise ValueError(k)


_UNSET = object()


def _supp(case, n, vals):
    nd = case.nodes[n - 1]
    k = nd["k"]
    cv = [vals[x - 1] for x in nd["a"]]
    if k == "drange":
        return list(range(math.ceil(cv[0]), math.floor(cv[1]) + 1))
    if k in ("uniform", "discrete"):
        return list(range(1, len(cv) + 1))
    if k == "range":
        return [1] if cv[0] == cv[1] else [1, 2, 3]
    return list(range(1, len(cv[0]) + 1))


def finals_of(case):
    out = []
    for p in range(1, case.np + 1):
        n = case.withs[p - 1]
        if not n:
            for lvl in case.defs:
                if lvl[p - 1]:
                    n = lvl[p - 1]
                    break
        out.append(n)
    return out


class TooLarge(Exception):
    pass


def py_rows(case, limit=160):
    """All complete evaluations by CPython itself: list of value vectors.
    Raises Reject / Outside / any Python exception the expression raises."""
    N = len(case.nodes)
    finals = finals_of(case) if case.np else None
    passes = 1 if not case.np else case.np + 2

    def evaluate(choice):
        prev = [_UNSET] * N
        for _ in range(passes):
            vals = []
            for n in range(1, N + 1):
                vals.append(py_node(case, n, vals, choice, finals, prev))
            prev = vals
        return prev

    rows = []

    def rec(choice):
        vals = evaluate(choice)
        ready = [
            n
            for n in range(1, N + 1)
            if case.kind(n) in PRIMS
            and n not in choice
            and all(vals[x - 1] is not _UNSET for x in case.nodes[n - 1]["a"])
        ]
        if not ready:
            if any(v is _UNSET for v in vals):
                raise Outside("cyclic")
            for v in vals:
                _chk(v)
            rows.append(vals)
            if len(rows) > limit:
                raise TooLarge()
            return
        p = ready[0]
        s = _supp(case, p, vals)
        if not s:
            raise Reject()
        for x in s:
            c2 = dict(choice)
            c2[p] = x
            rec(c2)

    rec({})
    return rows


def fragment_reason(case):
    """Structural limits of the fragment (None = inside).  These are forms for which Python
    itself offers no lifting hook, so Scenic refuses them when the expression is built:
      * a container LITERAL indexed / sliced by a random value: (x, 5)[y] calls
        tuple.__getitem__ / TupleDistribution.__getitem__ with a Distribution (there is no
        reflected __getitem__) -> TypeError at construction;
      * star-unpacking into a method of an object literal that itself holds random fields
        (Box(x, 5).f(*T)): the bound method hides the random field from dependency tracking."""
    for nd in case.nodes:
        k, a = nd["k"], nd["a"]
        if k in ("getitem", "slice") and not definitely_dist(case, a[0]):
            if any(x and case.is_random(x) for x in a[1:]):
                return "literal-container-random-index"
        if k == "meth" and -1 in nd["c"][1:] and case.kind(a[0]) == "box" and case.is_random(a[0]):
            return "star-call-on-literal-with-random-fields"
        if k == "discrete" and any(_holds_list(case, x) for x in a):
            return "unhashable-dict-key"   # Discrete({[..]: w}): plain Python raises TypeError
    return None


def _holds_list(case, n):
    """A plain Python container (when the program runs) that is or contains a list: unhashable."""
    if not plain_container(case, n):
        return False
    nd = case.nodes[n - 1]
    if nd["k"] == "list" or case.ty[n - 1] == "lst":
        return True
    return any(x and _holds_list(case, x) for x in nd["a"])


def definitely_dist(case, n):
    """Sound under-approximation of "this node is a Distribution object when the program is
    executed" (only then can it be indexed by a random value).  Literals are plain Python
    containers, and so is whatever plain Python computes from them (Box(x, 0).v is the int 0)."""
    nd = case.nodes[n - 1]
    k, a = nd["k"], [x for x in nd["a"] if x]
    if k in PRIMS:
        return True
    if k in ("const", "tuple", "list", "box", "prop", "rel"):
        return False
    if k in ("attr", "getitem", "slice", "len", "neg", "pos", "abs"):
        return definitely_dist(case, a[0])
    if k in ("call", "meth"):
        def holds(x):
            return definitely_dist(case, x) or (case.kind(x) in ("tuple", "list", "box")
                                                and any(holds(y) for y in case.nodes[x - 1]["a"]))
        return any(holds(x) for x in (a if k == "call" else a[1:])) or (k == "meth" and definitely_dist(case, a[0]))
    return any(definitely_dist(case, x) for x in a)   # arithmetic, concatenation, divmod, vmulx


def plain_container(case, n):
    """The node is an ordinary Python tuple / list when the program is executed (a literal,
    a concatenation or constant-bounds slice of literals), even if it holds random elements."""
    nd = case.nodes[n - 1]
    k, a = nd["k"], nd["a"]
    if k in ("tuple", "list", "box"):
        return True
    if k == "add":
        return plain_container(case, a[0]) and plain_container(case, a[1])
    if k == "slice":
        return plain_container(case, a[0]) and not any(x and case.is_random(x) for x in a[1:])
    return False


def canon(v):
    """Canonical, JSON-like form shared by the spec's output, CPython's and Scenic's values."""
    if isinstance(v, bool):
        return ("n", Fraction(int(v)))
    if isinstance(v, int):
        return ("n", Fraction(v))
    if isinstance(v, Fraction):
        return ("n", v)
    if isinstance(v, float) or type(v).__name__ in ("float64", "float32", "int64", "int32"):
        x = float(v)
        if x != x or abs(x) > 1e9:
            return ("?", repr(v))
        return ("n", Fraction(round(x * (1 << 20)), 1 << 20))
    if isinstance(v, Box) or type(v).__name__ == "Box":
        return ("b", tuple(canon(x) for x in v))
    if type(v) is tuple:
        return ("t", tuple(canon(x) for x in v))
    if isinstance(v, tuple):  # some other tuple subclass
        return ("?", repr(v)[:80])
    if isinstance(v, list):
        return ("l", tuple(canon(x) for x in v))
    return ("?", repr(v)[:80])


def canon_spec(v):
    """Value printed by Expr.tla (["n", num, den] / ["t", [..]] / ["l", [..]])."""
    if v[0] == "n":
        return ("n", Fraction(v[1], v[2]))
    if v[0] in ("t", "l", "b"):
        return (v[0], tuple(canon_spec(x) for x in v[1]))
    return ("?", repr(v))


def show(cv):
    if cv[0] == "n":
        f = cv[1]
        return str(f.numerator) if f.denominator == 1 else str(float(f))
    if cv[0] == "t":
        return "(" + ", ".join(show(x) for x in cv[1]) + ")"
    if cv[0] == "l":
        return "[" + ", ".join(show(x) for x in cv[1]) + "]"
    if cv[0] == "b":
        return "Box(" + ", ".join(show(x) for x in cv[1]) + ")"
    return str(cv[1])


def prescreen(case):
    """'ok', or the reason CPython / the exact universe rejects the case."""
    try:
        rows = py_rows(case)
    except TooLarge:
        return "too-large", None
    except Reject:
        return "empty-support", None
    except Outside as e:
        return "outside-exact-universe", None
    except RecursionError:
        raise
    except Exception as e:  # ZeroDivisionError, IndexError, TypeError, ValueError, OverflowError
        return "python-raises", None
    return "ok", rows


# --------------------------------------------------------------------------- exhaustive core

CONSTS = [0, 1, 2, -1, Fraction(1, 2)]
BINOPS = ["add", "sub", "mul", "truediv", "floordiv", "mod", "pow", "divmod"]


def leaf(case, spec):
    """spec: ('dr', lo, hi) ('un', v..) ('di', (v, w)..) ('ra', lo, hi) with constant operands."""
    t = spec[0]
    if t == "dr":
        return case.add("drange", a=[case.const(spec[1]), case.const(spec[2])], ty="int")
    if t == "un":
        ids = [case.const(v) for v in spec[1:]]
        return case.add("uniform", a=ids, ty="int" if intty(case, ids) else "num")
    if t == "di":
        ids = [case.const(v) for v, _w in spec[1:]]
        return case.add("discrete", a=ids, c=[w for _v, w in spec[1:]], ty="int" if intty(case, ids) else "num")
    if t == "ra":
        return case.add("range", a=[case.const(spec[1]), case.const(spec[2])], ty="num")
    raise ValueError(spec)


H = Fraction(1, 2)
LEAVES = [
    ("dr", 0, 2),
    ("dr", -2, 1),
    ("un", H, 3 * H, -H),
    ("un", 1, 5 * H),
    ("ra", 0, 1),
    ("ra", -3 * H, H),
    ("di", (-1, 1), (2, 2)),
]
REWRITES = [("add", "R", 0), ("add", "L", 0), ("sub", "R", 0), ("mul", "R", 1), ("mul", "L", 1),
            ("truediv", "R", 1), ("floordiv", "R", 1), ("pow", "R", 1)]


def binop(case, op, x, y):
    if op == "divmod":
        return case.add("divmod", a=[x, y], ty="tup")
    ty = "int" if op in ("add", "sub", "mul", "floordiv", "mod") and intty(case, [x, y]) else "num"
    if op == "add" and case.ty[x - 1] in ("tup", "lst", "box"):
        ty = case.ty[x - 1] if case.ty[x - 1] != "box" else "tup"
    return case.add(op, a=[x, y], ty=ty)


def unop(case, op, x):
    return case.add(op, a=[x], ty=case.ty[x - 1] if case.ty[x - 1] == "int" else "num")


def call(case, fid, args, flags=None):
    flags = flags or [0] * len(args)
    ty = "num"
    if fid in (4, 5, 6, 7, 8, 9, 12) or (fid == 13 and len(args) == 1):
        ty = "int"
    elif fid == 16:
        ty = "lst" if case.ty[args[0] - 1] == "lst" else "tup"
    elif fid in (1, 2, 3, 10) and intty(case, args) and -1 not in flags:
        ty = "int"
    return case.add("call", a=args, c=[fid] + flags, ty=ty)


def meth(case, mid, obj, args, flags=None):
    flags = flags or [0] * len(args)
    return case.add("meth", a=[obj] + args, c=[mid] + flags, ty="num")


def outer(case, o, x):
    if o in ("neg", "abs", "pos"):
        return unop(case, o, x)
    if o == "plus1":
        return binop(case, "add", x, case.const(1))
    if o == "times2":
        return binop(case, "mul", x, case.const(2))
    if o == "fd1":
        return binop(case, "floordiv", x, case.const(1))
    if o == "round":
        return call(case, 13, [x])
    if o == "rsub0":
        return binop(case, "sub", case.const(0), x)
    raise ValueError(o)


def core_cases():
    out = []

    def new(tag):
        c = Case(tag)
        out.append(c)
        return c

    # A: every binary operator x constant x side x leaf type (includes every construction
    #    rewrite form and its look-alikes)
    for lf in LEAVES:
        for op in BINOPS:
            for k in CONSTS:
                for side in "LR":
                    c = new(f"A:{op}:{side}:{k}")
                    x = leaf(c, lf)
                    kc = c.const(k)
                    binop(c, op, x, kc) if side == "R" else binop(c, op, kc, x)
    # B: unary operators and conversions
    for lf in LEAVES:
        for o in ("neg", "pos", "abs"):
            c = new(f"B:{o}")
            unop(c, o, leaf(c, lf))
        for fid, extra in ((13, False), (13, True), (12, False), (14, False)):
            c = new(f"B:fn{fid}")
            x = leaf(c, lf)
            if extra:
                call(c, 13, [x, c.const(0)], [0, 0 if lf[0] == "dr" else 2])
            else:
                call(c, fid, [x])
    # C: a rewrite form below another operator (the simplified node is what the outer one sees)
    for lf in (LEAVES[0], LEAVES[2], LEAVES[5]):
        for op, side, k in REWRITES:
            for o in ("neg", "abs", "plus1", "times2", "fd1", "round", "rsub0"):
                if o == "fd1" and op == "floordiv":
                    continue
                c = new(f"C:{op}{side}{k}:{o}")
                x = leaf(c, lf)
                kc = c.const(k)
                y = binop(c, op, x, kc) if side == "R" else binop(c, op, kc, x)
                outer(c, o, y)
    #    ... and above one: (x op c) rewritten
    for lf in (LEAVES[0], LEAVES[2]):
        for inner, ik in (("truediv", 2), ("mul", H), ("add", H), ("floordiv", 2), ("mod", 2), ("pow", 2)):
            for op, side, k in REWRITES:
                c = new(f"C2:{inner}:{op}{side}{k}")
                x = leaf(c, lf)
                y = binop(c, inner, x, c.const(ik))
                kc = c.const(k)
                binop(c, op, y, kc) if side == "R" else binop(c, op, kc, y)
    # D: two leaves (and the same leaf twice)
    two = [("dr", 1, 2), ("un", H, -3 * H), ("dr", -1, 1)]
    for op in BINOPS:
        for l1 in two:
            for l2 in two:
                c = new(f"D:{op}")
                binop(c, op, leaf(c, l1), leaf(c, l2))
            c = new(f"D:{op}:same")
            x = leaf(c, l1)
            binop(c, op, x, x)
    #    unary over operators whose bounds the library does not track
    for lf in (LEAVES[0], LEAVES[1]):
        for o in ("neg", "abs"):
            for inner, ik in (("floordiv", 2), ("mod", 2), ("pow", 2), ("truediv", -1)):
                c = new(f"D2:{o}:{inner}")
                unop(c, o, binop(c, inner, leaf(c, lf), c.const(ik)))
                c = new(f"D2:{o}:{inner}:+1")
                binop(c, "add", unop(c, o, binop(c, inner, leaf(c, lf), c.const(ik))), c.const(1))
            for fid in (13, 12, 1):
                c = new(f"D2:{o}:fn{fid}")
                unop(c, o, call(c, fid, [leaf(c, lf)]))
    # E: sequences
    def tup(c, vals, kind="tuple"):
        return c.add(kind, a=[c.const(v) for v in vals], ty="tup" if kind == "tuple" else "lst")

    def rseq(c, kind="tuple"):
        return c.add("uniform", a=[tup(c, (1, 2, 3), kind), tup(c, (4, 5), kind)], ty="tup" if kind == "tuple" else "lst")

    for kind in ("tuple", "list"):
        for i in (0, 1, -1, -2, 2):
            c = new(f"E:getitem:{i}")
            c.add("getitem", a=[rseq(c, kind), c.const(i)])
        for ilf in (("dr", 0, 1), ("dr", -2, -1), ("un", 0, -1)):
            c = new("E:getitem:random")
            T = rseq(c, kind)
            c.add("getitem", a=[T, leaf(c, ilf)])
        c = new("E:getitem:expr")
        T = rseq(c, kind)
        c.add("getitem", a=[T, binop(c, "sub", c.add("len", a=[T], ty="int"), c.const(1))])
        c = new("E:len")
        c.add("len", a=[rseq(c, kind)], ty="int")
        bounds = [None, 0, 1, -1, 2, "r"]
        for s, e, st in itertools.product(bounds, bounds, [None, 1, 2, -1]):
            if (s is not None) + (e is not None) + (st is not None) == 0 and kind == "list":
                continue
            if (zlib.crc32(repr((s, e, st, kind)).encode()) % 3) and "r" not in (s, e):  # a third of the constant slices
                continue
            c = new(f"E:slice:{s}:{e}:{st}")
            T = rseq(c, kind)
            r = leaf(c, ("dr", -1, 2)) if "r" in (s, e) else 0
            ids = [r if v == "r" else (0 if v is None else c.const(v)) for v in (s, e, st)]
            c.add("slice", a=[T] + ids, ty="tup" if kind == "tuple" else "lst")
        c = new("E:concat:rr")
        T = rseq(c, kind)
        binop(c, "add", T, T)
        c = new("E:concat:rc")
        binop(c, "add", rseq(c, kind), tup(c, (7,), kind))
        c = new("E:concat:cr")
        k7 = tup(c, (7, 8), kind)
        binop(c, "add", k7, rseq(c, kind))
        c = new("E:literal")
        x = leaf(c, ("dr", 0, 1))
        y = leaf(c, ("un", H, 2))
        inner = c.add("list" if kind == "tuple" else "tuple", a=[y, c.const(3)], ty="lst")
        c.add(kind, a=[x, inner, binop(c, "add", x, y)], ty="tup")
        c = new("E:literal:index")
        x = leaf(c, ("dr", 0, 1))
        T = c.add(kind, a=[x, c.const(5), binop(c, "mul", x, c.const(2))], ty="tup")
        c.add("getitem", a=[T, x])
        c = new("E:unistar")
        c.add("unistar", a=[rseq(c, kind)])
        c = new("E:unistar:slice")
        c.add("unistar", a=[c.add("slice", a=[rseq(c, kind), c.const(1), 0, 0], ty="tup")])
        c = new("E:max:seq")
        call(c, 2, [rseq(c, kind)])
        c = new("E:min:star")
        call(c, 3, [rseq(c, kind), c.const(2)], [-1, 0])
    c = new("E:divmod:item")
    x = leaf(c, ("dr", -2, 2))
    c.add("getitem", a=[binop(c, "divmod", x, c.const(2)), c.const(1)])
    c = new("E:divmod:L")
    c.add("getitem", a=[binop(c, "divmod", c.const(7), leaf(c, ("dr", 1, 3))), c.const(0)])
    # F: calls
    xs = ("dr", 0, 1)
    ys = ("un", 2, 3)
    zs = ("un", H, 1)
    shapes = [([0], "x"), ([0, 0], "xy"), ([0, 0, 0], "xyz"), ([0, 3], "xz"), ([0, 2, 3], "xyz"), ([0, 3, 2], "xzy"),
              ([0, 2], "xy"), ([1, 2, 3], "xyz"), ([3, 1], "zx"), ([2, 1, 3], "yxz")]
    for flags, who in shapes:
        c = new(f"F:vsum:{flags}")
        lv = {"x": leaf(c, xs), "y": leaf(c, ys), "z": leaf(c, zs)}
        call(c, 1, [lv[w] for w in who], flags)
    for flags, nargs in (([-1], 1), ([0, -1], 2), ([-1, 3], 2), ([-1, 0], 2)):
        c = new(f"F:vsum:star:{flags}")
        T2 = c.add("uniform", a=[tup(c, (1, 2)), tup(c, (3, 4))], ty="tup")
        T1 = c.add("uniform", a=[tup(c, (5,)), tup(c, (6,))], ty="tup")
        x = leaf(c, xs)
        args = {(-1,): [T2], (0, -1): [x, T2], (-1, 3): [T2, x], (-1, 0): [T1, x]}[tuple(flags)]
        call(c, 1, args, flags)
    for fid in (2, 3):
        for l1, l2 in ((xs, ys), (zs, xs), (("dr", -2, 1), ("un", -1, H))):
            c = new(f"F:fn{fid}:2")
            call(c, fid, [leaf(c, l1), leaf(c, l2)])
            c = new(f"F:fn{fid}:3")
            call(c, fid, [leaf(c, l1), c.const(1), leaf(c, l2)])
    for fid in range(4, 10):
        for flags in ([0, 0], [0, 2], [2, 1]):
            c = new(f"F:cmp{fid}:{flags}")
            a1, a2 = leaf(c, ("dr", 0, 2)), leaf(c, ("un", H, 1, 2))
            args = [a1, a2] if flags != [2, 1] else [a2, a1]
            r = call(c, fid, args, flags)
            binop(c, "add", r, c.const(1))
        c = new(f"F:cmp{fid}:const")
        call(c, fid, [c.const(1), leaf(c, ("dr", 0, 2))])
    for flags in ([0, 0], [0, 0, 0], [0, 0, 3], [0, 3, 2]):
        c = new(f"F:vite:{flags}")
        cond = call(c, 4, [leaf(c, ("dr", 0, 2)), c.const(1)])
        a1, a2 = leaf(c, ys), leaf(c, zs)
        args = [cond, a1] + ([a2] if len(flags) == 3 else [])
        if flags == [0, 3, 2]:
            args = [cond, a2, a1]
        call(c, 10, args, flags)
    for l1, l2 in ((("dr", 0, 3), 0), (("dr", -3, 1), 0), (("un", 3, -3), 4), (("dr", -1, 1), ("un", 0,))):
        c = new("F:hypot")
        a1 = leaf(c, l1)
        a2 = c.const(l2) if not isinstance(l2, tuple) else leaf(c, l2)
        call(c, 11, [a1, a2])
        c = new("F:hypot:scaled")
        a1 = leaf(c, l1)
        call(c, 11, [binop(c, "mul", a1, c.const(3)), binop(c, "mul", a1, c.const(4))])
    # boxes: attribute access and method calls on constant / random receivers
    def boxes(c, how):
        if how == "const":
            return c.add("box", a=[c.const(1), c.const(2)], ty="box")
        if how == "choice":
            return c.add("uniform", a=[c.add("box", a=[c.const(1), c.const(2)], ty="box"),
                                       c.add("box", a=[c.const(3), c.const(4)], ty="box")], ty="box")
        if how == "field":
            return c.add("box", a=[leaf(c, ("dr", 1, 2)), c.const(5)], ty="box")
        b1 = c.add("box", a=[leaf(c, ("dr", 1, 2)), c.const(5)], ty="box")
        return c.add("uniform", a=[b1, c.add("box", a=[c.const(3), leaf(c, ("un", H, 4))], ty="box")], ty="box")

    for how in ("const", "choice", "field", "mixed"):
        for fld in (1, 2):
            c = new(f"F:attr:{how}")
            c.add("attr", a=[boxes(c, how)], c=[fld])
        for mid in (1, 2):
            for flags in ([0], [0, 0], [0, 2], [2, 1], [-1]):
                c = new(f"F:meth{mid}:{how}:{flags}")
                b = boxes(c, how)
                x, y = leaf(c, xs), leaf(c, ys)
                if flags == [-1]:
                    args = [c.add("uniform", a=[tup(c, (1, 2)), tup(c, (3, 4))], ty="tup")]
                else:
                    args = [x, y][: len(flags)]
                meth(c, mid, b, args, flags)
        c = new(f"F:attr:arith:{how}")
        b = boxes(c, how)
        binop(c, "sub", c.add("attr", a=[b], c=[1]), c.add("attr", a=[b], c=[2]))
    # H: star-unpacking of random sequences in EVERY position among the positional arguments of
    #    order-sensitive callees: the lifted variadic function vdig, vsum, the plain method h and
    #    the @distributionMethod k of constant / random receivers
    def rtup(c, kind, shape):
        if shape == "fix":      # two options of equal length
            return c.add("uniform", a=[tup(c, (1, 2), kind), tup(c, (3, 4), kind)], ty="tup" if kind == "tuple" else "lst")
        if shape == "var":      # options of different lengths
            return c.add("uniform", a=[tup(c, (1, 2), kind), tup(c, (3,), kind)], ty="tup" if kind == "tuple" else "lst")
        if shape == "one":
            return c.add("uniform", a=[tup(c, (8,), kind), tup(c, (9,), kind)], ty="tup" if kind == "tuple" else "lst")
        raise ValueError(shape)

    star_shapes = ["S", "Sx", "xS", "xSy", "Sxy", "xyS", "SS", "SxS", "xSSy", "xSyS", "Sk", "kS"]
    for kind in ("tuple", "list"):
        for sh in star_shapes:
            def build(c, short=False):
                args, flags = [], []
                nstar = 0
                for ch in sh:
                    if ch == "S":
                        nstar += 1
                        args.append(rtup(c, kind, "var" if nstar == 1 and not (short and len(sh) > 2) else "one"))
                        flags.append(-1)
                    elif ch == "k":
                        args.append(c.const(7))
                        flags.append(0)
                    else:
                        args.append(leaf(c, ("dr", 0, 1) if ch == "x" else ("un", 6, 7)))
                        flags.append(0)
                return args, flags
            c = new(f"H:vdig:{kind}:{sh}")
            args, flags = build(c)
            call(c, 15, args, flags)
            for how in ("const", "choice"):
                for mid in (3, 4):
                    if kind == "list" and (mid == 3) != (how == "const"):
                        continue  # half of the list variants
                    if len(sh) > 3:
                        continue  # digits(self.u, ..) must stay below the exactness bound
                    c = new(f"H:meth{mid}:{how}:{kind}:{sh}")
                    b = boxes(c, how)
                    args, flags = build(c, short=True)
                    meth(c, mid, b, args, flags)
        for sh, who in (("Sx", None), ("xS", None), ("xSy", None)):
            c = new(f"H:vsum:{kind}:{sh}")
            args, flags = [], []
            for ch in sh:
                if ch == "S":
                    args.append(rtup(c, kind, "fix" if len(sh) == 2 else "one"))
                    flags.append(-1)
                else:
                    args.append(leaf(c, ("dr", 0, 1) if ch == "x" else ("un", 6, 7)))
                    flags.append(0)
            call(c, 1, args, flags)
        c = new(f"H:vsum:{kind}:S+kw")
        call(c, 1, [rtup(c, kind, "fix"), leaf(c, ("dr", 0, 1))], [-1, 3])
    # I: the container TYPE is part of the value: lists, tuples and namedtuples, as literals holding
    #    random elements, as random choices, below type-sensitive operations
    for kind in ("tuple", "list", "box"):
        def lit_rand(c):
            x = leaf(c, ("dr", 0, 1))
            if kind == "box":
                return c.add("box", a=[x, c.const(5)], ty="box")
            return c.add(kind, a=[x, c.const(5)], ty="tup" if kind == "tuple" else "lst")
        def choice_rand(c):  # a choice among literals with random elements
            x = leaf(c, ("dr", 0, 1))
            h = leaf(c, ("un", H, 2))
            if kind == "box":
                return c.add("uniform", a=[c.add("box", a=[x, c.const(5)], ty="box"), c.add("box", a=[c.const(1), h], ty="box")], ty="box")
            ty = "tup" if kind == "tuple" else "lst"
            return c.add("uniform", a=[c.add(kind, a=[c.const(0), x, h], ty=ty), c.add(kind, a=[c.const(1), x], ty=ty)], ty=ty)
        for mkname, mk in (("lit", lit_rand), ("choice", choice_rand)):
            c = new(f"I:{kind}:{mkname}:value")
            T = mk(c)
            if T != len(c.nodes):
                raise AssertionError
            c = new(f"I:{kind}:{mkname}:kind")
            call(c, 17, [mk(c)])
            c = new(f"I:{kind}:{mkname}:kind:kw")
            call(c, 17, [mk(c)], [1])
            c = new(f"I:{kind}:{mkname}:count")
            call(c, 18, [mk(c), c.const(5)])
            c = new(f"I:{kind}:{mkname}:len")
            c.add("len", a=[mk(c)], ty="int")
            if kind != "box":
                ty = "tup" if kind == "tuple" else "lst"
                c = new(f"I:{kind}:{mkname}:cat")
                call(c, 16, [mk(c), tup(c, (7,), kind)])
                c = new(f"I:{kind}:{mkname}:cat:kw")
                call(c, 16, [tup(c, (7,), kind), mk(c)], [0, 2])
                c = new(f"I:{kind}:{mkname}:cat:kindof")
                call(c, 17, [call(c, 16, [mk(c), tup(c, (7,), kind)])])
                if mkname == "choice":
                    c = new(f"I:{kind}:{mkname}:add")
                    binop(c, "add", mk(c), tup(c, (7,), kind))
                    c = new(f"I:{kind}:{mkname}:slice:kindof")
                    call(c, 17, [c.add("slice", a=[mk(c), c.const(1), 0, 0], ty=ty)])
            else:
                c = new(f"I:{kind}:{mkname}:attr")
                c.add("attr", a=[mk(c)], c=[2])
                c = new(f"I:{kind}:{mkname}:meth")
                meth(c, 4, mk(c), [c.const(1), leaf(c, ("un", 6, 7))], [0, 0])
                c = new(f"I:{kind}:{mkname}:plus:tuple")
                call(c, 17, [call(c, 16, [mk(c), tup(c, (7,), "tuple")])])
                if mkname == "choice":
                    c = new(f"I:{kind}:{mkname}:slice:kindof")
                    call(c, 17, [c.add("slice", a=[mk(c), 0, c.const(1), 0], ty="tup")])
                    c = new(f"I:{kind}:{mkname}:eq:tuple")
                    call(c, 6, [mk(c), c.add("tuple", a=[c.const(1), c.const(2)], ty="tup")])
    # J: a lifted vector operator observed through a coordinate: (Vector(a, 2, 0) * b).x = a * b
    for av, bv in ((("dr", 1, 2), 2), (3, ("dr", 1, 2)), (("dr", 1, 2), ("un", H, 3 * H)), (0, ("dr", 1, 2)),
                   (("dr", 1, 2), 0), (("un", H, 2), 1), (("dr", -1, 1), H), (("ra", 0, 1), ("dr", 1, 2))):
        c = new("J:vmulx")
        a1 = leaf(c, av) if isinstance(av, tuple) else c.const(av)
        b1 = leaf(c, bv) if isinstance(bv, tuple) else c.const(bv)
        c.add("vmulx", a=[a1, b1])
        c = new("J:vmulx:+1")
        a1 = leaf(c, av) if isinstance(av, tuple) else c.const(av)
        b1 = leaf(c, bv) if isinstance(bv, tuple) else c.const(bv)
        binop(c, "add", c.add("vmulx", a=[a1, b1]), c.const(1))
    # K: interval arithmetic of quotients and products: numerators / factors whose support lies
    #    below, across and above zero against positive and negative random denominators
    nums = [("dr", -1, 4), ("dr", -2, 1), ("un", -H, 3 * H), ("ra", -1, 1), ("dr", 0, 2), ("dr", -3, -1), ("un", 1, 3)]
    dens = [("un", 1, 2), ("un", H, 2), ("dr", 1, 2), ("un", 1, 4), ("un", -2, -1), ("un", -4, -H)]
    for nl in nums:
        for dl in dens:
            c = new("K:div")
            binop(c, "truediv", leaf(c, nl), leaf(c, dl))
            c = new("K:div:+1")
            binop(c, "add", binop(c, "truediv", leaf(c, nl), leaf(c, dl)), c.const(1))
            c = new("K:mul")
            binop(c, "mul", leaf(c, nl), leaf(c, dl))
    for dl in dens:
        for k in (-1, 1, 3):
            c = new("K:rdiv")
            binop(c, "truediv", c.const(k), leaf(c, dl))
            c = new("K:rdiv:neg")
            unop(c, "neg", binop(c, "truediv", c.const(k), leaf(c, dl)))
    # G: leaves whose parameters are random
    for mk in range(12):
        c = new(f"G:{mk}")
        x = leaf(c, ("dr", 0, 2))
        h = leaf(c, ("un", H, 3 * H))
        if mk == 0:
            c.add("drange", a=[x, binop(c, "add", x, c.const(2))], ty="int")
        elif mk == 1:
            c.add("drange", a=[c.const(0), x], ty="int")
        elif mk == 2:
            c.add("drange", a=[h, binop(c, "add", h, c.const(2))], ty="int")
        elif mk == 3:
            c.add("drange", a=[binop(c, "truediv", x, c.const(2)), binop(c, "add", x, c.const(H))], ty="int")
        elif mk == 4:
            c.add("uniform", a=[x, h, c.const(7)])
        elif mk == 5:
            c.add("discrete", a=[x, c.const(5)], c=[1, 2])
        elif mk == 6:
            c.add("range", a=[h, c.const(3)])
        elif mk == 7:
            c.add("range", a=[x, c.const(3)])
        elif mk == 8:
            c.add("range", a=[binop(c, "sub", c.const(0), h), h])
        elif mk == 9:
            c.add("uniform", a=[c.add("tuple", a=[x, c.const(1)], ty="tup"), c.add("tuple", a=[c.const(2), h], ty="tup")], ty="tup")
        elif mk == 10:
            u = c.add("uniform", a=[x, c.const(4)], ty="int")
            binop(c, "sub", c.add("drange", a=[c.const(0), u], ty="int"), u)
        elif mk == 11:
            r = c.add("range", a=[c.const(0), c.const(2)])
            binop(c, "mul", c.add("drange", a=[r, c.const(3)], ty="int"), r)
    return out


# --------------------------------------------------------------------------- random trees


class RandomGen:
    def __init__(self, rng, depth):
        self.rng = rng
        self.depth = depth
        self.case = Case("R")
        self.pool = {"int": [], "num": [], "tup": [], "lst": [], "box": []}
        self.fd1 = False
        # all sequences of one case are of one kind (tuple + list is a TypeError in Python)
        self.skind, self.sty = ("list", "lst") if rng.random() < 0.3 else ("tuple", "tup")

    def k(self, ints=False):
        vals = [0, 1, 2, -1, 3] if ints else [0, 1, 2, -1, 3, H, 3 * H, -H]
        return self.case.const(self.rng.choice(vals))

    def remember(self, n):
        t = self.case.ty[n - 1]
        if t in self.pool:
            self.pool[t].append(n)
        return n

    def leaf(self, want):
        r, c = self.rng, self.case
        pool = self.pool["int"] if want == "int" else self.pool["int"] + self.pool["num"]
        if pool and r.random() < 0.4:
            return r.choice(pool)
        if want == "int":
            spec = r.choice([("dr", 0, 2), ("dr", -2, 1), ("dr", 1, 3), ("un", 1, 2), ("un", -1, 0, 2), ("di", (0, 1), (3, 2))])
        else:
            spec = r.choice([("un", H, 3 * H), ("un", -H, 1, 5 * H), ("ra", 0, 1), ("ra", -1, 1), ("un", 1, H), ("dr", 0, 2), ("di", (H, 1), (2, 1))])
        return self.remember(leaf(c, spec))

    def num(self, d, want="num"):
        r, c = self.rng, self.case
        if d <= 0 or r.random() < 0.12:
            return self.leaf(want)
        ops = ["bin"] * 6 + ["un"] * 2 + ["fn"] * 2 + ["cmp", "vite", "len", "param", "mux"]
        if want == "num":
            ops += ["getitem", "attr", "meth", "unistar", "conv", "bin", "kind", "count", "methstar", "dig", "dig"]
        o = r.choice(ops)
        if o == "bin":
            opset = ["add", "sub", "mul", "floordiv", "mod"] if want == "int" else ["add", "sub", "mul", "truediv", "floordiv", "mod", "pow", "add", "sub", "mul"]
            op = r.choice(opset)
            x = self.num(d - 1, want)
            if r.random() < 0.45:
                y = self.k(ints=(want == "int"))
                if op == "pow":
                    y = c.const(r.choice([0, 1, 2, 3, -1]))
                if op == "floordiv" and c.nodes[y - 1]["c"] == [1, 1]:
                    if self.fd1:
                        y = c.const(2)
                    self.fd1 = True
                if r.random() < 0.35:
                    x, y = y, x
            else:
                y = self.num(d - 1, "int" if op == "pow" else want)
            return self.remember(binop(c, op, x, y))
        if o == "un":
            return self.remember(unop(c, r.choice(["neg", "abs", "pos", "neg", "abs"]), self.num(d - 1, want)))
        if o == "fn":
            fid = r.choice([1, 1, 2, 3])
            n = r.randint(2, 3) if fid != 1 else r.randint(1, 3)
            args = [self.num(d - 1, want) if r.random() < 0.7 else self.k(want == "int") for _ in range(n)]
            if not any(c.is_random(x) for x in args):
                args[0] = self.leaf(want)
            flags = [0] * n
            if fid == 1 and n >= 2:
                perm = r.choice([[0, 0, 0], [0, 2, 3], [0, 3, 2], [0, 0, 3], [1, 2, 3], [2, 1, 3], [0, 3, 0]])[:n]
                if perm == [0, 3, 0][:n] and n == 3:
                    perm = [0, 3, 2]
                flags = perm
                if n == 2 and flags == [0, 0] and r.random() < 0.5:
                    flags = [0, 3]
            return self.remember(call(c, fid, args, flags))
        if o == "dig":  # order-sensitive variadic callee, starred random sequences in any position
            n = r.randint(2, 4)
            args, flags = [], []
            for _ in range(n):
                if r.random() < 0.45:
                    args.append(self.seq(min(d - 1, 1)))
                    flags.append(-1)
                else:
                    args.append(self.num(min(d - 1, 1), "int") if r.random() < 0.7 else self.k(True))
                    flags.append(0)
            if -1 not in flags:
                j = r.randrange(n)
                args[j], flags[j] = self.seq(0), -1
            return self.remember(call(c, 15, args, flags))
        if o == "methstar":
            b = self.box(min(d - 1, 1))
            args = [self.seq(0), self.num(0, "int")]
            flags = [-1, 0]
            if r.random() < 0.5:
                args, flags = args[::-1], flags[::-1]
            return self.remember(meth(c, r.choice([3, 4]), b, args, flags))
        if o == "kind":
            x = r.choice([self.seq, self.seq, self.box])(d - 1)
            return self.remember(call(c, 17, [x]))
        if o == "count":
            return self.remember(call(c, 18, [self.seq(d - 1), self.k()], r.choice([[0, 0], [0, 2]])))
        if o == "cmp":
            a1 = self.num(d - 1, want)
            a2 = self.k() if r.random() < 0.5 else self.num(d - 1, want)
            return self.remember(call(c, r.randint(4, 9), [a1, a2], r.choice([[0, 0], [0, 2]])))
        if o == "vite":
            cond = call(c, r.randint(4, 9), [self.num(d - 1, "num"), self.k()])
            a1, a2 = self.num(d - 1, want), self.num(d - 1, want) if r.random() < 0.5 else self.k(want == "int")
            return self.remember(call(c, 10, [cond, a1, a2], r.choice([[0, 0, 0], [0, 0, 3]])))
        if o == "len":
            return self.remember(c.add("len", a=[self.seq(d - 1)], ty="int"))
        if o == "param":
            lo = self.num(d - 1, "int")
            w = c.const(r.choice([0, 1, 2]))
            return self.remember(c.add("drange", a=[lo, binop(c, "add", lo, w)], ty="int"))
        if o == "mux":
            n = r.randint(2, 3)
            opts = [self.num(d - 1, want) if r.random() < 0.6 else self.k(want == "int") for _ in range(n)]
            if r.random() < 0.3:
                seen, uo = set(), []
                for x in opts:
                    key = tuple(c.nodes[x - 1]["c"]) if c.kind(x) == "const" else x
                    if key not in seen:
                        seen.add(key)
                        uo.append(x)
                if len(uo) >= 2:
                    return self.remember(c.add("discrete", a=uo, c=[r.randint(1, 3) for _ in uo], ty="int" if intty(c, uo) else "num"))
            return self.remember(c.add("uniform", a=opts, ty="int" if intty(c, opts) else "num"))
        if o == "getitem":
            T = self.seq(d - 1)
            i = c.const(r.choice([0, 1, -1])) if r.random() < 0.5 else self.num(min(d - 1, 1), "int")
            return self.remember(c.add("getitem", a=[T, i]))
        if o == "attr":
            return self.remember(c.add("attr", a=[self.box(d - 1)], c=[r.randint(1, 2)]))
        if o == "meth":
            b = self.box(d - 1)
            n = r.randint(1, 2)
            args = [self.num(d - 1, want) if r.random() < 0.7 else self.k() for _ in range(n)]
            flags = r.choice([[0], [1]]) if n == 1 else r.choice([[0, 0], [0, 2], [2, 1], [1, 2]])
            return self.remember(meth(c, r.randint(1, 2), b, args, flags))
        if o == "unistar":
            return self.remember(c.add("unistar", a=[self.seq(d - 1)]))
        if o == "conv":
            x = self.num(d - 1, "num")
            fid = r.choice([12, 13, 13, 14])
            if fid == 13 and r.random() < 0.3:
                return self.remember(call(c, 13, [x, c.const(0)], [0, r.choice([0, 2])]))
            return self.remember(call(c, fid, [x]))
        raise ValueError(o)

    def seq(self, d):
        r, c = self.rng, self.case
        K, TY = self.skind, self.sty
        if self.pool[TY] and r.random() < 0.3:
            return r.choice(self.pool[TY])
        opts = ["choice", "choice", "literal", "slice", "concat", "cat", "litchoice"] + (["divmod"] if K == "tuple" else [])
        o = r.choice(opts) if d > 0 else "choice"
        if o == "choice":
            n = r.randint(2, 3)
            opts = [c.add(K, a=[self.k() for _ in range(r.randint(1, 3))], ty=TY) for _ in range(n)]
            return self.remember(c.add("uniform", a=opts, ty=TY))
        if o == "litchoice":  # a choice among container literals that hold random elements
            def one():
                els = [self.num(min(d - 1, 1)) if r.random() < 0.5 else self.k() for _ in range(r.randint(1, 3))]
                return c.add(K, a=els, ty=TY)
            return self.remember(c.add("uniform", a=[one(), one()], ty=TY))
        if o == "literal":
            els = [self.num(d - 1) if r.random() < 0.6 else self.k() for _ in range(r.randint(1, 3))]
            if not any(c.is_random(x) for x in els):
                els[0] = self.leaf("num")
            return self.remember(c.add(K, a=els, ty=TY))
        if o == "slice":
            T = self.seq(d - 1)
            def b():
                x = r.random()
                if x < 0.35:
                    return 0
                if x < 0.75:
                    return c.const(r.choice([0, 1, -1, 2]))
                return self.num(0, "int")
            st = 0 if r.random() < 0.6 else c.const(r.choice([1, 2, -1]))
            return self.remember(c.add("slice", a=[T, b(), b(), st], ty=TY))
        if o in ("concat", "cat"):
            T = self.seq(d - 1)
            T2 = self.seq(d - 1) if r.random() < 0.5 else c.add(K, a=[self.k()], ty=TY)
            if o == "cat":
                return self.remember(call(c, 16, [T, T2], r.choice([[0, 0], [0, 2]])))
            return self.remember(binop(c, "add", T, T2))
        x = self.num(d - 1)
        y = self.k() if r.random() < 0.6 else self.num(d - 1)
        return self.remember(binop(c, "divmod", x, y))

    def box(self, d):
        r, c = self.rng, self.case
        if self.pool["box"] and r.random() < 0.4:
            return r.choice(self.pool["box"])
        def one():
            if d > 0 and r.random() < 0.4:
                return c.add("box", a=[self.num(d - 1, "int"), self.k(True)], ty="box")
            return c.add("box", a=[self.k(True), self.k(True)], ty="box")
        if r.random() < 0.2:
            return self.remember(one())
        return self.remember(c.add("uniform", a=[one(), one()], ty="box"))


def random_cases(seed, count, depths=(2, 3, 3, 4)):
    rng = random.Random(seed)
    out = []
    tries = 0
    while len(out) < count and tries < count * 40:
        tries += 1
        g = RandomGen(rng, rng.choice(depths))
        kind = rng.random()
        if kind < 0.8:
            root = g.num(g.depth, rng.choice(["num", "num", "int"]))
        else:
            root = g.seq(g.depth)
        c = g.case
        if len(c.nodes) > 28 or not c.is_random(root):
            continue
        # the root must be the last node (scenic_text binds `root` to it)
        if root != len(c.nodes):
            c.add("pos" if c.ty[root - 1] in ("int", "num") else "slice", a=[root] if c.ty[root - 1] in ("int", "num") else [root, 0, 0, 0], ty=c.ty[root - 1])
        out.append(c)
    return out


# --------------------------------------------------------------------------- object cases (lazy evaluation)


DSHAPES = ["const", "plus", "times", "rminus", "diff", "pair", "choice", "vsum", "max", "drange",
           "listchoice", "boxchoiceattr", "listcat", "listkind"]
WSHAPES = ["const", "leaf", "leafplus", "rel", "relx2", "rrel", "relvsum", "relvsumkw", "relchoice", "reltuple",
           "relmax", "relabs", "boxattr", "boxmethpos", "boxmethkw", "constmethkw",
           "lzlistchoice", "lztuplediscrete", "lztuplechoice", "lzboxchoice", "lzboxattr", "lzboxattr1", "lzboxmeth",
           "lzboxmethstar", "lzlistcat", "lzlistcatconst", "lzlistcatkw", "lzlistkind", "lzboxkind", "lzlistcount",
           "lzlistadd", "lzlistitem", "lzlistslice", "lzliststar", "lzlistdirect", "lzboxdirect",
           "lzvecmul", "lzvecmulrandvec", "lzvecmulrand"]


def object_core():
    """Deterministic object cases: every specifier-value shape and every default shape once, on
    a fixed small class (pa: self.pb + 1, pb: 2, pc: 1, pd: <default shape over pb, pc>), with the
    position constant / random."""
    return object_cases(0, 0, core=True)


def object_cases(seed, count, core=False):
    """One object of a class chain with `self.`-dependent defaults, some properties given by
    specifiers (constants, random leaves, vector-field-relative values).  Properties: 1 = px
    (x of the position), 2..5 = pa..pd."""
    rng = random.Random(seed)
    out = []
    NP = 5

    def default_expr(c, shape, deps, k):
        P = lambda p: c.add("prop", c=[p])
        if shape == "const":
            return c.const(k)
        if shape == "plus":
            return binop(c, "add", P(deps[0]), c.const(k))
        if shape == "times":
            return binop(c, "mul", P(deps[0]), c.const(2))
        if shape == "rminus":
            return binop(c, "sub", c.const(k), P(deps[0]))
        if shape == "diff":
            return binop(c, "sub", P(deps[0]), P(deps[-1]))
        if shape == "pair":
            return c.add("tuple", a=[P(deps[0]), P(deps[-1])], ty="tup")
        if shape == "choice":
            return c.add("uniform", a=[P(deps[0]), c.const(k + 5)])
        if shape == "vsum":
            return call(c, 1, [P(deps[0]), P(deps[-1])], [0, 3])
        if shape == "max":
            return call(c, 2, [P(deps[0]), c.const(k)])
        if shape == "drange":
            return c.add("drange", a=[call(c, 12, [call(c, 3, [P(deps[0]), c.const(1)])]), c.const(2)], ty="int")
        # container literals holding `self.` references, inside random expressions
        if shape == "listchoice":
            return c.add("uniform", a=[c.add("list", a=[c.const(0), P(deps[0])], ty="lst"),
                                       c.add("list", a=[c.const(1), P(deps[-1]), c.const(k)], ty="lst")], ty="lst")
        if shape == "boxchoiceattr":
            return c.add("attr", a=[c.add("uniform", a=[c.add("box", a=[P(deps[0]), c.const(2)], ty="box"),
                                                        c.add("box", a=[P(deps[-1]), c.const(3)], ty="box")], ty="box")], c=[2])
        if shape == "listcat":
            return call(c, 16, [c.add("list", a=[P(deps[0]), c.const(k)], ty="lst"), c.add("list", a=[c.const(7)], ty="lst")])
        if shape == "listkind":
            return call(c, 17, [c.add("uniform", a=[c.add("list", a=[P(deps[0])], ty="lst"), c.add("list", a=[c.const(k), P(deps[-1])], ty="lst")], ty="lst")])
        raise ValueError(shape)

    def with_expr(c, shape, k):
        R = lambda kk: c.add("rel", c=[Fraction(kk).numerator, Fraction(kk).denominator, 1])
        def topleaf(spec):
            n = leaf(c, spec)
            c.top.add(n)
            return n
        def boxchoice():
            n = c.add("uniform", a=[c.add("box", a=[c.const(1), c.const(2)], ty="box"),
                                    c.add("box", a=[c.const(3), c.const(4)], ty="box")], ty="box")
            c.top.add(n)
            return n
        if shape == "const":
            return c.const(k)
        if shape == "leaf":
            return topleaf(("dr", 0, 1))
        if shape == "leafplus":
            return binop(c, "add", topleaf(("un", 1, 3)), c.const(k))
        if shape == "rel":
            return R(H)
        if shape == "relx2":
            return binop(c, "mul", R(1), c.const(2))
        if shape == "rrel":
            return binop(c, "sub", c.const(k), R(H))
        if shape == "relvsum":
            return call(c, 1, [R(H), topleaf(("dr", 0, 1))], [0, 3])
        if shape == "relvsumkw":
            return call(c, 1, [c.const(k), R(1)], [0, 2])
        if shape == "relchoice":
            return c.add("uniform", a=[R(H), c.const(7)])
        if shape == "reltuple":
            return c.add("tuple", a=[R(1), topleaf(("dr", 0, 1))], ty="tup")
        if shape == "relmax":
            return call(c, 2, [R(H), topleaf(("un", 1, 2))])
        if shape == "relabs":
            return unop(c, "abs", unop(c, "neg", R(1)))
        if shape == "boxattr":
            return binop(c, "add", c.add("attr", a=[boxchoice()], c=[1]), R(H))
        if shape == "boxmethpos":
            return meth(c, 1, boxchoice(), [R(H), c.const(k)], [0, 0])
        if shape == "boxmethkw":
            return meth(c, 1, boxchoice(), [c.const(k), R(H)], [0, 2])
        if shape == "constmethkw":
            return meth(c, 2, c.add("box", a=[c.const(1), c.const(2)], ty="box"), [c.const(k), R(H)], [0, 2])
        # non-tuple container literals with a LAZILY evaluated element, inside random expressions
        # (an option of Uniform / Discrete, an argument of a lifted function or method, an operand
        # of an operator): the sampled value must still be a list / the namedtuple
        L = lambda *els: c.add("list", a=list(els), ty="lst")
        B = lambda u, v: c.add("box", a=[u, v], ty="box")
        if shape == "lzlistchoice":
            return c.add("uniform", a=[L(c.const(0), R(H), topleaf(("dr", 0, 1))), L(c.const(1), R(H))], ty="lst")
        if shape == "lztuplediscrete":
            return c.add("discrete", a=[c.add("tuple", a=[R(H), c.const(k)], ty="tup"), c.add("tuple", a=[c.const(k)], ty="tup")], c=[1, 2], ty="tup")
        if shape == "lztuplechoice":
            return c.add("uniform", a=[c.add("tuple", a=[c.const(0), R(H)], ty="tup"), c.add("tuple", a=[c.const(1), R(1)], ty="tup")], ty="tup")
        if shape == "lzboxchoice":
            return c.add("uniform", a=[B(R(H), c.const(2)), B(R(H), c.const(3))], ty="box")
        if shape == "lzboxattr":
            return c.add("attr", a=[c.add("uniform", a=[B(R(H), c.const(2)), B(R(1), c.const(3))], ty="box")], c=[2])
        if shape == "lzboxattr1":
            return c.add("attr", a=[c.add("uniform", a=[B(R(H), c.const(2)), B(c.const(k), c.const(3))], ty="box")], c=[1])
        if shape == "lzboxmeth":
            return meth(c, 2, c.add("uniform", a=[B(R(H), c.const(2)), B(c.const(1), c.const(3))], ty="box"), [c.const(k)], [0])
        if shape == "lzboxmethstar":
            return meth(c, 4, c.add("uniform", a=[B(R(H), c.const(2)), B(c.const(1), c.const(3))], ty="box"),
                        [c.const(k), topleaf(("dr", 0, 1))], [0, 0])
        if shape == "lzlistcat":
            return call(c, 16, [L(R(H), topleaf(("dr", 0, 1))), L(c.const(7))])
        if shape == "lzlistcatconst":      # only the lazy element, no random one
            return call(c, 16, [L(R(H), c.const(k)), L(c.const(7))])
        if shape == "lzlistcatkw":
            return call(c, 16, [L(c.const(7)), L(topleaf(("dr", 0, 1)), R(1))], [0, 2])
        if shape == "lzlistkind":
            return call(c, 17, [L(R(H), topleaf(("dr", 0, 1)))])
        if shape == "lzboxkind":
            return call(c, 17, [B(R(H), topleaf(("dr", 0, 1)))])
        if shape == "lzlistcount":
            return call(c, 18, [L(R(H), topleaf(("un", 1, H)), c.const(1)), c.const(1)])
        if shape == "lzlistadd":           # operator operand
            return binop(c, "add", c.add("uniform", a=[L(R(H), c.const(1)), L(c.const(2), R(H))], ty="lst"), L(c.const(7)))
        if shape == "lzlistitem":
            return c.add("getitem", a=[c.add("uniform", a=[L(c.const(0), R(H)), L(c.const(1), R(1))], ty="lst"), c.const(1)])
        if shape == "lzlistslice":
            return c.add("slice", a=[c.add("uniform", a=[L(c.const(0), R(H), c.const(2)), L(c.const(1), R(1))], ty="lst"), c.const(1), 0, 0], ty="lst")
        if shape == "lzliststar":
            return call(c, 15, [c.add("uniform", a=[L(c.const(1), R(H)), L(c.const(2))], ty="lst"), topleaf(("dr", 0, 1))], [-1, 0])
        if shape == "lzvecmul":            # lifted vector operator with a lazy (non-random) scalar
            return c.add("vmulx", a=[c.const(k), R(H)])
        if shape == "lzvecmulrandvec":
            return c.add("vmulx", a=[topleaf(("dr", 1, 2)), R(H)])
        if shape == "lzvecmulrand":        # lazy AND random scalar
            return c.add("vmulx", a=[c.const(k), binop(c, "add", topleaf(("un", H, 1)), R(H))])
        if shape == "lzlistdirect":        # directly specified: goes through toLazyValue, the control
            return L(R(H), topleaf(("dr", 0, 1)))
        if shape == "lzboxdirect":
            return B(R(H), c.const(2))
        raise ValueError(shape)

    dshapes = DSHAPES
    wshapes = WSHAPES
    if core:
        def fixed(tag, pxk, wshape=None, dshape="const"):
            c = Case(tag)
            c.np = NP
            base = {3: c.const(2), 4: c.const(1)}
            base[2] = default_expr(c, "plus", [3], 1)
            base[5] = default_expr(c, dshape, [3, 4], 2)
            base[1] = c.const(0)
            c.classes = [base]
            c.defs = [[base.get(p, 0) for p in range(1, NP + 1)]]
            withs = [0] * NP
            if pxk == "leaf":
                n = leaf(c, ("un", H, 1))
                c.top.add(n)
                withs[0] = n
            else:
                withs[0] = c.const(pxk)
            if wshape:
                withs[3] = with_expr(c, wshape, 2)   # pc
            c.withs = withs
            out.append(c)
        for j, w in enumerate(wshapes):
            fixed(f"OC:w:{w}", H if j % 2 else "leaf", wshape=w)
            if w.startswith("lz"):
                fixed(f"OC:w:{w}", "leaf" if j % 2 else 1, wshape=w)
        for j, dsh in enumerate(dshapes):
            fixed(f"OC:d:{dsh}", H, dshape=dsh)
            fixed(f"OC:d:{dsh}:with", "leaf", wshape="leaf", dshape=dsh)
        return out
    combos = list(itertools.product([0, 1], repeat=4))  # which of pa..pd are given by a specifier
    i = 0
    while len(out) < count:
        i += 1
        c = Case("O")
        c.np = NP
        order = [2, 3, 4, 5]
        rng.shuffle(order)  # order[0] depends on later ones: a chain in a random direction
        base = {}
        for idx, p in enumerate(order):
            deps = order[idx + 1 :]
            shape = "const" if not deps else rng.choice(dshapes[1:] if idx < 3 else dshapes)
            base[p] = default_expr(c, shape, deps, rng.choice([1, 2, 3]))
        base[1] = c.const(0)  # the built-in default position is the origin
        classes = [base]
        if rng.random() < 0.5:  # a subclass overriding one or two defaults
            sub = {}
            for p in rng.sample(order, rng.choice([1, 2])):
                deps = order[order.index(p) + 1 :]
                shape = "const" if not deps else rng.choice(dshapes[1:])
                sub[p] = default_expr(c, shape, deps, rng.choice([4, 5]))
            classes.insert(0, sub)
        c.classes = classes
        c.defs = [[lvl.get(p, 0) for p in range(1, NP + 1)] for lvl in classes]
        given = combos[i % len(combos)]
        withs = [0] * NP
        pxk = rng.choice(["none", 0, 1, H, "leaf", "hleaf"])
        if pxk == "leaf":
            n = leaf(c, ("dr", 0, 2))
            c.top.add(n)
            withs[0] = n
        elif pxk == "hleaf":
            n = leaf(c, ("un", H, 3 * H))
            c.top.add(n)
            withs[0] = n
        elif pxk != "none":
            withs[0] = c.const(pxk)
        for j, g in enumerate(given):
            if g:
                withs[j + 1] = with_expr(c, rng.choice(wshapes), rng.choice([1, 2]))
        c.withs = withs
        out.append(c)
    return out
