"""Generators for C08: requirement shapes (Relations.tla) and lattice programs (Pruning.tla).

One internal tree per case; `shape_text` / `program_text` print the Scenic side, the same dict goes
to TLC as JSON.  These printers are the trusted glue."""

import math
import random

OPS = ["lt", "le", "gt", "ge", "eq", "ne"]
OPTXT = {"lt": "<", "le": "<=", "gt": ">", "ge": ">=", "eq": "==", "ne": "!="}
ABSK_FORMS = ["absQpk_c", "absQmk_c", "abskpQ_c", "abskmQ_c", "c_absQpk", "c_absQmk", "c_abskpQ", "c_abskmQ"]
FORMS1 = ["Qc", "cQ", "absQ_c", "c_absQ", "negQ_c"]
ALL_FORMS = FORMS1 + ["cQc", "Qpk_c"] + ABSK_FORMS

# ----------------------------------------------------------------------------- shapes


def relation_cases(tier, seed):
    """Every form x operator x constants (c in -3..3, k in -2..2; chains: constants in a 4-element
    set), for both quantities and both spellings of the quantity.  quick: the unary spelling in full
    for the one-constant forms, a fixed block of abs(offset) upper bounds, a seeded sample of the rest."""
    rnd = random.Random(seed * 1009 + 17)
    cases = []
    C = list(range(-3, 4))
    K = [-2, -1, 0, 1, 2]
    CH = [-2, 0, 1, 3]
    for q in ("dist", "rh"):
        for atom in ("unary", "binary"):
            full = []
            part = []
            for f in FORMS1:
                for op in OPS:
                    for c in C:
                        full.append(dict(q=q, atom=atom, form=f, ops=[op], cs=[c]))
            for op1 in OPS:
                for op2 in OPS:
                    for c1 in CH:
                        for c2 in CH:
                            part.append(dict(q=q, atom=atom, form="cQc", ops=[op1, op2], cs=[c1, c2]))
            for f in ABSK_FORMS + ["Qpk_c"]:
                for op in OPS:
                    for c in C:
                        for k in K:
                            part.append(dict(q=q, atom=atom, form=f, ops=[op], cs=[c, k]))
            if tier == "quick":
                if atom == "binary":
                    full = rnd.sample(full, len(full) // 6)
                    part = rnd.sample(part, len(part) // 40)
                else:
                    part = rnd.sample(part, len(part) // 14)
                    # always: two-sided bounds around an offset, abs(Q +- k) / abs(k +- Q) with k of
                    # either sign, constant bound on the right (<=, <) and on the left (>=, >)
                    have = {(c["form"], tuple(c["ops"]), tuple(c["cs"])) for c in part}
                    for f in ABSK_FORMS:
                        for i, k in enumerate([-2, -1, 1, 2]):
                            for c in (1, 3):
                                strict = (i + c) % 2 == 1
                                op = ("gt" if strict else "ge") if f.startswith("c_") else ("lt" if strict else "le")
                                if (f, (op,), (c, k)) not in have:
                                    part.append(dict(q=q, atom=atom, form=f, ops=[op], cs=[c, k]))
            cases += full + part
    for i, c in enumerate(cases):
        c["id"] = i + 1
    return cases


def _const(q, c, scale=None):
    """Text of a constant.  Relations cases: dist in units, rh in steps of 60 degrees.
    Lattice programs pass scale: dist constants are quarter units, rh constants degrees."""
    if scale is None:
        return str(c) if q == "dist" else f"({c * 60} deg)"
    if q == "dist":
        return repr(c / 4.0)
    return f"({c} deg)"


def _quantity(q, atom, target, ego="ego"):
    if q == "dist":
        return f"(distance to {target})" if atom == "unary" else f"(distance from {ego} to {target})"
    return f"(relative heading of {target})" if atom == "unary" else f"(relative heading of {target} from {ego})"


def shape_text(case, target, ego="ego", scale=None):
    q, f, ops, cs = case["q"], case["form"], case["ops"], case["cs"]
    Q = _quantity(q, case.get("atom", "unary"), target, ego)
    o = [OPTXT[x] for x in ops]
    c = [_const(q, x, scale) for x in cs]
    if f == "Qc":
        return f"{Q} {o[0]} {c[0]}"
    if f == "cQ":
        return f"{c[0]} {o[0]} {Q}"
    if f == "cQc":
        return f"{c[0]} {o[0]} {Q} {o[1]} {c[1]}"
    if f == "absQ_c":
        return f"abs({Q}) {o[0]} {c[0]}"
    if f == "c_absQ":
        return f"{c[0]} {o[0]} abs({Q})"
    if f == "negQ_c":
        return f"-{Q} {o[0]} {c[0]}"
    if f == "Qpk_c":
        return f"{Q} + {c[1]} {o[0]} {c[0]}"
    inner = {
        "absQpk": f"abs({Q} + {c[1]})" if len(c) > 1 else "",
        "absQmk": f"abs({Q} - {c[1]})" if len(c) > 1 else "",
        "abskpQ": f"abs({c[1]} + {Q})" if len(c) > 1 else "",
        "abskmQ": f"abs({c[1]} - {Q})" if len(c) > 1 else "",
    }
    if f.startswith("c_"):
        return f"{c[0]} {o[0]} {inner[f[2:]]}"
    return f"{inner[f[:-2]]} {o[0]} {c[0]}"


def relations_program(cases):
    """One two-object-per-case program: requirement i talks about its own target object t<i>, so the
    relations it produces are identified by their target."""
    lines = [
        "box = RectangularRegion(0@0, 0, 100, 100)",
        "ego = new Object in box, with allowCollisions True",
    ]
    for i, c in enumerate(cases):
        lines.append(f"t{i} = new Object in box, with allowCollisions True")
    for i, c in enumerate(cases):
        lines.append(f"require {shape_text(c, f't{i}')}")
    return "\n".join(lines) + "\n"


# ----------------------------------------------------------------------------- lattice programs
BIG = 10000
Q = 4  # quarter units per Scenic unit


def pbox(x0, y0, x1, y1):
    """A rectangle of a polygon at z = 0 (integer Scenic units) as a lattice box."""
    return [x0 * Q, y0 * Q, -BIG, x1 * Q, y1 * Q, BIG]


def vbox(x0, y0, z0, x1, y1, z1):
    return [x0 * Q, y0 * Q, z0 * Q, x1 * Q, y1 * Q, z1 * Q]


def _angles(spec):
    """lattice values (quarter turns) of an angle spec: ("const", k) | ("uniform", [k..]) |
    ("range", a, b) -- for a Range the lattice angles inside it, end points included"""
    if spec[0] == "const":
        return [spec[1]]
    if spec[0] == "uniform":
        return list(spec[1])
    return list(range(spec[1], spec[2] + 1))


def _angle_text(spec):
    if spec[0] == "const":
        return f"{90 * spec[1]} deg"
    if spec[0] == "uniform":
        return "Uniform(" + ", ".join(f"{90 * k} deg" for k in spec[1]) + ")"
    return f"Range({90 * spec[1]} deg, {90 * spec[2]} deg)"


def _obj(**kw):
    """yaw=k is the old spelling (`facing 90k deg`); ori=(yawspec, pitchspec, rollspec) gives the
    pose through `with yaw/pitch/roll` (constants, discrete Uniform, Range over lattice angles)"""
    o = dict(fixed=False, pos=[0, 0, 0], base=[], poly=True, off=[0, 0], sizes=[[Q, Q, Q]], yaw=0,
             facing=False, vis="none", vd=50 * Q, mode="in", wdist=None, ldist=None, ori=None,
             devspec=None, lift=0)
    o.update(kw)
    # heading deviation (degrees) added to the field heading: ("range", a, b) | ("uniform", [a, b..]);
    # witnesses of a Range are interior values (two degrees inside), of a Uniform its values
    d = o["devspec"]
    if d is None:
        o["dev"], o["devs"] = [0, 0], [0]
    elif d[0] == "range":
        a, b = d[1], d[2]
        o["dev"] = [a, b]
        o["devs"] = sorted({a + 2, (a + b) // 2, b - 2} | ({0} if a < 0 < b else set()))
    else:
        o["dev"], o["devs"] = [min(d[1]), max(d[1])], sorted(d[1])
    o["onz"] = o["mode"] == "on"
    if o["ori"]:
        o["yaws"], o["pitches"], o["rolls"] = (_angles(a) for a in o["ori"])
    else:
        o["yaws"], o["pitches"], o["rolls"] = [o["yaw"]], [0], [0]
    return o


def _u(v):
    """quarter units -> Scenic number text"""
    return repr(v / Q) if v % Q else str(v // Q)


def _poly_text(b):
    return f"PolygonalRegion([{_u(b[0])}@{_u(b[1])}, {_u(b[3])}@{_u(b[1])}, {_u(b[3])}@{_u(b[4])}, {_u(b[0])}@{_u(b[4])}])"


def _union_text(boxes, poly=True):
    if poly:
        t = _poly_text(boxes[0])
        for b in boxes[1:]:
            t += f".union({_poly_text(b)})"
        return t
    b = boxes[0]
    c = [(b[i] + b[i + 3]) / 2 / Q for i in range(3)]
    d = [(b[i + 3] - b[i]) / Q for i in range(3)]
    return f"BoxRegion(position=({c[0]}, {c[1]}, {c[2]}), dimensions=({d[0]}, {d[1]}, {d[2]}))"


def _size_text(o):
    """sizes are the product wdist x ldist x {h} when random, else one triple"""
    w, l, h = o["sizes"][0]
    wt = f"Uniform({', '.join(_u(x) for x in o['wdist'])})" if o.get("wdist") else _u(w)
    lt = f"Uniform({', '.join(_u(x) for x in o['ldist'])})" if o.get("ldist") else _u(l)
    return f"with width {wt}, with length {lt}, with height {_u(h)}"


def program_text(p):
    L = []
    objs = p["objs"]
    if p["cont"]:
        L.append(f"workspace = Workspace({_union_text(p['cont'], p['fam'] != 'box')})")
    if p["field"]:
        for i, (b, h) in enumerate(p["field"]):
            L.append(f"c{i} = {_poly_text(b)}")
        cells = ", ".join(f"[c{i}.polygons, {h} deg]" for i, (b, h) in enumerate(p["field"]))
        L.append(f'vf = PolygonalVectorField("F", [{cells}])')
    names = ["ego", "other"] if len(objs) == 2 else ["ego"]
    for k, o in enumerate(objs):
        nm = names[k]
        if o["fixed"]:
            L.append(f"{nm} = new Object at ({_u(o['pos'][0])}, {_u(o['pos'][1])}, {_u(o['pos'][2])}), "
                     f"with visibleDistance {_u(o['vd'])}, with allowCollisions True")
            continue
        cls = "Object"
        if o["mode"] == "on":
            cls = f"T{k}"
            L.append(f"class {cls}(Object):")
            lift = f" - {_u(o['lift'])}" if o["lift"] else ""
            L.append(f"    baseOffset: ({_u(-o['off'][0])}, {_u(-o['off'][1])}, -self.height/2{lift})")
        elif o["devspec"]:
            cls = f"D{k}"
            L.append(f"class {cls}(Object):")
            L.append("    yaw: (vf at self.position).yaw + self.deviation")
            L.append("    deviation: 0")
        L.append(f"base{k} = {_union_text(o['base'], o['poly'])}")
        spec = [f"new {cls} {o['mode']} base{k}", _size_text(o)]
        if o["devspec"]:
            d = o["devspec"]
            spec.append(f"with deviation Range({d[1]}, {d[2]}) deg" if d[0] == "range"
                        else "with deviation Uniform(" + ", ".join(f"{v} deg" for v in d[1]) + ")")
        elif o["facing"]:
            spec.append("facing vf")
        elif o["ori"]:
            for nm_, a in zip(("yaw", "pitch", "roll"), o["ori"]):
                if a != ("const", 0):
                    spec.append(f"with {nm_} {_angle_text(a)}")
        else:
            spec.append(f"facing {90 * o['yaw']} deg")
        spec.append("with allowCollisions True")
        if k == 0 and len(objs) == 2:
            spec.append(f"with visibleDistance {_u(o['vd'])}")
        if o["vis"] == "requireVisible":
            spec.append("with requireVisible True")
        elif o["vis"] == "visible":
            spec.append("visible")
        elif o["vis"] == "visibleFrom":
            spec.append("visible from ego")
        L.append(f"{nm} = " + ", ".join(spec))
    for i, r in enumerate(p["reqs"]):
        t = shape_text(r, "other", "ego", scale=True)
        if r["kind"] == "require":
            L.append(f"require {t}")
        elif r["kind"] == "soft":
            L.append(f"require[0.5] {t}")
        elif r["kind"] == "terminate":
            L.append(f"terminate when {t}")
        else:
            L.append(f"record {t} as rec{i}")
    return "\n".join(L) + "\n"


def to_tla(p):
    """The JSON given to TLC: drop the printer-only fields."""
    q = dict(id=p["id"], fam=p["fam"], cont=p["cont"], field=p["field"],
             reqs=[dict(q=r["q"], form=r["form"], ops=r["ops"], cs=r["cs"], kind=r["kind"]) for r in p["reqs"]],
             objs=[{k: o[k] for k in ("fixed", "pos", "base", "poly", "off", "sizes", "yaws", "pitches", "rolls", "facing", "vis", "vd",
                                      "dev", "devs", "onz", "lift")}
                   for o in p["objs"]])
    return q


OFFS = [(0, 0), (2, 0), (4, 0), (0, -6), (3, 4), (-6, 8), (8, 0), (0, 2)]


def gen_cont(rnd, pid):
    """one object in/on a rectilinear polygon, container = workspace polygon"""
    W, H = rnd.choice([4, 6, 8]), rnd.choice([4, 6])
    cont = [pbox(0, 0, W, H)]
    if rnd.random() < 0.6:  # L / T shaped container
        x0 = rnd.randrange(0, W - 1)
        cont.append(pbox(x0, H, min(W, x0 + rnd.choice([2, 3, 4])), H + rnd.choice([2, 3])))
    bx0, by0 = rnd.choice([-2, -1, 0, 1]), rnd.choice([-1, 0, 1])
    base = [pbox(bx0, by0, bx0 + rnd.choice([4, 6, 8]), by0 + rnd.choice([3, 5, 7]))]
    if rnd.random() < 0.3:
        base.append(pbox(bx0 - 2, by0, bx0, by0 + 2))
    if rnd.random() < 0.25:
        base = [list(b) for b in cont]
    mode = rnd.choice(["in", "in", "on"])
    off = (0, 0)
    if mode == "on":
        off = rnd.choice(OFFS)
    wd = rnd.choice([None, None, [Q, 2 * Q], [2 * Q, 3 * Q]])
    ld = rnd.choice([None, None, None, [Q, 3 * Q]])
    w = rnd.choice([Q, 2 * Q, 3 * Q])
    l = rnd.choice([Q, 2 * Q, 3 * Q])
    sizes = [[a, b, Q] for a in (wd or [w]) for b in (ld or [l])]
    o = _obj(base=base, mode=mode, off=list(off), sizes=sizes, wdist=wd, ldist=ld, yaw=rnd.choice([0, 1]))
    return dict(id=pid, fam="cont", objs=[o], cont=cont, field=[], reqs=[])


FLAT_WIDE = [[4 * Q, 4 * Q, Q], [4 * Q, 2 * Q, Q], [3 * Q, 3 * Q, Q], [3 * Q, 4 * Q, Q]]
TALL_THIN = [[Q, Q, 4 * Q], [Q, 2 * Q, 4 * Q], [Q, Q, 3 * Q]]
ANGLE_SPECS = [("const", 0), ("const", 1), ("const", -1), ("const", 2), ("uniform", [0, 1]), ("uniform", [0, 1, 2]),
               ("uniform", [-1, 1]), ("range", 0, 1), ("range", -1, 1), ("range", 0, 2), ("range", 1, 2)]
RANDOM_SPECS = [a for a in ANGLE_SPECS if a[0] != "const"]


def gen_ori(rnd, pid):
    """containment pruning of an object whose pose has a fixed non-zero or RANDOM pitch / roll /
    yaw: flat wide objects (height << width, length) and tall thin ones, in a polygonal region
    with a polygonal container.  Which inradius may erode the container depends on whether the
    object is known to lie flat."""
    W, H = rnd.choice([6, 8, 10]), rnd.choice([6, 8])
    cont = [pbox(0, 0, W, H)]
    if rnd.random() < 0.4:
        x0 = rnd.randrange(0, W - 3)
        cont.append(pbox(x0, H, x0 + rnd.choice([2, 3, 5]), H + rnd.choice([2, 3])))
    if rnd.random() < 0.5:
        base = [list(b) for b in cont]
    else:
        base = [pbox(-1, -1, W + 1, H + rnd.choice([0, 1]))]
    sz = rnd.choice(FLAT_WIDE if rnd.random() < 0.65 else TALL_THIN)
    kind = rnd.choice(["roll", "roll", "pitch", "pitch", "both", "yaw", "fixed", "all"])
    c0 = ("const", 0)
    yaw = rnd.choice(ANGLE_SPECS) if kind in ("yaw", "all") or rnd.random() < 0.3 else c0
    if kind == "yaw":
        pitch = roll = c0
    elif kind == "fixed":
        pitch, roll = rnd.choice([(c0, ("const", 1)), (("const", 1), c0), (("const", -1), ("const", 1)), (("const", 2), c0)])
    else:
        pitch = rnd.choice(RANDOM_SPECS) if kind in ("pitch", "both", "all") else rnd.choice([c0, c0, c0, ("const", 1)])
        roll = rnd.choice(RANDOM_SPECS) if kind in ("roll", "both", "all") else rnd.choice([c0, c0, c0, ("const", 1)])
    wd = None
    sizes = [list(sz)]
    if rnd.random() < 0.25:  # a random width on top
        wd = sorted({sz[0], rnd.choice([Q, 2 * Q, 3 * Q])})
        sizes = [[w, sz[1], sz[2]] for w in wd]
        if len(wd) == 1:
            wd = None
    o = _obj(base=base, sizes=sizes, wdist=wd, ori=(yaw, pitch, roll))
    return dict(id=pid, fam="ori", objs=[o], cont=cont, field=[], reqs=[])


def gen_box(rnd, pid):
    D = rnd.choice([4, 6])
    cont = [vbox(-D // 2, -D // 2, -D // 2, D // 2, D // 2, D // 2)]
    sx = rnd.choice([-1, 0, 1, 2])
    base = [vbox(sx - 2, -1, -1, sx + 2, 1, 1)]
    s = rnd.choice([Q, 2 * Q])
    if rnd.random() < 0.5:
        o = _obj(base=base, poly=False, sizes=[[s, 2 * Q, rnd.choice([Q, 2 * Q])]],
                 ori=(rnd.choice(ANGLE_SPECS), rnd.choice(ANGLE_SPECS), rnd.choice(ANGLE_SPECS)))
    else:
        o = _obj(base=base, poly=False, sizes=[[s, s, rnd.choice([Q, 2 * Q])]], yaw=rnd.choice([0, 1]))
    return dict(id=pid, fam="box", objs=[o], cont=cont, field=[], reqs=[])


def gen_vis(rnd, pid, tier="quick"):
    ex, ey = rnd.choice([-1, 0, 1]), rnd.choice([0, 1])
    vd = rnd.choice([Q, 2 * Q, 3 * Q, 2] + ([1] if tier != "quick" else []))
    ego = _obj(fixed=True, pos=[ex * Q, ey * Q, 0], vd=vd, sizes=[[Q, Q, Q]])
    R = rnd.choice([5, 6])
    base = [pbox(ex - R, ey - R, ex + R, ey + rnd.choice([2, R]))]
    s = rnd.choice([Q, 2 * Q, 4 * Q])
    cont = [] if rnd.random() < 0.5 else [pbox(ex - R - 1, ey - R - 1, ex + R + 1, ey + R + 1)]
    foo = _obj(base=base, sizes=[[s, rnd.choice([s, Q]), rnd.choice([Q, s])]], vis=rnd.choice(["requireVisible", "visible"]),
               yaw=rnd.choice([0, 1]))
    return dict(id=pid, fam="vis", objs=[ego, foo], cont=cont, field=[], reqs=[])


def gen_vis_tall(rnd, pid):
    """visibility pruning of an object placed ON a polygon (its centre is half its height, plus a
    lift, above the sampled base point) seen by a fixed observer above or below the polygon's
    plane with a small view distance: satisfiable but tight"""
    sz = rnd.choice([[Q, Q, 6 * Q], [Q, Q, 4 * Q], [2 * Q, 2 * Q, 4 * Q], [2 * Q, Q, 3 * Q], [2 * Q, 2 * Q, Q]])
    below = rnd.random() < 0.3
    lift = rnd.choice([0, 0, Q, 2 * Q]) if not below else -sz[2] - rnd.choice([0, Q])
    top, bottom = sz[2] + lift, lift
    vd = rnd.choice([4, 6, 8])
    gap = rnd.choice([1, 2, 3])                      # vertical clearance eye - object, quarter units
    ez = top + gap if not below else bottom - gap
    ex, ey = rnd.choice([-1, 0, 1]) * Q, rnd.choice([0, 1]) * Q
    ego = _obj(fixed=True, pos=[ex, ey, ez], vd=max(vd, gap + 2))
    R = rnd.choice([5, 6])
    base = [pbox(-R, -R, R, rnd.choice([3, R]))]
    cont = [] if rnd.random() < 0.6 else [pbox(-R - 1, -R - 1, R + 1, R + 1)]
    off = rnd.choice([(0, 0), (0, 0), (2, 0), (0, -2)])
    foo = _obj(base=base, mode="on", off=list(off), lift=lift, sizes=[sz],
               vis=rnd.choice(["requireVisible", "requireVisible", "visible", "visibleFrom"]))
    return dict(id=pid, fam="vis", objs=[ego, foo], cont=cont, field=[], reqs=[], nscenes_cap=4)


DEV_SPECS = [("range", -10, 10), ("range", 0, 20), ("range", -20, 0), ("range", -15, 5),
             ("uniform", [-10, 10]), ("uniform", [-5, 0, 5]), ("uniform", [0, 15])]
WRAP_HEADS = [170, 175, -175, 180, -170]
DEV_RH = [(-100, -70), (70, 100), (-110, -80), (80, 110), (160, 180), (-180, -165), (-20, 20), (150, 175), (-10, 35)]


def gen_rh_dev(rnd, pid):
    """relative heading with headings = field heading + bounded random deviation (Range / Uniform),
    cells near +-180 degrees so that heading +- deviation crosses the cut, one or both objects
    deviating, required intervals some of which end at the cut themselves"""
    n = rnd.choice([3, 3, 4])
    s = 2
    x = 0
    field = []
    for i in range(n):
        h = rnd.choice(WRAP_HEADS) if (i == 0 or rnd.random() < 0.35) else rnd.choice([90, 0, -90, 85, -95])
        field.append([pbox(x, 0, x + s, s), h])
        x += s + rnd.choice([1, 2, 3])
    rnd.shuffle(field)
    xs = sorted(f[0][0] for f in field)
    for f, x0 in zip(field, xs):                      # headings shuffled over the positions
        f[0] = pbox(x0 // Q, 0, x0 // Q + s, s)
    cells = [f[0] for f in field]
    de = rnd.choice(DEV_SPECS)
    do = rnd.choice(DEV_SPECS + [None, None, None])
    if rnd.random() < 0.25:
        de, do = do, de
    ego = _obj(base=[list(c) for c in cells], facing=True, devspec=de)
    other = _obj(base=[list(c) for c in cells], facing=True, devspec=do)
    lo, hi = rnd.choice(DEV_RH)
    form = rnd.choice(["cQc", "cQc", "absQmk_c", "Qc", "cQ"])
    if form == "cQc":
        r = _req("rh", "cQc", [rnd.choice(["le", "lt"]), rnd.choice(["le", "lt"])], [lo, hi])
    elif form == "absQmk_c":
        r = _req("rh", "absQmk_c", [rnd.choice(["le", "lt"])], [(hi - lo) // 2, (hi + lo) // 2])
    elif form == "Qc":
        r = _req("rh", "Qc", [rnd.choice(["le", "ge"])], [rnd.choice([lo, hi])])
    else:
        r = _req("rh", "cQ", [rnd.choice(["le", "ge"])], [rnd.choice([lo, hi])])
    d = _req("dist", "Qc", ["le"], [rnd.choice([4, 6, 9, 14]) * Q])
    return dict(id=pid, fam="rh", objs=[ego, other], cont=[], field=field, reqs=[r, d])


RH_CONSTS = [-170, -135, -100, -80, -45, -30, 10, 30, 45, 60, 80, 100, 135, 170]
RH_K = [-100, -80, -45, 45, 80, 100, 170]
MATCH_FORMS = ["Qc", "cQ", "cQc", "absQ_c", "c_absQ"] + ABSK_FORMS


def rand_shape(rnd, q, consts, ks, ops=None, forms=None):
    f = rnd.choice(forms or ALL_FORMS)
    ops = ops or OPS
    if f == "cQc":
        a, b = sorted(rnd.sample(consts, 2))
        o1, o2 = rnd.choice(ops), rnd.choice(ops)
        return dict(q=q, form=f, ops=[o1, o2], cs=[a, b])
    if f in ABSK_FORMS or f == "Qpk_c":
        return dict(q=q, form=f, ops=[rnd.choice(ops)], cs=[rnd.choice(consts), rnd.choice(ks)])
    return dict(q=q, form=f, ops=[rnd.choice(ops)], cs=[rnd.choice(consts)])


def gen_rh(rnd, pid, trigger):
    """two objects on a polygonal vector field with headings at multiples of 90 degrees.
    trigger: None (clean) | noneq | nonhard | unnorm"""
    n = rnd.choice([3, 3, 4])
    s = rnd.choice([2, 3])
    x = 0
    field = []
    heads = [0, 90, -90] if trigger != "unnorm" else [0, 90, -90, 180]
    for i in range(n):
        if trigger == "unnorm":
            h = rnd.choice([180, -90, 90, 0, 180])
        else:
            # keep all pairwise differences below a half turn: headings from {0,90} or {0,-90}
            h = rnd.choice(heads[:2]) if pid % 2 else rnd.choice([0, -90])
        y = rnd.choice([0, 0, 2])
        field.append([pbox(x, y, x + s, y + s), h])
        x += s + rnd.choice([1, 2, 4, 7])
    if trigger == "unnorm" and not any(abs(a[1] - b[1]) >= 180 for a in field for b in field):
        field[0][1], field[-1][1] = 180, -90
    cells = [f[0] for f in field]

    def sub():
        k = rnd.randrange(1, n + 1)
        ids = sorted(rnd.sample(range(n), k)) if rnd.random() < 0.5 else list(range(n))
        return [list(cells[i]) for i in ids]

    vis = rnd.choice(["none", "none", "none", "requireVisible", "visible"])
    vd = rnd.choice([2 * Q, 4 * Q, 6 * Q]) if vis != "none" else 50 * Q
    ego = _obj(base=sub(), facing=True, vd=vd)
    osz = rnd.choice([Q, 2 * Q])
    other = _obj(base=sub(), facing=True, vis=vis, sizes=[[osz, osz, osz]])
    dconsts = [2 * Q, 3 * Q, 4 * Q, 6 * Q, 8 * Q, 12 * Q, 5 * Q]
    dk = [-2 * Q, Q, 2 * Q, 4 * Q]
    okops = ["lt", "le", "gt", "ge", "eq"]
    rops = ["lt", "le", "gt", "ge"]
    reqs = []
    r = rand_shape(rnd, "rh", RH_CONSTS, RH_K, rops, MATCH_FORMS)
    r["kind"] = "require"
    reqs.append(r)
    if vis == "none" or rnd.random() < 0.5:
        d = rand_shape(rnd, "dist", dconsts, dk, okops if trigger != "noneq" else ["ne"],
                       MATCH_FORMS if rnd.random() < 0.8 else ALL_FORMS)
        d["kind"] = "require"
        if trigger == "nonhard":
            d["ops"] = [rnd.choice(["lt", "le"]) for _ in d["ops"]]
            d["kind"] = rnd.choice(["soft", "terminate", "record"])
        reqs.append(d)
    if trigger == "nonhard" and rnd.random() < 0.3:
        reqs[0]["kind"] = rnd.choice(["soft", "terminate"])
    rnd.shuffle(reqs)
    return dict(id=pid, fam="rh", objs=[ego, other], cont=[], field=field, reqs=reqs)


def pairing_program(pid, case, extracted):
    """The standard two-object program that makes an unsound extracted interval change the
    pruned region (DESIGN C08 verdict policy).  case: a Relations case (constants in units /
    steps of 60 degrees); extracted: (lo, hi) observed on the real code, same units.
    dist: three cells, ego's far cell only has a partner at a distance the interval excludes.
    rh: two cells whose relative heading the interval excludes."""
    r = dict(q=case["q"], form=case["form"], ops=list(case["ops"]), kind="require")
    if case["q"] == "dist":
        r["cs"] = [c * Q for c in case["cs"]]
        rh = dict(q="rh", form="cQc", ops=["le", "le"], cs=[80, 100], kind="require")
        # unit cells: ego's far cell (heading 0) starts g units after the only 90-degree cell, with g
        # the extracted upper bound: the dilated cell does not reach it although distances just
        # above g may be true
        g = max(int(math.ceil(extracted[1])), 1)
        field = [[pbox(0, 0, 1, 1), 0], [pbox(2, 0, 3, 1), 90], [pbox(3 + g, 0, 4 + g, 1), 0]]
        reqs = [rh, r]
    else:
        r["cs"] = [c * 60 for c in case["cs"]]
        d = dict(q="dist", form="Qc", ops=["le"], cs=[40 * Q], kind="require")
        field = [[pbox(0, 0, 1, 1), 0], [pbox(2, 0, 3, 1), 90], [pbox(4, 0, 5, 1), -90]]
        reqs = [r, d]
    cells = [list(f[0]) for f in field]
    ego = _obj(base=cells, facing=True)
    other = _obj(base=[list(c) for c in cells], facing=True)
    return dict(id=pid, fam="rh", objs=[ego, other], cont=[], field=field, reqs=reqs, pairing=case["id"])


def _rh_prog(field, reqs, ebase=None, obase=None, vis="none", vd=50 * Q, osize=Q):
    cells = [list(f[0]) for f in field]
    ego = _obj(base=[cells[i] for i in (ebase if ebase is not None else range(len(cells)))], facing=True, vd=vd)
    other = _obj(base=[list(cells[i]) for i in (obase if obase is not None else range(len(cells)))], facing=True, vis=vis,
                 sizes=[[osize, osize, osize]])
    return dict(id=0, fam="rh", objs=[ego, other], cont=[], field=field, reqs=reqs)


def _req(q, form, ops, cs, kind="require"):
    return dict(q=q, form=form, ops=ops, cs=cs, kind=kind)


def core_programs(tier="quick"):
    """Fixed minimal programs, always run: for each pruning technique one program that must hold
    and the smallest variations that reach each named as-implemented deviation."""
    P = []
    three = [[pbox(0, 0, 2, 2), 0], [pbox(3, 0, 5, 2), 90], [pbox(12, 0, 14, 2), 0]]
    rh90 = _req("rh", "cQc", ["le", "le"], [80, 100])
    # relative heading + hard distance bound (holds): the far cell really is infeasible for ego
    P.append(_rh_prog(three, [rh90, _req("dist", "Qc", ["le"], [6 * Q])]))
    # the same with the distance only excluded at one value / soft / a termination condition / recorded
    P.append(_rh_prog(three, [rh90, _req("dist", "Qc", ["ne"], [6 * Q])]))
    P.append(_rh_prog(three, [rh90, _req("dist", "Qc", ["le"], [6 * Q], "soft")]))
    P.append(_rh_prog(three, [rh90, _req("dist", "Qc", ["le"], [6 * Q], "terminate")]))
    P.append(_rh_prog(three, [rh90, _req("dist", "absQmk_c", ["lt"], [2 * Q, 3 * Q], "record")]))
    # a termination condition that can never hold is not an inconsistent scenario
    P.append(_rh_prog(three, [rh90, _req("dist", "Qc", ["le"], [6 * Q]), _req("rh", "absQ_c", ["lt"], [-30], "terminate")]))
    # headings across the +-180 degree cut: ego at 180, other at -90 is a relative heading of +90
    wrap = [[pbox(0, 0, 2, 2), 180], [pbox(3, 0, 5, 2), -90], [pbox(7, 0, 9, 2), 90]]
    P.append(_rh_prog(wrap, [rh90, _req("dist", "Qc", ["le"], [20 * Q])]))
    P.append(_rh_prog(wrap, [_req("rh", "absQmk_c", ["le"], [10, -90]), _req("dist", "Qc", ["lt"], [20 * Q])]))
    # visibility bound instead of a distance requirement (random observer)
    P.append(_rh_prog(three, [rh90], vis="requireVisible", vd=4 * Q))
    P.append(_rh_prog(three, [rh90], vis="visible", vd=2 * Q))
    # the bound is view distance + radius of the seen object: cells a view distance apart, a big object
    apart = [[pbox(0, 0, 2, 2), 0], [pbox(6, 0, 8, 2), 90], [pbox(20, 0, 22, 2), 0]]
    P.append(_rh_prog(apart, [rh90], vis="requireVisible", vd=4 * Q, osize=2 * Q))
    # dilated cell exactly touching another cell
    touch = [[pbox(0, 0, 2, 2), 0], [pbox(3, 0, 5, 2), 90], [pbox(8, 0, 10, 2), 0]]
    P.append(_rh_prog(touch, [rh90, _req("dist", "Qc", ["le"], [3 * Q])]))
    # containment: in a workspace (holds), on a region with an offset below / above the inradius
    ws = [pbox(0, 0, 6, 4)]
    wide = [pbox(-3, 0, 6, 4)]
    P.append(dict(id=0, fam="cont", cont=ws, field=[], reqs=[],
                  objs=[_obj(base=[list(b) for b in ws], sizes=[[2 * Q, 2 * Q, Q]])]))
    P.append(dict(id=0, fam="cont", cont=ws, field=[], reqs=[],
                  objs=[_obj(base=wide, mode="on", off=[2, 0], sizes=[[2 * Q, 2 * Q, Q]])]))
    P.append(dict(id=0, fam="cont", cont=ws + [pbox(0, 4, 2, 7)], field=[], reqs=[],
                  objs=[_obj(base=[pbox(-1, -1, 7, 8)], sizes=[[Q, 2 * Q, Q], [3 * Q, 2 * Q, Q]], wdist=[Q, 3 * Q], yaw=1)]))
    P.append(dict(id=0, fam="cont", cont=ws, field=[], reqs=[],
                  objs=[_obj(base=wide, mode="on", off=[8, 0], sizes=[[Q, Q, Q]])]))
    # containment with a pose that is not known to be flat: a flat wide object whose roll is random
    # with a support starting at 0 (Range and discrete Uniform), a fixed quarter-turn pitch, a
    # random yaw on a flat object (planar inradius is right there), a tall thin object tipping over
    sq = [pbox(0, 0, 8, 6)]
    c0 = ("const", 0)
    for sz, ori in [([4 * Q, 4 * Q, Q], (c0, c0, ("range", 0, 1))),
                    ([4 * Q, 2 * Q, Q], (("range", 0, 1), ("uniform", [0, 1]), c0)),
                    ([4 * Q, 3 * Q, Q], (c0, ("const", 1), c0)),
                    ([4 * Q, 2 * Q, Q], (("uniform", [0, 1]), c0, c0)),
                    ([Q, Q, 4 * Q], (c0, ("range", -1, 1), ("uniform", [0, 2])))]:
        P.append(dict(id=0, fam="ori", cont=sq, field=[], reqs=[],
                      objs=[_obj(base=[list(b) for b in sq], sizes=[sz], ori=ori)]))
    # bounds written around an offset inside abs(), constant on either side of the sum/difference,
    # either sign, both spellings of the comparison: rh within 10 degrees of +90 / -90, distance
    # within 2 of 4
    far = _req("dist", "Qc", ["le"], [6 * Q])
    mirror = [[pbox(0, 0, 2, 2), 0], [pbox(3, 0, 5, 2), 90], [pbox(6, 0, 8, 2), -90]]
    P.append(_rh_prog(mirror, [_req("rh", "abskmQ_c", ["le"], [10, 90]), far]))        # abs(90 - rh) <= 10
    P.append(_rh_prog(mirror, [_req("rh", "c_abskmQ", ["ge"], [10, -90]), far]))       # 10 >= abs(-90 - rh)
    P.append(_rh_prog(mirror, [_req("rh", "abskpQ_c", ["lt"], [10, -90]), far]))       # abs(-90 + rh) < 10
    P.append(_rh_prog(mirror, [_req("rh", "c_absQmk", ["gt"], [10, -90]), far]))       # 10 > abs(rh - -90)
    P.append(_rh_prog(three, [rh90, _req("dist", "abskmQ_c", ["le"], [2 * Q, 4 * Q])]))   # abs(4 - d) <= 2
    P.append(_rh_prog(three, [rh90, _req("dist", "c_abskpQ", ["ge"], [6 * Q, -4 * Q])]))  # 6 >= abs(-4 + d)
    # headings = field heading + bounded random deviation crossing the +-180 degree cut: a 175 degree
    # cell with +-10 degrees (ego in it sees the 90 degree cell at -85 +- 10), both objects
    # deviating around -175 / 170, a required interval that ends at the cut
    w3 = [[pbox(0, 0, 2, 2), 175], [pbox(4, 0, 6, 2), 90], [pbox(8, 0, 10, 2), 0]]
    near = _req("dist", "Qc", ["le"], [7 * Q])

    def dev_prog(field, reqs, de, do):
        cells_ = [list(f[0]) for f in field]
        return dict(id=0, fam="rh", cont=[], field=field, reqs=reqs,
                    objs=[_obj(base=cells_, facing=True, devspec=de),
                          _obj(base=[list(c) for c in cells_], facing=True, devspec=do)])

    P.append(dev_prog(w3, [_req("rh", "cQc", ["le", "le"], [-100, -70]), near], ("range", -10, 10), None))
    w4 = [[pbox(0, 0, 2, 2), -175], [pbox(4, 0, 6, 2), 85], [pbox(8, 0, 10, 2), 170]]
    P.append(dev_prog(w4, [_req("rh", "absQmk_c", ["le"], [15, -95]), near], ("uniform", [-10, 10]), ("range", 0, 20)))
    w5 = [[pbox(0, 0, 2, 2), 0], [pbox(4, 0, 6, 2), 175], [pbox(8, 0, 10, 2), 90]]
    P.append(dev_prog(w5, [_req("rh", "cQ", ["le"], [165]), near], None, ("range", -10, 10)))
    # visibility of a tall object standing ON the ground seen from above its top with a small view
    # distance (the base point is farther from the view region than the object's radius), the same
    # `visible from ego` with the base lifted, and an observer below a hanging object
    up = _obj(fixed=True, pos=[0, 0, 25], vd=6)
    P.append(dict(id=0, fam="vis", cont=[], field=[], reqs=[], nscenes_cap=4,
                  objs=[up, _obj(base=[pbox(-6, -6, 6, 6)], mode="on", sizes=[[Q, Q, 6 * Q]], vis="requireVisible")]))
    up2 = _obj(fixed=True, pos=[Q, 0, 22], vd=4)
    P.append(dict(id=0, fam="vis", cont=[pbox(-6, -6, 6, 6)], field=[], reqs=[], nscenes_cap=4,
                  objs=[up2, _obj(base=[pbox(-5, -5, 5, 5)], mode="on", lift=Q, sizes=[[Q, Q, 4 * Q]], vis="visibleFrom")]))
    down = _obj(fixed=True, pos=[0, Q, -19], vd=6)
    P.append(dict(id=0, fam="vis", cont=[], field=[], reqs=[], nscenes_cap=4,
                  objs=[down, _obj(base=[pbox(-5, -5, 5, 5)], mode="on", lift=-4 * Q, sizes=[[2 * Q, 2 * Q, 4 * Q]], vis="visible")]))
    # visibility from a fixed ego
    ego = _obj(fixed=True, pos=[0, 0, 0], vd=2 * Q)
    P.append(dict(id=0, fam="vis", cont=[], field=[], reqs=[],
                  objs=[ego, _obj(base=[pbox(-5, -5, 5, 5)], sizes=[[2 * Q, 2 * Q, 2 * Q]], vis="requireVisible")]))
    # a view region smaller than one unit (the dilation passes are counted with the relative pitch)
    near = _obj(fixed=True, pos=[0, 0, 0], vd=1)
    # (no lattice probe falls between the under-dilated region and the true bound, so this one is
    # decided by the differential run: a small base keeps the acceptance rate high, 40 scenes)
    # thorough only: the real visibility check costs seconds per attempt when the object surrounds the eye
    if tier != "quick":
        P.append(dict(id=0, fam="vis", cont=[], field=[], reqs=[], nscenes=40,
                      objs=[near, _obj(base=[pbox(-3, -3, 3, 3)], sizes=[[4 * Q, 4 * Q, 4 * Q]], vis="requireVisible")]))
    return P


def lattice_programs(tier, seed):
    rnd = random.Random(seed * 7919 + 5)
    n = dict(cont=3, ori=3, box=1, vis=1, vis_tall=2, rh_clean=4, rh_dev=2, rh_trig=6) if tier == "quick" else \
        dict(cont=50, ori=45, box=8, vis=10, vis_tall=25, rh_clean=55, rh_dev=45, rh_trig=40)
    progs = []

    def add(p):
        p["id"] = len(progs) + 1
        progs.append(p)

    for p in core_programs(tier):
        add(p)

    for _ in range(n["cont"]):
        add(gen_cont(rnd, len(progs) + 1))
    for _ in range(n["ori"]):
        add(gen_ori(rnd, len(progs) + 1))
    for _ in range(n["box"]):
        add(gen_box(rnd, len(progs) + 1))
    for _ in range(n["vis"]):
        add(gen_vis(rnd, len(progs) + 1, tier))
    for _ in range(n["vis_tall"]):
        add(gen_vis_tall(rnd, len(progs) + 1))
    for _ in range(n["rh_dev"]):
        add(gen_rh_dev(rnd, len(progs) + 1))
    for _ in range(n["rh_clean"]):
        add(gen_rh(rnd, len(progs) + 1, None))
    for i in range(n["rh_trig"]):
        add(gen_rh(rnd, len(progs) + 1, ["noneq", "nonhard", "unnorm"][i % 3]))
    return progs
